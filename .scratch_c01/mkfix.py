import os, shutil, subprocess, sys
OUT='/verif/notes/proposed_fixes'
ALL='/tmp/c01fix_all'
shutil.rmtree(ALL, ignore_errors=True); shutil.copytree('/repo/kmip', ALL+'/kmip')
def patch(name, edits):
    tmp='/tmp/c01fix_one'; shutil.rmtree(tmp, ignore_errors=True); os.makedirs(tmp)
    files=sorted(set(f for f,_,_ in edits))
    out=''
    for f in files:
        os.makedirs(os.path.dirname(os.path.join(tmp,f)), exist_ok=True)
        shutil.copy(os.path.join('/repo',f), os.path.join(tmp,f))
    for root in (tmp, ALL):
        for f,old,new in edits:
            p=os.path.join(root,f); s=open(p).read()
            assert s.count(old)==1, (name, f, s.count(old), old[:70])
            open(p,'w').write(s.replace(old,new))
    for f in files:
        r=subprocess.run(['diff','-u','--label','a/'+f,'--label','b/'+f, os.path.join('/repo',f), os.path.join(tmp,f)],stdout=subprocess.PIPE,text=True)
        out+=r.stdout
    open(os.path.join(OUT,name),'w').write(out)
    print(name, len(out.splitlines()),'lines')
P='kmip/core/primitives.py'
patch('C01-textstring-padding-after-read.diff', [(P, """        self.padding_length = self.PADDING_SIZE - (self.length %
                                                   self.PADDING_SIZE)
        if self.padding_length < self.PADDING_SIZE:
            for _ in range(self.padding_length):
                pad = unpack('!B', istream.read(1))[0]
                if pad != 0:
                    raise exceptions.ReadValueError(
                        TextString.__name__,
                        'pad',
                        0,
                        pad
                    )

    def read(self, istream, kmip_version=enums.KMIPVersion.KMIP_1_0):
        super(TextString, self).read(istream, kmip_version=kmip_version)""", """        self.padding_length = self.PADDING_SIZE - (self.length %
                                                   self.PADDING_SIZE)
        if self.padding_length == self.PADDING_SIZE:
            self.padding_length = 0

        if self.padding_length < self.PADDING_SIZE:
            for _ in range(self.padding_length):
                pad = unpack('!B', istream.read(1))[0]
                if pad != 0:
                    raise exceptions.ReadValueError(
                        TextString.__name__,
                        'pad',
                        0,
                        pad
                    )

    def read(self, istream, kmip_version=enums.KMIPVersion.KMIP_1_0):
        super(TextString, self).read(istream, kmip_version=kmip_version)""")])
patch('C01-interval-enumeration-max.diff', [
 (P, """    # Bounds for unsigned 32-bit integers
    MIN = 0
    MAX = 4294967296

    def __init__(self, enum, value=None, tag=enums.Tags.DEFAULT):""", """    # Bounds for unsigned 32-bit integers
    MIN = 0
    MAX = 4294967295

    def __init__(self, enum, value=None, tag=enums.Tags.DEFAULT):"""),
 (P, """    # Bounds for unsigned 32-bit integers
    MIN = 0
    MAX = 4294967296

    def __init__(self, value=0, tag=enums.Tags.DEFAULT):""", """    # Bounds for unsigned 32-bit integers
    MIN = 0
    MAX = 4294967295

    def __init__(self, value=0, tag=enums.Tags.DEFAULT):""")])
patch('C01-textstring-utf8.diff', [
 (P, """        if self.value is not None:
            self.length = len(self.value)
            self.padding_length = self.PADDING_SIZE - (self.length %
                                                       self.PADDING_SIZE)
            if self.padding_length == self.PADDING_SIZE:
                self.padding_length = 0
        else:
            self.length = None
            self.padding_length = None

    def read_value(self, istream, kmip_version=enums.KMIPVersion.KMIP_1_0):
        # Read string text
        self.value = ''
        for _ in range(self.length):
            c = unpack(self.BYTE_FORMAT, istream.read(1))[0]
            if sys.version >= '3':
                c = c.decode()
            self.value += c
""", """        if self.value is not None:
            # KMIP 9.1.1.4: Text Strings are UTF-8; the length counts bytes.
            self.length = len(self._encoded())
            self.padding_length = self.PADDING_SIZE - (self.length %
                                                       self.PADDING_SIZE)
            if self.padding_length == self.PADDING_SIZE:
                self.padding_length = 0
        else:
            self.length = None
            self.padding_length = None

    def _encoded(self):
        if isinstance(self.value, bytes):
            return self.value
        return self.value.encode('utf-8')

    def read_value(self, istream, kmip_version=enums.KMIPVersion.KMIP_1_0):
        # Read string text
        data = istream.read(self.length)
        if len(data) != self.length:
            raise exceptions.ReadValueError(
                TextString.__name__,
                'value',
                '{0} bytes'.format(self.length),
                '{0} bytes'.format(len(data))
            )
        if sys.version >= '3':
            self.value = data.decode('utf-8')
        else:
            self.value = data
"""),
 (P, """        # Write string to stream
        for char in self.value:
            ostream.write(pack(self.BYTE_FORMAT, char.encode()))
""", """        # Write string to stream
        ostream.write(self._encoded())
""")])
M='kmip/core/messages/messages.py'
patch('C01-response-header-server-correlation-value.diff', [(M, """            if self._server_hashed_password:
                self._server_hashed_password.write(
                    tstream,
                    kmip_version=kmip_version
                )

        self.batch_count.write(tstream, kmip_version=kmip_version)""", """            if self._server_hashed_password:
                self._server_hashed_password.write(
                    tstream,
                    kmip_version=kmip_version
                )

        if self.server_correlation_value is not None:
            self.server_correlation_value.write(
                tstream,
                kmip_version=kmip_version
            )

        self.batch_count.write(tstream, kmip_version=kmip_version)""")])
patch('C01-response-item-unimplemented-payload.diff', [(M, """            expected = self.payload_factory.create(self.operation.value)
            if self.is_tag_next(expected.tag, tstream):
                self.response_payload = expected
                self.response_payload.read(tstream, kmip_version=kmip_version)""", """            # An error result for an operation whose response payload is not
            # implemented carries no payload and must still be readable.
            try:
                expected = self.payload_factory.create(self.operation.value)
            except NotImplementedError:
                expected = None
            if expected is not None and \\
                    self.is_tag_next(expected.tag, tstream):
                self.response_payload = expected
                self.response_payload.read(tstream, kmip_version=kmip_version)""")])
O='kmip/core/objects.py'
patch('C01-encode-mutates-attribute-tag.diff', [(O, """        attribute_value = attribute.attribute_value
        attribute_value.tag = attribute_tag
        attribute_values.append(attribute_value)""", """        # Re-tag a copy: the TemplateAttribute being converted must stay
        # encodable under KMIP 1.x afterwards.
        attribute_value = copy.deepcopy(attribute.attribute_value)
        attribute_value.tag = attribute_tag
        attribute_values.append(attribute_value)"""),
 (O, """import abc
""", """import abc
import copy
""")])
K='kmip/core/messages/payloads/create_key_pair.py'
s=open('/repo/'+K).read()
patch('C01-create-key-pair-response-kmip-2.0.diff', [(K, """        if self._private_key_template_attribute:
            self._private_key_template_attribute.write(
                local_buffer,
                kmip_version=kmip_version
            )

        if self._public_key_template_attribute:
            self._public_key_template_attribute.write(
                local_buffer,
                kmip_version=kmip_version
            )

        self.length = local_buffer.length()
        super(CreateKeyPairResponsePayload, self).write(""", """        if kmip_version < enums.KMIPVersion.KMIP_2_0:
            if self._private_key_template_attribute:
                self._private_key_template_attribute.write(
                    local_buffer,
                    kmip_version=kmip_version
                )

            if self._public_key_template_attribute:
                self._public_key_template_attribute.write(
                    local_buffer,
                    kmip_version=kmip_version
                )

        self.length = local_buffer.length()
        super(CreateKeyPairResponsePayload, self).write(""")])
patch('C02-biginteger-redundant-sign-bytes.diff', [(P, """        # Convert the value to binary and pad it as needed.
        binary = "{0:b}".format(abs(self.value))
        binary = ("0" * (64 - (len(binary) % 64))) + binary
""", """        # Convert the value to binary and pad it as needed. The width is the
        # smallest multiple of 64 bits that holds the value in two's
        # complement: for a negative value that is decided by abs(value) - 1
        # (so that -2**63 takes 8 bytes, not 16).
        binary = "{0:b}".format(abs(self.value))
        if self.value < 0:
            sizing = "{0:b}".format(abs(self.value) - 1)
        else:
            sizing = binary
        width = len(sizing) + (64 - (len(sizing) % 64))
        binary = ("0" * (width - len(binary))) + binary
""")])
