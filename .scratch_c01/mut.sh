#!/bin/sh
# usage: mut.sh name file 'python-substitution-old' 'new' checks...
name=$1; shift
rm -rf /tmp/c01mut && mkdir -p /tmp/c01mut && cp -r /repo/kmip /tmp/c01mut/kmip
/venv/bin/python - "$@" <<'PY'
import sys
f, old, new = sys.argv[1], sys.argv[2], sys.argv[3]
p='/tmp/c01mut/'+f; s=open(p).read(); n=s.count(old); assert n>=1, (f, old); open(p,'w').write(s.replace(old,new))
print('mutated', f, n, 'occurrence(s)')
PY
