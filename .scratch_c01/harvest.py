import warnings; warnings.filterwarnings('ignore')
import logging; logging.disable(logging.CRITICAL)
import inspect, pkgutil, importlib, unittest, re, time
import kmip.core
from kmip.core import primitives, utils, enums
t0=time.time()
import kmip.tests.unit.core as tpk
vecs=set()
ntc=0
for m in pkgutil.walk_packages(tpk.__path__, 'kmip.tests.unit.core.'):
    try: mod=importlib.import_module(m.name)
    except Exception as e: print('import fail', m.name, e); continue
    for n,c in inspect.getmembers(mod, inspect.isclass):
        if not issubclass(c, unittest.TestCase) or c.__module__!=mod.__name__: continue
        meths=[x for x in dir(c) if x.startswith('test')]
        if not meths: continue
        try:
            tc=c(meths[0]); tc.setUp(); ntc+=1
        except Exception as e:
            print('setup fail', n, e); continue
        for k,v in vars(tc).items():
            if isinstance(v, utils.BytearrayStream): vecs.add(bytes(v.buffer))
            elif isinstance(v, (bytes,bytearray)) and len(v)>=8 and v[0]==0x42: vecs.add(bytes(v))
print('testcases', ntc, 'vectors', len(vecs), 'in', time.time()-t0)
# also scan sources for b'...' literals in test methods? skip
mods=[]
for m in pkgutil.walk_packages(kmip.core.__path__, 'kmip.core.'):
    mods.append(importlib.import_module(m.name))
classes=[]
for mod in mods:
    for n,c in inspect.getmembers(mod, inspect.isclass):
        if c.__module__==mod.__name__ and issubclass(c, primitives.Struct) and c is not primitives.Struct:
            classes.append(c)
VERS=list(enums.KMIPVersion)
ok={}
for c in classes:
    try: inst=c()
    except Exception as e: print('noctor', c.__name__, e); continue
    tag=inst.tag.value
    for b in vecs:
        if int.from_bytes(b[:3],'big')!=tag: continue
        for v in VERS:
            try:
                o=c(); s=utils.BytearrayStream(b); o.read(s, kmip_version=v)
                if len(s.buffer)==0:
                    ok.setdefault(c.__name__,[]).append((v,b))
            except Exception as e: pass
print('classes', len(classes), 'with seeds', len(ok))
print('without:', sorted(c.__name__ for c in classes if c.__name__ not in ok))
print('time', time.time()-t0)
