#!/bin/sh
# MANIFEST.setup_cmd: build the framework from files on disk only (offline).
set -e
cd "$(dirname "$0")"
export PYKMIP_VERIF=1
/venv/bin/python harness/gen_tables.py /repo
/venv/bin/python harness/gen_schemas.py /repo
/venv/bin/python harness/gen_crypto_tables.py /repo
cd lean
lake build 2>&1 | tail -5
echo "setup done"
