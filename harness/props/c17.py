"""C17 — no request is evaluated before the client's identity is established."""
import collections
import glob
import itertools
import json
import os
import random
import sys

sys.path.insert(0, os.path.join(os.path.dirname(os.path.abspath(__file__)), "..", "lib"))
import gen_session as G  # noqa: E402
import impl_session as S  # noqa: E402

LEAN_MODULES = ["KmipModel.Props.C17"]
RULE = ("FULL PRODUCT of: certificate (absent; 0/1/2 common names in separate RDNs or 2 in one multi-valued RDN x extended key usage absent / serverAuth only / "
        "clientAuth / serverAuth+clientAuth) x enable_tls_client_auth on/off x plug-in configuration (none; disabled "
        "in three spellings; unsupported name; SLUGS block without url; every list of 1-3 enabled SLUGS blocks each "
        "answering ok / 404 user / 404 groups / unreachable; lists mixing disabled and unsupported blocks; odd "
        "answers: 500 on the user look-up, non-JSON body, no groups member) x a request (read-only Query on every "
        "configuration; on a rotating basis a state-changing Create, a Get, a KMIP 2.0 request, an engine-refused "
        "request, an undecodable frame); each on a real KmipSession + real KmipEngine with the engine entry wrapped. "
        "Sessions of SEVERAL requests during which the directory behind the plug-ins changes (user's groups replaced, "
        "user removed, user added, service going down / coming back, with one and two SLUGS blocks): every request of "
        "the connection must be served under the identity established for THAT request (or refused) - an identity "
        "established once is no licence for later requests.  "
        "non-trivial = every configuration; distinct = distinct (certificate, tls flag, plug-in list, request)")
ASSUMPTIONS = [
    "the TLS stack hands over either no certificate or a DER certificate the `cryptography` package can load "
    "(a blob it cannot load is answered INVALID_MESSAGE, engine not entered; outside the property's quantifier)",
    "the SLUGS services are an oracle: url x user -> replies of the two GET requests (patched requests.get)",
    "plug-in settings come from the configuration file: `enabled` and `url` are strings or absent",
]
TRUSTED = ["fake TLS connection object and generated certificates (cryptography package)",
           "table-driven stand-in for requests.get inside kmip.services.server.auth.slugs"]

ANSWERS = {"ok": None, "nouser": "nouser", "nogroups": "nogroups", "down": "down"}


def plugin_configs():
    """-> list of (label, auth_settings, services)"""
    out = [("none", [], {})]
    U = "http://slugs%d.example"
    out.append(("disabled-False", [("auth:slugs", {"enabled": "False", "url": U % 0})], {U % 0 + "/": "ok:gA"}))
    out.append(("disabled-lowercase-true", [("auth:slugs", {"enabled": "true", "url": U % 0})], {U % 0 + "/": "ok:gA"}))
    out.append(("disabled-missing", [("auth:slugs", {"url": U % 0})], {U % 0 + "/": "ok:gA"}))
    out.append(("unsupported", [("auth:ldap", {"enabled": "True", "url": U % 0})], {U % 0 + "/": "ok:gA"}))
    out.append(("unsupported-prefix", [("xauth:slugs", {"enabled": "True", "url": U % 0})], {U % 0 + "/": "ok:gA"}))
    out.append(("slugs-no-url", [("auth:slugs", {"enabled": "True"})], {}))
    out.append(("slugs-url-trailing-slash", [("auth:slugs", {"enabled": "True", "url": U % 0 + "/"})], {U % 0 + "/": "ok:gA,gB"}))
    for n in (1, 2, 3):
        for combo in itertools.product(["ok", "nouser", "nogroups", "down"], repeat=n):
            settings, services = [], {}
            for i, a in enumerate(combo):
                url = U % i
                settings.append(("auth:slugs" if i == 0 else "auth:slugs:%d" % i, {"enabled": "True", "url": url}))
                services[url + "/"] = ("ok:g%d,shared" % i) if a == "ok" else a
            out.append(("slugs:" + "+".join(combo), settings, services))
    # mixtures: disabled / unsupported blocks in front of or between enabled ones
    out.append(("disabled+ok", [("auth:slugs", {"enabled": "False", "url": U % 0}),
                                ("auth:slugs:b", {"enabled": "True", "url": U % 1})],
                {U % 0 + "/": "ok:wrong", U % 1 + "/": "ok:right"}))
    out.append(("unsupported+nouser", [("auth:other", {"enabled": "True", "url": U % 0}),
                                       ("auth:slugs", {"enabled": "True", "url": U % 1})],
                {U % 0 + "/": "ok:wrong", U % 1 + "/": "nouser"}))
    out.append(("ok+disabled", [("auth:slugs", {"enabled": "True", "url": U % 0}),
                                ("auth:slugs:b", {"enabled": "False", "url": U % 1})],
                {U % 0 + "/": "ok:first", U % 1 + "/": "ok:second"}))
    out.append(("down+unsupported+disabled", [("auth:slugs", {"enabled": "True", "url": U % 0}),
                                               ("auth:zzz", {"enabled": "True"}),
                                               ("auth:slugs:c", {"enabled": "no", "url": U % 2})],
                {U % 2 + "/": "ok:never"}))
    # odd answers
    out.append(("slugs:users500", [("auth:slugs", {"enabled": "True", "url": U % 0})], {U % 0 + "/": "users500"}))
    out.append(("slugs:badjson", [("auth:slugs", {"enabled": "True", "url": U % 0})], {U % 0 + "/": "badjson"}))
    out.append(("slugs:badjson+ok", [("auth:slugs", {"enabled": "True", "url": U % 0}),
                                     ("auth:slugs:b", {"enabled": "True", "url": U % 1})],
                {U % 0 + "/": "badjson", U % 1 + "/": "ok:second"}))
    out.append(("slugs:oknogroups", [("auth:slugs", {"enabled": "True", "url": U % 0})], {U % 0 + "/": "oknogroups"}))
    out.append(("slugs:ok-empty-groups", [("auth:slugs", {"enabled": "True", "url": U % 0})], {U % 0 + "/": "ok:"}))
    return out


def cert_shapes():
    out = [None]
    for n in (0, 1, 2, 3):          # 3 = two common names in one multi-valued RDN
        for e in S.EKU_SHAPES:
            out.append({"cns": n, "eku": e})
    return out


def requests_pool():
    q = {"op": "query", "bid": None, "crypto": None, "functions": [1, 2]}
    cr = {"op": "create", "bid": None, "crypto": None, "otype": 2, "tmpl": G.aes_template(128)}
    get = {"op": "get", "bid": None, "crypto": None, "uid": "1", "format": None, "compression": False, "wrap": None}
    loc20 = {"op": "locate", "bid": None, "crypto": None, "max": None, "offset": None, "attrs": []}
    pool = [
        ("query-1.2", G.encode_request(G.mkreq(12, [q]))),
        ("create-1.4", G.encode_request(G.mkreq(14, [cr]))),
        ("get-1.0", G.encode_request(G.mkreq(10, [get]))),
        ("locate-2.0", G.encode_request(G.mkreq(20, [loc20]))),
        ("stale-timestamp-1.2", G.encode_request(G.mkreq(12, [q], ts=1000))),       # engine raises InvalidMessage
        ("query-1.2-max-64", G.encode_request(G.mkreq(12, [q], maxsize=64))),      # replaced by Response Too Large
    ]
    bad = bytearray(pool[0][1])
    bad[40:48] = b"\xff" * 8
    pool.append(("undecodable", bytes(bad)))
    return pool


# ---------------------------------------------------------------- the property, read from its text
UNSPEC = ("<unspecified>", None)


def spec_identity(cert, tls, settings, services):
    """None = no identity may be established; else (user, groups)."""
    if cert is None:
        return None
    if tls and cert["eku"] not in ("client", "both"):
        return None
    cns = S.CN_SHAPES[cert["cns"]]
    if len(cns) != 1:
        return None
    user = cns[0]
    enabled = [(n, c) for n, c in settings if n.startswith("auth:slugs") and c.get("enabled") == "True"]
    if not enabled:
        return (user, None)
    for n, c in enabled:
        url = c.get("url")
        if url is None:
            continue
        kind = services.get(url if url.endswith("/") else url + "/", "down")
        if kind.startswith("ok:"):
            return (user, [g for g in kind[3:].split(",") if g])
        if kind == "oknogroups":
            return (user, None)
        if kind == "users500":
            # the service neither confirmed nor denied the user (500) but lists groups: the text does not say
            return UNSPEC
    return None


def run_config(rig, cfg):
    cert, tls, (label, settings, services), (rname, frame) = cfg["cert"], cfg["tls"], cfg["plugins"], cfg["request"]
    slugs = S.FakeSlugs(services)
    before = rig.digest()
    res = rig.run_session([frame], S.cert_der(cert), tls=tls, auth_settings=[(n, dict(c)) for n, c in settings],
                          slugs=slugs, digests=False)
    after = rig.digest()
    its = [it for it in res["iterations"] if it["frame"] is not None]
    o = {"res": res, "unchanged": before == after, "slugs_calls": list(slugs.calls), "its": its}
    o["calls"] = [c for it in its for c in it["calls"]]
    o["sent"] = [x for it in its for x in it["sent"]]
    o["obs"] = None
    o["decode_error"] = None
    if len(o["sent"]) == 1:
        try:
            o["obs"] = S.decode_response(o["sent"][0], rig.default_version)
        except Exception as e:
            o["decode_error"] = "%s: %s" % (type(e).__name__, e)
    return o


class PhasedSlugs(S.FakeSlugs):
    """a directory that changes between the requests of one connection: phases[k] is in force while the k-th
    frame is handled"""

    def __init__(self, phases):
        S.FakeSlugs.__init__(self, phases[0])
        self.phases = phases
        self.k = -1

    def next_frame(self):
        self.k += 1
        self.services = dict(self.phases[min(self.k, len(self.phases) - 1)])


def phased_configs():
    """-> list of (label, settings, [services per frame])"""
    U = "http://slugs%d.example"
    one = [("auth:slugs", {"enabled": "True", "url": U % 0})]
    two = one + [("auth:slugs:b", {"enabled": "True", "url": U % 1})]
    out = []
    seqs = [["ok:g1", "ok:g2"], ["ok:g1", "nouser"], ["nouser", "ok:g1"], ["ok:g1", "down", "ok:g1"], ["ok:g1,g2", "nogroups"],
            ["ok:g1", "ok:g1", "nouser", "ok:g3"], ["ok:g1", "oknogroups"], ["ok:", "ok:g1"], ["down", "down", "ok:g9"]]
    for sq in seqs:
        out.append(("phased:" + ">".join(sq), one, [{U % 0 + "/": k} for k in sq]))
    for a, b in [(["ok:g1", "nouser"], ["ok:h1", "ok:h1"]), (["down", "ok:g1"], ["ok:h1", "nouser"]),
                 (["nouser", "nouser"], ["ok:h1", "ok:h2"]), (["ok:g1", "down"], ["nouser", "nouser"])]:
        out.append(("phased2:%s|%s" % (">".join(a), ">".join(b)), two,
                    [{U % 0 + "/": x, U % 1 + "/": y} for x, y in zip(a, b)]))
    return out


def run_phased(rig, cert, tls, pc, frame):
    """one connection carrying len(phases) copies of the frame; -> one pseudo-outcome per frame (the shape
    `monitor` reads) and the per-frame configurations"""
    label, settings, phases = pc
    slugs = PhasedSlugs(phases)
    cls = S.session_mod.KmipSession
    orig = cls._receive_request

    def patched(self_):
        data = orig(self_)
        slugs.next_frame()
        return data
    cls._receive_request = patched
    before = rig.digest()
    try:
        res = rig.run_session([frame] * len(phases), S.cert_der(cert), tls=tls,
                              auth_settings=[(n, dict(c)) for n, c in settings], slugs=slugs, digests=False)
    finally:
        cls._receive_request = orig
    unchanged = rig.digest() == before
    its = [it for it in res["iterations"] if it["frame"] is not None]
    outs = []
    for k, it in enumerate(its):
        o = {"res": {"run_escaped": res["run_escaped"], "max_response_size": res["max_response_size"]}, "unchanged": unchanged,
             "slugs_calls": [], "its": [it], "calls": list(it["calls"]), "sent": list(it["sent"]), "obs": None,
             "decode_error": None}
        if len(o["sent"]) == 1:
            try:
                o["obs"] = S.decode_response(o["sent"][0], rig.default_version)
            except Exception as e:
                o["decode_error"] = "%s: %s" % (type(e).__name__, e)
        cfg = {"cert": cert, "tls": tls, "plugins": ("%s#%d" % (label, k), settings, phases[min(k, len(phases) - 1)]),
               "request": ("query-1.2", frame)}
        outs.append((cfg, o))
    return outs, len(its) == len(phases)


def monitor(rig, cfg, o, verdict):
    """the property on the implementation alone -> [(signature, what)]"""
    fails = []
    cert, tls, (label, settings, services), (rname, frame) = cfg["cert"], cfg["tls"], cfg["plugins"], cfg["request"]
    want = spec_identity(cert, tls, settings, services)
    if want is UNSPEC:
        # only the part that does not depend on the reading: what the engine receives is the certificate's user
        if o["calls"] and o["calls"][0]["identity"][0] != S.CN_SHAPES[cert["cns"]][0]:
            return [("c17:identity-passed-differs", "engine received %r" % (o["calls"][0]["identity"],))]
        return []
    tag = "cert=%s tls=%s plugins=%s request=%s" % (json.dumps(cert), tls, label, rname)
    if o["res"]["run_escaped"] or any(it["escaped"] for it in o["its"]):
        esc = o["res"]["run_escaped"] or [it["escaped"] for it in o["its"] if it["escaped"]][0]
        fails.append(("c17:exception-escaped:%s" % str(esc).split(":")[0], "%s: %s" % (tag, esc)))
        return fails
    if len(o["sent"]) != 1 or o["obs"] is None:
        fails.append(("c17:no-single-decodable-response", "%s: %d responses, %s" % (tag, len(o["sent"]), o["decode_error"])))
        return fails
    entered = len(o["calls"]) > 0
    should_enter = want is not None and verdict is not None
    if entered and want is None:
        fails.append(("c17:engine-entered-without-identity",
                      "%s: request processing entered with %r although no identity can be established"
                      % (tag, o["calls"][0]["identity"])))
    if entered and want is not None:
        got = o["calls"][0]["identity"]
        got = (got[0], None if got[1] is None else list(got[1]))
        if got != (want[0], want[1]):
            fails.append(("c17:identity-passed-differs", "%s: engine received %r, established identity is %r" % (tag, got, want)))
        if len(o["calls"]) != 1:
            fails.append(("c17:engine-entered-twice", "%s: %d calls" % (tag, len(o["calls"]))))
    if should_enter and not entered:
        fails.append(("c17:established-identity-not-served", "%s: identity %r established but the request was not processed"
                      % (tag, want)))
    if want is None:
        if not o["unchanged"]:
            fails.append(("c17:failure-changed-store", "%s: the store changed" % tag))
        # "every failure yields an authentication-not-successful response": for requests (decodable frames);
        # certificate-stage failures are answered so before decoding
        cert_stage_fails = cert is None or (tls and cert["eku"] not in ("client", "both"))
        if verdict is not None or cert_stage_fails:
            if not S.is_error(o["obs"], "AUTHENTICATION_NOT_SUCCESSFUL"):
                fails.append(("c17:failure-not-authentication-not-successful", "%s: answer was %s" % (tag, o["obs"]["items"])))
        elif not (S.is_error(o["obs"], "AUTHENTICATION_NOT_SUCCESSFUL") or S.is_error(o["obs"], "INVALID_MESSAGE")):
            fails.append(("c17:failure-answer", "%s: answer was %s" % (tag, o["obs"]["items"])))
    return fails


def model_line(rig, cfg, o, verdict):
    cert, tls, (label, settings, services), (rname, frame) = cfg["cert"], cfg["tls"], cfg["plugins"], cfg["request"]
    outs = []
    for c in o["calls"]:
        d = {k: v for k, v in c["out"].items() if k not in ("msg", "exc")}
        if d["k"] == "ok":
            d["len"] = c["len"]
        outs.append(d)
    errlen = o["obs"]["len"] if o["obs"] is not None and o["obs"]["items"] and o["obs"]["items"][0]["op"] is None else 200
    return {"cmd": "run", "tls": tls, "cert": S.cert_json(cert),
            "plugins": [{"name": n, "enabled": c.get("enabled"), "url": c.get("url")} for n, c in settings],
            "slugs": S.FakeSlugs(services).model_rows(), "handshake": True, "chunks": [frame.hex()],
            "parse": [{"frame": frame.hex(), "version": verdict}], "engine": outs, "errlen": errlen,
            "default_version": rig.default_version, "max_response_size": o["res"]["max_response_size"]}


def establish_line(cfg):
    cert, tls, (label, settings, services) = cfg["cert"], cfg["tls"], cfg["plugins"]
    return {"cmd": "establish", "tls": tls, "cert": S.cert_json(cert),
            "plugins": [{"name": n, "enabled": c.get("enabled"), "url": c.get("url")} for n, c in settings],
            "slugs": S.FakeSlugs(services).model_rows()}


def impl_event(o, frame):
    sent = None if o["obs"] is None else S.sent_obs(o["obs"])
    call = S.identity_json(o["calls"][0]["identity"]) if o["calls"] else None
    return [{"k": "handled", "frame": frame.hex(), "sent": sent, "call": call}]


def configurations(seed, tier):
    rnd = random.Random(seed * 31 + 17)
    pool = requests_pool()
    plugs = plugin_configs()
    cfgs = []
    k = rnd.randrange(len(pool))
    for cert in cert_shapes():
        for tls in (True, False):
            for p in plugs:
                reqs = [pool[0]]
                if tier == "thorough":
                    reqs = pool
                else:
                    k += 1
                    if k % 3 == 0:
                        reqs = [pool[0], pool[1 + (k // 3) % (len(pool) - 1)]]
                for r in reqs:
                    cfgs.append({"cert": cert, "tls": tls, "plugins": p, "request": r})
    return cfgs


def cfg_json(cfg):
    label, settings, services = cfg["plugins"]
    return {"cert": cfg["cert"], "tls": cfg["tls"], "plugins": {"label": label, "settings": settings, "services": services},
            "request": {"name": cfg["request"][0], "frame": cfg["request"][1].hex()}}


def cfg_from_json(j):
    p = j["plugins"]
    return {"cert": j["cert"], "tls": j["tls"],
            "plugins": (p["label"], [(n, dict(c)) for n, c in p["settings"]], dict(p["services"])),
            "request": (j["request"]["name"], bytes.fromhex(j["request"]["frame"]))}


def corpus_cfgs():
    d = os.path.join(os.path.dirname(os.path.abspath(__file__)), "..", "..", "corpus", "C17")
    return [cfg_from_json(json.load(open(p))) for p in sorted(glob.glob(os.path.join(d, "*.json")))]


def execute(ctx, cfgs, with_model=True):
    import props.c12 as c12
    rig = S.Rig()
    st = {"n": 0, "entered": 0, "established": 0, "answers": collections.Counter(), "distinct": set(),
          "slugs_requests": 0, "by_cert": collections.Counter(), "samples": []}
    lines, impls, elines, ewant = [], [], [], []
    try:
        c12.setup_base(rig)
        verdicts = {}
        for cfg in cfgs:
            frame = cfg["request"][1]
            if frame not in verdicts:
                verdicts[frame] = S.parse_verdict(frame, rig.default_version)
            o = run_config(rig, cfg)
            for sig, what in monitor(rig, cfg, o, verdicts[frame]):
                ctx.report(sig, what, {"kind": "config", "config": cfg_json(cfg)})
            st["n"] += 1
            st["entered"] += bool(o["calls"])
            want = spec_identity(cfg["cert"], cfg["tls"], cfg["plugins"][1], cfg["plugins"][2])
            st["established"] += want is not None and want is not UNSPEC
            st["slugs_requests"] += len(o["slugs_calls"])
            st["by_cert"]["absent" if cfg["cert"] is None else "%dcn/%s" % (cfg["cert"]["cns"], cfg["cert"]["eku"])] += 1
            if o["obs"] is not None:
                its = o["obs"]["items"]
                st["answers"]["empty" if not its else (("ERR:" if its[0]["op"] is None else "") + (its[0]["reason"] or its[0]["status"]))] += 1
            st["distinct"].add((json.dumps(cfg["cert"]), cfg["tls"], cfg["plugins"][0], cfg["request"][0]))
            if len(st["samples"]) < 5 and st["n"] % 397 == 1:
                st["samples"].append({"config": cfg_json(cfg), "engine_identity": [list(c["identity"]) for c in o["calls"]],
                                      "answer": None if o["obs"] is None else o["obs"]["items"]})
            if with_model and o["obs"] is not None:
                lines.append(json.dumps(model_line(rig, cfg, o, verdicts[frame])))
                impls.append((impl_event(o, frame), cfg))
                if want is not UNSPEC:
                    elines.append(json.dumps(establish_line(cfg)))
                    ewant.append((want, cfg))
        # several requests on one connection while the directory changes
        qframe = requests_pool()[0][1]
        qverdict = verdicts.get(qframe) or S.parse_verdict(qframe, rig.default_version)
        st["phased_frames"] = 0
        for cert in ({"cns": 1, "eku": "client"}, {"cns": 1, "eku": "both"}):
            for tls in (True, False):
                for pc in phased_configs():
                    outs_k, complete = run_phased(rig, cert, tls, pc, qframe)
                    if not complete:
                        ctx.report("c17:session-stopped-early", "a connection carrying %d requests (%s) answered only %d"
                                   % (len(pc[2]), pc[0], len(outs_k)),
                                   {"kind": "phased", "cert": cert, "tls": tls, "label": pc[0], "settings": pc[1], "phases": pc[2]})
                    for cfg_k, o_k in outs_k:
                        st["phased_frames"] += 1
                        st["distinct"].add((json.dumps(cert), tls, cfg_k["plugins"][0], "query-1.2"))
                        for sig, what in monitor(rig, cfg_k, o_k, qverdict):
                            ctx.report(sig, "request %s of one connection: %s" % (cfg_k["plugins"][0], what),
                                       {"kind": "phased", "cert": cert, "tls": tls, "label": pc[0],
                                        "settings": pc[1], "phases": pc[2]})
                        if with_model and o_k["obs"] is not None:
                            lines.append(json.dumps(model_line(rig, cfg_k, o_k, qverdict)))
                            impls.append((impl_event(o_k, qframe), cfg_k))
        # two clients whose certificates (different subjects, different issuers) carry the SAME serial number, one after
        # the other on the same server process: each is served under its own common name
        st["same_serial_sessions"] = 0
        for order in (("alice", "bob", "alice"), ("bob", "alice"), ("carol", "alice", "carol", "bob")):
            for user in order:
                der = S.make_cert((user,), "client", serial=424242)
                res = rig.run_session([qframe], der, tls=True, digests=False)
                st["same_serial_sessions"] += 1
                calls = [c for it in res["iterations"] if it["frame"] is not None for c in it["calls"]]
                got = calls[0]["identity"][0] if calls else None
                if got != user:
                    ctx.report("c17:identity-passed-differs:same-serial",
                               "a client whose certificate says CN=%s (serial 424242, as the certificate of another client "
                               "served before) was served as %r" % (user, got),
                               {"kind": "same-serial", "order": list(order), "user": user})
        # outside the property's quantifier (see ASSUMPTIONS), observed and counted: a certificate blob the
        # `cryptography` package cannot load.  Whatever the answer, request processing must not be entered.
        frame = cfgs[0]["request"][1] if cfgs else requests_pool()[0][1]
        before = rig.digest()
        res = rig.run_session([frame], b"\x30\x03\x02\x01\x01", tls=True, digests=False)
        its = [it for it in res["iterations"] if it["frame"] is not None]
        st["unloadable_certificate"] = {"engine_entered": any(it["calls"] for it in its),
                                        "answer": [S.decode_response(x, rig.default_version)["items"][0]["reason"]
                                                   for it in its for x in it["sent"]]}
        if any(it["calls"] for it in its) or rig.digest() != before:
            ctx.report("c17:engine-entered-with-unloadable-certificate",
                       "request processing entered although the certificate could not even be loaded",
                       {"kind": "unloadable-certificate", "frame": frame.hex()})
        divs = []
        if with_model:
            outs = ctx.run_model("Session", lines + elines)
            for (ie, cfg), out in zip(impls, outs[:len(lines)]):
                if out.startswith("bad-"):
                    divs.append({"config": cfg_json(cfg), "model": out})
                    continue
                me = c12.model_events(out)
                if me != ie:
                    divs.append({"config": cfg_json(cfg), "model": me, "impl": ie})
            # the model's `establish` against the property text read by spec_identity (independent of the code)
            for (want, cfg), out in zip(ewant, outs[len(lines):]):
                j = None if out.startswith("bad-") else json.loads(out)
                got = None if (j is None or "ok" not in j) else (j["ok"]["user"], j["ok"]["groups"])
                if j is None or got != (None if want is None else (want[0], want[1])):
                    divs.append({"config": cfg_json(cfg), "model_establish": out, "property_text": want})
        return st, divs
    finally:
        rig.close()


def shared_settings_part(ctx, st):
    """KmipServer hands EVERY session the same auth-settings list object (config.settings['auth_plugins']).  For each
    plug-in configuration: one settings object, several sessions in a row on it (different certificates, requests that
    need an identity) - the k-th session is judged exactly like a session on a fresh copy of the configuration."""
    import copy
    import props.c12 as c12
    rig = S.Rig()
    n = 0
    try:
        c12.setup_base(rig)
        pool = dict(requests_pool())
        frames = [("create-1.4", pool["create-1.4"]), ("query-1.2", pool["query-1.2"]), ("get-1.0", pool["get-1.0"])]
        certs = [{"cns": 1, "eku": "client"}, {"cns": 1, "eku": "both"}, {"cns": 2, "eku": "client"},
                 {"cns": 1, "eku": "client"}]
        verdicts = dict((f, S.parse_verdict(f, rig.default_version)) for _, f in frames)
        for label, settings, services in plugin_configs():
            shared = [(nm, dict(c)) for nm, c in settings]            # ONE object for all sessions of this server
            pristine = copy.deepcopy(shared)
            for k, cert in enumerate(certs):
                rname, frame = frames[k % len(frames)]
                cfg = {"cert": cert, "tls": True, "plugins": (label, settings, services), "request": (rname, frame)}
                slugs = S.FakeSlugs(services)
                before = rig.digest()
                res = rig.run_session([frame], S.cert_der(cert), tls=True, auth_settings=shared, slugs=slugs, digests=False)
                its = [it for it in res["iterations"] if it["frame"] is not None]
                o = {"res": res, "unchanged": before == rig.digest(), "slugs_calls": list(slugs.calls), "its": its,
                     "calls": [c for it in its for c in it["calls"]], "sent": [x for it in its for x in it["sent"]],
                     "obs": None, "decode_error": None}
                if len(o["sent"]) == 1:
                    try:
                        o["obs"] = S.decode_response(o["sent"][0], rig.default_version)
                    except Exception as e:
                        o["decode_error"] = "%s: %s" % (type(e).__name__, e)
                n += 1
                for sig, what in monitor(rig, cfg, o, verdicts[frame]):
                    ctx.report(sig + ":session-%d-on-shared-settings" % (k + 1),
                               "session %d on the server's shared auth settings: %s" % (k + 1, what),
                               {"kind": "shared-settings", "plugins": label, "session": k})
            if shared != pristine:
                st["shared_settings_modified"] = st.get("shared_settings_modified", 0) + 1
    finally:
        rig.close()
    st["shared_settings_sessions"] = n
    return n


def concurrent_sessions_case(seed):
    from props import c10
    out = []
    for sig, what in c10.session_threads_case(seed):
        out.append((sig.replace("c10:", "c17:concurrent:"), what))
    return out


def concurrent_sessions_part(ctx, st):
    """2-3 REAL KmipSession threads on one engine, ONE shared auth-settings object, a directory that answers slowly so that
    the identity establishment of the sessions overlaps (the workloads of the C10 check): every request reaches request
    processing under the identity established for ITS session - never evaluated under what another session's
    authentication left in shared state."""
    import multiprocessing
    n = 40 if ctx.tier == "quick" else 800
    seeds = [ctx.seed * 7919 + 3000 + i for i in range(n)]
    with multiprocessing.get_context("fork").Pool(6) as pool:
        res = pool.map(concurrent_sessions_case, seeds)
    for sd, fails in zip(seeds, res):
        for sig, what in fails[:2]:
            ctx.report(sig, what, {"kind": "concurrent-sessions", "seed": sd})
    st["concurrent_session_workloads"] = n
    return n


def config_file_case(args):
    """The configuration as a FILE: the plug-in blocks and the TLS client-auth switch are written as the server's
    configuration file, parsed by the real `config.py`, handed to sessions by the real `KmipServer` front end
    (`server.py` `_setup_connection_handler`).  What reaches request processing is judged by `spec_identity` (the
    property's sentence) on the configuration AS WRITTEN."""
    import server_front
    import random as _r
    k, seed = args
    rnd = _r.Random(seed)
    label, settings, services = plugin_configs()[k % len(plugin_configs())]
    tls_written = [None, "True", "False", "true", "no", "1", "0"][(k // len(plugin_configs())) % 7]
    tls = True if tls_written is None else tls_written.lower() in ("true", "1", "yes", "on")
    # how the values are WRITTEN: literally, or through a reference to another option of the same block (the INI dialect
    # of the server's configuration file has %(name)s references; [DEFAULT] options are refused as unknown server settings)
    variant = (k // (len(plugin_configs()) * 7)) % 2
    extra = ""
    extras_of_block = {}
    for name, c in settings:
        lines, more = [], {}
        for kk, vv in c.items():
            if variant == 1 and kk == "enabled" and vv == "True":
                lines.append("switch=True")
                lines.append("enabled=%(switch)s")
                more["switch"] = "True"
            elif variant == 1 and kk == "url" and str(vv).startswith("http://"):
                lines.append("scheme=http")
                lines.append("url=%(scheme)s://" + str(vv)[7:])
                more["scheme"] = "http"
            else:
                lines.append("%s=%s" % (kk, vv))
        extras_of_block[name] = more
        extra += "[%s]\n" % name + "".join(l + "\n" for l in lines)
    fails, n = [], 0
    saved = S.slugs_mod.requests
    fs = None
    try:
        fs = server_front.FrontServer(extra_conf=extra, tls_line=("" if tls_written is None else "enable_tls_client_auth=%s\n" % tls_written))
        got_plugins = fs.server.config.settings.get("auth_plugins")
        # (the plug-in blocks of a configuration file are its sections named auth:...; any other section is not one)
        want_plugins = [(nm, dict([(kk.lower(), str(vv)) for kk, vv in c.items()] + list(extras_of_block[nm].items())))
                        for nm, c in settings if nm.startswith("auth:")]
        if [(a, dict(b)) for a, b in (got_plugins or [])] != want_plugins:
            fails.append(("c17:config-plugins-differ-from-file", "the file defines %r, the server holds %r" % (want_plugins, got_plugins)))
        if fs.server.config.settings.get("enable_tls_client_auth") is not tls:
            fails.append(("c17:config-tls-switch-differs-from-file", "enable_tls_client_auth written %r, the server holds %r"
                          % (tls_written, fs.server.config.settings.get("enable_tls_client_auth"))))
        calls = []
        orig = fs.server._engine.process_request

        def rec(request, credential=None):
            calls.append(credential)
            return orig(request, credential)
        fs.server._engine.process_request = rec
        S.slugs_mod.requests = S._RequestsShim(S.FakeSlugs(services))
        certs = [c for c in cert_shapes() if c is None or c["cns"] in (1, 2)]
        for cert in rnd.sample(certs, 6) + [{"cns": 1, "eku": "client"}, {"cns": 1, "eku": "absent"}]:
            rname, frame = rnd.choice(requests_pool()[:4])
            del calls[:]
            conn = fs.serve([frame], S.cert_der(cert))
            n += 1
            want = spec_identity(cert, tls, settings, services)
            tag = "config file [enable_tls_client_auth=%s; %s] cert=%s request=%s" % (tls_written, label, json.dumps(cert), rname)
            if want == UNSPEC:
                continue
            if calls and want is None:
                fails.append(("c17:engine-entered-without-identity", "%s: request processing entered with %r although no "
                              "identity can be established" % (tag, calls[0])))
            elif calls and want is not None:
                got = (calls[0][0], None if calls[0][1] is None else list(calls[0][1]))
                if got != (want[0], want[1]):
                    fails.append(("c17:identity-passed-differs", "%s: engine received %r, established identity is %r" % (tag, got, want)))
            elif not calls and want is not None:
                fails.append(("c17:established-identity-not-served", "%s: identity %r established but the request was not processed" % (tag, want)))
            if len(conn.out) != 1:
                fails.append(("c17:no-single-decodable-response", "%s: %d responses" % (tag, len(conn.out))))
    except Exception as e:
        import traceback
        fails.append(("c17:config-file-rejected", "a configuration file with [enable_tls_client_auth=%s; %s] could not be served: %s: %s %s"
                      % (tls_written, label, type(e).__name__, str(e)[:200], traceback.format_exc()[-300:])))
    finally:
        S.slugs_mod.requests = saved
        if fs is not None:
            try:
                fs.close()
            except Exception:
                pass
    return fails, n


def config_file_part(ctx, st):
    import multiprocessing
    nconf = len(plugin_configs())
    ks = list(range(nconf * 14)) if ctx.tier != "quick" else \
        [(ctx.seed * 5 + 3 * i) % (nconf * 7) for i in range(nconf)] + list(range(0, nconf * 7, nconf)) + \
        [nconf * 7 + i for i in range(nconf)]
    args = [(k, ctx.seed * 41 + k) for k in sorted(set(ks))]
    with multiprocessing.get_context("fork").Pool(8) as pool:
        res = pool.map(config_file_case, args)
    n = 0
    for a, (fails, k) in zip(args, res):
        n += k
        for sig, what in fails[:3]:
            ctx.report(sig, what, {"kind": "config-file", "args": list(a)})
    ctx.coverage["config_file_configurations"] = len(args)
    ctx.coverage["config_file_sessions"] = n
    return n


def run(ctx):
    cfgs = corpus_cfgs() + configurations(ctx.seed, ctx.tier)
    st, divs = execute(ctx, cfgs)
    nshared = shared_settings_part(ctx, st) + concurrent_sessions_part(ctx, st)
    nshared += config_file_part(ctx, st)
    ctx.coverage.update({
        "sessions_on_one_shared_settings_object": nshared,
        "shared_settings_objects_modified_by_sessions": st.get("shared_settings_modified", 0),
        "evaluations": st["n"] + (st.get("phased_frames") or 0) + nshared, "distinct_nontrivial": len(st["distinct"]), "rule": RULE, "samples": st["samples"],
        "configurations": st["n"], "plugin_configurations": len(plugin_configs()), "certificate_shapes": len(cert_shapes()),
        "identity_established": st["established"], "engine_entered": st["entered"], "answers": dict(st["answers"]),
        "by_certificate": dict(st["by_cert"]), "slugs_http_requests": st["slugs_requests"],
        "traces_validated_against_impl": st["n"], "model_divergences": len(divs), "full_product": True,
        "unloadable_certificate_observation": st.get("unloadable_certificate"),
        "requests_on_connections_with_changing_directory": st.get("phased_frames"),
        "sessions_with_same_serial_certificates": st.get("same_serial_sessions"),
    })
    if divs:
        n0 = len(ctx.violations)
        search(ctx, ["correspondence"])
        if len(ctx.violations) == n0:
            ctx.report("correspondence:session-auth-model", "session model and KmipSession disagree on %d configurations" % len(divs),
                       {"kind": "correspondence", "broken": "correspondence Drivers/Session.lean vs KmipSession.authenticate",
                        "divergence": divs[0]}, no_input=True)


def search(ctx, broken):
    """the complete product with every request of the pool, implementation monitors only"""
    st, _ = execute(ctx, configurations(ctx.seed + 1, "thorough"), with_model=False)
    ctx.coverage["search_configurations"] = st["n"]


def replay(ctx, rep):
    r = rep["replay"]
    if r.get("kind") == "config-file":
        fails, _n = config_file_case(tuple(r["args"]))
        for sig, what in fails:
            print("  %s: %s" % (sig, what[:400]))
        return not fails
    if r.get("kind") == "phased":
        import props.c12 as c12
        rig = S.Rig()
        try:
            c12.setup_base(rig)
            qframe = requests_pool()[0][1]
            pc = (r["label"], [(n, dict(c)) for n, c in r["settings"]], [dict(p) for p in r["phases"]])
            outs_k, complete = run_phased(rig, r["cert"], r["tls"], pc, qframe)
            bad = not complete
            for cfg_k, o_k in outs_k:
                for sig, what in monitor(rig, cfg_k, o_k, S.parse_verdict(qframe, rig.default_version)):
                    print("  %s: %s" % (sig, what))
                    bad = True
            return not bad
        finally:
            rig.close()
    if r.get("kind") == "concurrent-sessions":
        bad = 0
        for _ in range(10):
            bad += 1 if concurrent_sessions_case(r["seed"]) else 0
        print("  runs (of 10) in which a request was processed under another session's identity: %d" % bad)
        return bad == 0
    if r.get("kind") == "shared-settings":
        class _C(object):
            def __init__(self):
                self.bad = []

            def report(self, sig, what, rp, no_input=False):
                if rp.get("plugins") == r["plugins"]:
                    print("  %s: %s" % (sig, what))
                    self.bad.append(sig)
        c = _C()
        shared_settings_part(c, {})
        return not c.bad
    if r.get("kind") != "config":
        print("replay: nothing executable in this file (%s)" % r.get("kind"))
        return True
    import props.c12 as c12
    rig = S.Rig()
    try:
        c12.setup_base(rig)
        cfg = cfg_from_json(r["config"])
        o = run_config(rig, cfg)
        fails = monitor(rig, cfg, o, S.parse_verdict(cfg["request"][1], rig.default_version))
        for sig, what in fails:
            print("  %s: %s" % (sig, what))
        return not fails
    finally:
        rig.close()
