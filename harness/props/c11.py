"""C11 — request isolation: every probe is answered as on a fresh engine over a copy of the database."""
import json
import os
import shutil
import sys

sys.path.insert(0, os.path.join(os.path.dirname(os.path.abspath(__file__)), "..", "lib"))
import engine_check  # noqa: E402
import diff_engine  # noqa: E402

LEAN_MODULES = ["KmipModel.Props.C11", "KmipModel.Props.ServerRun"]
RULE = ("pairs (prefix history by several clients, probe request): the probe is sent to the live engine and to a "
        "fresh KmipEngine opened on a copy of the database file taken just before; responses and resulting stores must "
        "be equal; probes are biased to identifier-less requests for the 14 handlers that read the ID placeholder and "
        "to protocol-version / identity switches, incl. unsupported versions and a request repeating the previous "
        "request's version; non-trivial = the probe names no identifier, or follows a request "
        "with another version or identity.  Session level: on a real KmipSession over one connection, a prefix of "
        "frames (requests with a Maximum Response Size, other versions, batch options, state-changing requests, "
        "refused versions, undecodable frames) and then a read-only probe frame; the probe's answer (version, items, "
        "status / reason / message, length) must equal the answer a fresh KmipEngine + fresh session on a copy of the "
        "database give to the probe alone")
PROFILE = {"groups": 0.15, "restart": 0.0, "revoke_date": 0.3, "header_extras": 0.1}
PLACEHOLDER_OPS = ["get", "getAttributes", "getAttributeList", "activate", "revoke", "destroy", "encrypt", "decrypt",
                   "sign", "signatureVerify", "mac", "setAttribute", "modifyAttribute", "deleteAttribute"]


def probe_monitor(h, outs):
    fails = []
    for i, (j, o) in enumerate(zip(h, outs)):
        if j.get("cmd") == "req" and isinstance(o, dict) and "_fresh" in o:
            live = diff_engine.obs_out({k: v for k, v in o.items() if not k.startswith("_")})
            fresh = diff_engine.obs_out(o["_fresh"])
            if live != fresh:
                fails.append(("c11:probe-differs-from-fresh-engine",
                              "live engine answered %s, a fresh engine on the same database %s"
                              % (str(live)[:200], str(fresh)[:200]), i))
            elif o.get("_fresh_dump") is not None and o.get("_live_dump") is not None \
                    and o["_fresh_dump"].get("objs") != o["_live_dump"].get("objs"):
                fails.append(("c11:probe-store-differs", "stores differ after the probe", i))
    return fails


MONITORS = [probe_monitor]


def builder(g, E, do, length):
    last = None
    for k in range(length):
        line = g.line()
        if g.p(0.45):
            # turn into an identifier-less probe for a placeholder-reading handler
            op = g.ch(PLACEHOLDER_OPS)
            v = g.ch([12, 13, 14, 20])
            it = g.item(op=op, version=v)
            it["uid"] = None
            it["bid"] = None
            line["req"] = {"version": v, "ts": None, "async": None, "bopt": None, "maxsize": None, "items": [it]}
            if g.p(0.5):
                line["id"] = g.ident()
        # protocol versions the server refuses, and a request repeating the version of the request before it
        # (whatever the refused request left behind must not decide the next one)
        x = g.r.random()
        if x < 0.07:
            line["req"]["version"] = g.ch([9, 15, 21, 30, 99])
        elif x < 0.30 and last is not None:
            line["req"]["version"] = last
        last = line["req"]["version"]
        probed(E, do, line)


def probed(E, do, line):
    """serve `line` on the live engine AND on a fresh engine opened on a copy of the database taken just before"""
    import impl_engine
    # fresh engine on a copy of the database, taken before the live engine sees the probe
    E.engine._data_store.dispose()
    copy = E.db + ".probe"
    shutil.copyfile(E.db, copy)
    o = do(line)
    live_dump = E.dump()
    F = impl_engine.ImplEngine(scripted_crypto=True)
    try:
        shutil.copyfile(copy, F.db)
        F.policies = E.policies
        F.restart()
        F.engine._operation_policies = E.policies
        fresh = F.request(line["now"], line["id"], copy_req(line["req"]))
        fresh_dump = F.dump()
    finally:
        F.close()
        os.remove(copy)
    if isinstance(o, dict):
        o["_fresh"] = fresh
        o["_fresh_dump"] = fresh_dump
        o["_live_dump"] = live_dump
    do({"cmd": "dump"})
    return o


def copy_req(req):
    import copy as _c
    return _c.deepcopy(req)


def wrapped_builder(g, E, do, length):
    """what ONE client's request makes of an object in the server's memory must not show in the next request: a key is
    read plainly, read WRAPPED (a successful Get with a key wrapping specification), and read plainly again - by its
    owner and by another client -, every request probed against a fresh engine on the same database"""
    from gen_engine import hexof
    from scen_engine import _A, _req, _uid
    r = g.r
    ver = g.ch([12, 13, 14, 14])

    def key(mask, nbytes, name):
        attrs = [_A("Cryptographic Algorithm", "enum", 3), _A("Cryptographic Length", "int", nbytes * 8),
                 _A("Cryptographic Usage Mask", "int", mask), _A("Name", "name", name, 0, t=1)]
        return _uid(do(_req(g, [{"op": "create", "otype": 2, "tmpl": {"tnames": 0, "attrs": attrs},
                                 "crypto": {"k": "ok", "t": hexof(nbytes, rnd=r)}}], ver)))
    W = key(0x10 | 0x20 | 4 | 8, 16, "wrapper%d" % r.randrange(1000))
    K = key(12, 16, "plain%d" % r.randrange(1000))
    K2 = key(12, 32, "other%d" % r.randrange(1000))
    if W is None or K is None:
        return
    do(_req(g, [{"op": "activate", "uid": W}], ver))
    plain = lambda u: {"op": "get", "uid": u, "format": None, "compression": False, "wrap": None}
    wrapped = lambda u: {"op": "get", "uid": u, "format": None, "compression": False,
                         "wrap": {"method": 1, "enckey": W, "encparams": True, "mackey": False, "attrnames": 0, "encoding": 1},
                         "crypto": {"k": "ok", "t": hexof(24, rnd=r)}}
    seq = [plain(K), wrapped(K), plain(K), {"op": "getAttributes", "uid": K, "names": []}, wrapped(K), plain(K),
           plain(K2), wrapped(K2), plain(K2)]
    for k, it in enumerate(seq[:max(4, length)]):
        line = _req(g, [dict(it)], ver, user="alice" if (k % 5) != 4 else "bob")
        probed(E, do, line)


def nontrivial(j, o):
    if "results" not in o:
        return False
    return any(it.get("uid") is None and it["op"] in PLACEHOLDER_OPS for it in j["req"]["items"])


def session_case(rnd, G, S):
    """-> (prefix frames, probe frame, description)"""
    v = rnd.choice([10, 11, 12, 13, 14, 20])
    q = {"op": "query", "bid": None, "crypto": None, "functions": [1, 2, 3]}
    reads = [q,
             {"op": "locate", "bid": None, "crypto": None, "max": None, "offset": None, "attrs": []},
             {"op": "get", "bid": None, "crypto": None, "uid": "1", "format": None, "compression": False, "wrap": None},
             {"op": "get", "bid": None, "crypto": None, "uid": None, "format": None, "compression": False, "wrap": None},
             {"op": "getAttributes", "bid": None, "crypto": None, "uid": "1", "names": []},
             {"op": "getAttributes", "bid": None, "crypto": None, "uid": None, "names": []},
             {"op": "getAttributeList", "bid": None, "crypto": None, "uid": "2"}]
    if v >= 11:
        reads.append({"op": "discoverVersions", "bid": None, "crypto": None, "versions": []})
    prefix, desc = [], []
    for _ in range(rnd.choice([1, 1, 2, 3])):
        k = rnd.choice(["maxsize", "maxsize", "create", "version", "garbage", "refused", "batch", "read"])
        pv = rnd.choice([10, 12, 13, 14, 20])
        if k == "maxsize":
            prefix.append(G.encode_request(G.mkreq(pv, [dict(rnd.choice(reads[:3]))], maxsize=rnd.choice([0, 64, 256, 300, 2000]))))
        elif k == "create":
            prefix.append(G.encode_request(G.mkreq(pv, [{"op": "create", "bid": None, "crypto": None, "otype": 2,
                                                         "tmpl": G.aes_template(256)}])))
        elif k == "version":
            prefix.append(G.encode_request(G.mkreq(pv, [dict(q)])))
        elif k == "garbage":
            b = bytearray(G.encode_request(G.mkreq(pv, [dict(q)])))
            b[40:48] = b"\xff" * 8
            prefix.append(bytes(b))
        elif k == "refused":
            prefix.append(G.encode_request(G.mkreq(rnd.choice([9, 15, 21, 30]), [dict(q)])))
        elif k == "batch":
            r = G.mkreq(pv, [dict(reads[2], bid="a"), dict(reads[1], bid="b")])
            r["bopt"] = rnd.choice([1, 2])
            prefix.append(G.encode_request(r))
        else:
            prefix.append(G.encode_request(G.mkreq(pv, [dict(rnd.choice(reads[:3]))])))
        desc.append("%s@%d" % (k, pv))
    probe_item = dict(rnd.choice(reads))
    if rnd.random() < 0.3:
        pr = G.mkreq(v, [dict(probe_item, bid="p0"), dict(rnd.choice(reads), bid="p1")])
    else:
        pr = G.mkreq(v, [probe_item])
    return prefix, G.encode_request(pr), desc + ["probe:%s@%d" % (probe_item["op"], v)]


def session_part(ctx):
    import random
    import gen_session as G
    import impl_session as S
    import props.c12 as c12
    n = 60 if ctx.tier == "quick" else 1200
    A = S.Rig()
    distinct = set()
    try:
        base = c12.setup_base(A)
        for i in range(n):
            rnd = random.Random(ctx.seed * 7919 + 31 * i + 5)
            prefix, probe, desc = session_case(rnd, G, S)
            A.restore(base)
            other_client = (i % 4 == 3)
            if other_client:
                # the prefix comes from ANOTHER client (own connection) whose certificate has a different subject
                # and, as certificates of different issuers may, the same serial number as the prober's
                desc = ["other-client(same certificate serial)"] + desc
                cert_p = S.make_cert(("carol",), "client", serial=515000 + i)
                cert_q = S.make_cert(("alice",), "client", serial=515000 + i)
                prefix = [G.encode_request(G.mkreq(12, [{"op": "query", "bid": None, "crypto": None,
                                                         "functions": [1]}]))] + prefix
                resP = A.run_session([b"".join(prefix)], cert_p, digests=False)
                resQ = A.run_session([probe], cert_q, digests=False)
                resA = {"out": list(resP["out"]) + list(resQ["out"])}
            else:
                cert_q = S.make_cert()
                resA = A.run_session([b"".join(prefix + [probe])], cert_q, digests=False)
            snap = A.snapshot()
            B = S.Rig()
            try:
                B.restore(snap)
                # the fresh side uses a certificate of the same subject with a serial number nobody used before: the
                # established identity is the same by the property, and no process-wide state can know it
                cert_f = cert_q if not other_client else S.make_cert(("alice",), "client", serial=600000 + i)
                resB = B.run_session([probe], cert_f, digests=False)
            finally:
                B.close()
            rep = {"kind": "session-probe", "prefix": [f.hex() for f in prefix], "probe": probe.hex(), "what": desc,
                   "other_client": other_client}
            if len(resA["out"]) != len(prefix) + 1 or len(resB["out"]) != 1:
                ctx.report("c11:session-answers-missing", "%s: %d answers for %d frames (fresh: %d)"
                           % (desc, len(resA["out"]), len(prefix) + 1, len(resB["out"])), rep)
                continue
            try:
                a = S.decode_response(resA["out"][-1], A.default_version)
                b = S.decode_response(resB["out"][0], A.default_version)
            except Exception as e:
                ctx.report("c11:session-answer-undecodable", "%s: %s" % (desc, e), rep)
                continue
            distinct.add(tuple(desc))
            if a != b:
                ctx.report("c11:session-probe-differs-from-fresh-session",
                           "%s: on the used connection the probe was answered %s, on a fresh engine and connection %s"
                           % (desc, str(a)[:250], str(b)[:250]), rep)
    finally:
        A.close()
    ctx.coverage["evaluations"] = ctx.coverage.get("evaluations", 0) + n
    ctx.coverage["distinct_nontrivial"] = ctx.coverage.get("distinct_nontrivial", 0) + len(distinct)
    ctx.coverage["session_probe_pairs"] = n


def run(ctx):
    engine_check.standard_run(ctx, PROFILE, MONITORS, nontrivial, RULE, n_quick=96, n_thorough=1500, length=25,
                              builder="props.c11.builder")
    engine_check.scenario_run(ctx, "props.c11.wrapped_builder", MONITORS, lambda j, o: True, RULE, 12, 200, 9,
                              "plain_wrapped_plain_part", seed_base=850000)
    real_crypto_part(ctx)
    session_part(ctx)
    decode_ahead_part(ctx)
    changing_directory_part(ctx)
    # M17: connections one after the other on one store, byte for byte against the composed model, and the
    # fresh-server probe at the connection level
    import e2e_hook
    e2e_hook.run(ctx, ["c11"])


def decode_ahead_case(seed):
    """Two sessions decode their requests OUTSIDE the engine lock (session.py), so `decode A, decode B, process A,
    process B` is an ordinary schedule of two connections.  The request a session decoded is its own: what another
    connection decodes in between changes nothing about it.  Two real engines on the same generated history; on the
    first every pair of requests (often the same operation with different parameters) is decoded ahead, both, before
    either is processed; on the second each is decoded when its turn comes: answers and stores must be equal.
    Implementation against implementation, through the real encoder and decoder."""
    import gen_engine
    import impl_engine
    import diff_engine
    g = gen_engine.Gen(seed, dict(PROFILE, no_internal_script=True, restart=0.0))
    E1, E2 = impl_engine.ImplEngine(), impl_engine.ImplEngine()
    fails, pairs, same_op = [], 0, 0
    try:
        def both(line):
            try:
                o1 = E1.handle(json.loads(json.dumps(line)))
                o2 = E2.handle(json.loads(json.dumps(line)))
            except impl_engine.BuildRefused:
                return None
            g.observe(line, o2)
            return o2
        for _ in range(g.ch([6, 8, 10])):
            both(g.line(ops=[g.ch(["create", "create", "register", "createKeyPair", "activate"])], nitems=1))
        for _ in range(g.ch([5, 6, 8])):
            la = g.line(version=g.ch([10, 11, 12, 13, 14]))
            ops_a = [it["op"] for it in la["req"]["items"]]
            if g.p(0.6):
                nb = len(ops_a) if g.p(0.5) else 1
                lb = g.line(ops=ops_a[:nb], nitems=nb, version=la["req"]["version"])
                if g.p(0.5):
                    lb["id"] = la["id"]
            else:
                lb = g.line(version=g.ch([10, 11, 12, 13, 14]))
            mA, mB = E1.decode_wire(la["req"]), E1.decode_wire(lb["req"])
            if mA is None or mB is None:
                both(la)
                both(lb)
                continue
            pairs += 1
            same_op += 1 if ops_a[0] == lb["req"]["items"][0]["op"] else 0
            outs1, outs2 = [], []
            for ln, m in ((la, mA), (lb, mB)):
                E1._use_msg = m
                outs1.append(E1.handle(json.loads(json.dumps(ln))))
            for ln in (la, lb):
                E2._use_msg = E2.decode_wire(ln["req"])
                o = E2.handle(json.loads(json.dumps(ln)))
                outs2.append(o)
                g.observe(ln, o)
            for who, ln, a, b in (("first", la, outs1[0], outs2[0]), ("second", lb, outs1[1], outs2[1])):
                if diff_engine.obs_out(a) != diff_engine.obs_out(b):
                    fails.append(("c11:outcome-depends-on-request-decoded-meanwhile:%s" % ln["req"]["items"][0]["op"],
                                  "the %s of two requests [%s | %s]: decoded when its turn comes it is answered %s; with both "
                                  "decoded before either is processed, %s"
                                  % (who, json.dumps(la["req"]["items"])[:300], json.dumps(lb["req"]["items"])[:300],
                                     json.dumps(diff_engine.obs_out(b))[:200], json.dumps(diff_engine.obs_out(a))[:200])))
            d1, d2 = E1.dump(), E2.dump()
            if not fails and d1.get("objs") != d2.get("objs"):
                fails.append(("c11:store-depends-on-request-decoded-meanwhile:%s" % ops_a[0],
                              "after [%s | %s] the stores differ between 'both decoded ahead' and 'each decoded in turn'"
                              % (json.dumps(la["req"]["items"])[:300], json.dumps(lb["req"]["items"])[:300])))
            if fails:
                break
    finally:
        E1.close()
        E2.close()
    return fails, pairs, same_op


def decode_ahead_part(ctx):
    import multiprocessing
    n = 60 if ctx.tier == "quick" else 1500
    seeds = [ctx.seed * 7103 + 42000 + i for i in range(n)]
    with multiprocessing.get_context("fork").Pool(12) as pool:
        res = pool.map(decode_ahead_case, seeds)
    pairs = same = 0
    for sd, (fails, k, so) in zip(seeds, res):
        pairs += k
        same += so
        for sig, what in fails[:1]:
            ctx.report(sig, what, {"kind": "decode-ahead", "seed": sd})
    ctx.coverage["decode_ahead_pairs"] = pairs
    ctx.coverage["decode_ahead_pairs_same_operation"] = same
    ctx.coverage["evaluations"] = ctx.coverage.get("evaluations", 0) + 2 * pairs


def changing_directory_case(seed):
    """The SLUGS plug-in is on, a policy grants Get through a GROUP section, and the directory's answer for the user
    CHANGES between the requests of one connection (group removed, user gone, service down, group given): every answer
    on the used connection equals the answer the same request gets on a FRESH connection with the directory as it is
    at that moment - the identity (user and groups) is established per request; nothing of an earlier request's
    identity carries over.  Real KmipSession + engine; implementation against implementation."""
    import random
    import impl_session as S
    import gen_session as G
    import props.c17 as c17
    from kmip.core import enums
    rnd = random.Random(seed)
    rig = S.Rig()
    fails, n = [], 0
    try:
        E = enums
        grant = {E.ObjectType.SYMMETRIC_KEY: {E.Operation.GET: E.Policy.ALLOW_ALL, E.Operation.GET_ATTRIBUTES: E.Policy.ALLOW_ALL,
                                               E.Operation.LOCATE: E.Policy.ALLOW_ALL, E.Operation.ACTIVATE: E.Policy.ALLOW_ALL}}
        rig.engine._operation_policies["audited"] = {"groups": {"g1": grant, "g9": grant}}
        U = "http://slugs0.example"
        settings = [("auth:slugs", {"enabled": "True", "url": U})]
        tmpl = G.aes_template(128)
        tmpl["attrs"].append({"name": "Operation Policy Name", "index": None, "value": {"k": "text", "v": "audited"}})
        mk = G.encode_request(G.mkreq(12, [{"op": "create", "bid": None, "crypto": None, "otype": 2, "tmpl": tmpl}]))
        r0 = rig.run_session([mk], S.make_cert(("bob",), "client"), auth_settings=[(a, dict(b)) for a, b in settings],
                             slugs=S.FakeSlugs({U + "/": "ok:owners"}), digests=False)
        snap = rig.snapshot()
        item = rnd.choice([{"op": "get", "bid": None, "crypto": None, "uid": "1", "format": None, "compression": False, "wrap": None},
                           {"op": "getAttributes", "bid": None, "crypto": None, "uid": "1", "names": []},
                           {"op": "locate", "bid": None, "crypto": None, "max": None, "offset": None, "attrs": []}])
        frame = G.encode_request(G.mkreq(rnd.choice([10, 12, 14]), [item]))
        seqs = [["ok:g1", "ok:g2"], ["ok:g1", "nouser"], ["nouser", "ok:g1"], ["ok:g1", "down", "ok:g1"], ["ok:g2", "ok:g1", "ok:"],
                ["ok:g1", "ok:g1", "nouser", "ok:g9"], ["ok:g1", "oknogroups"], ["ok:", "ok:g1"], ["down", "ok:g9", "ok:g2"]]
        sq = seqs[seed % len(seqs)]
        phases = [{U + "/": k} for k in sq]
        rig.restore(snap)
        outs, complete = c17.run_phased(rig, {"cns": 1, "eku": "client"}, True, ("changing", settings, phases), frame)
        used = []
        for cfg, o in outs:
            used.append(None if o["obs"] is None else [(i["status"], i["reason"]) for i in o["obs"]["items"]])
        for k, ph in enumerate(phases[:len(used)]):
            rig.restore(snap)
            rf = rig.run_session([frame], S.cert_der({"cns": 1, "eku": "client"}), auth_settings=[(a, dict(b)) for a, b in settings],
                                 slugs=S.FakeSlugs(ph), digests=False)
            try:
                fresh = [(i["status"], i["reason"]) for i in S.decode_response(rf["out"][0], rig.default_version)["items"]]
            except Exception:
                fresh = None
            n += 1
            if used[k] != fresh:
                fails.append(("c11:used-connection-answers-differently:%s" % item["op"],
                              "directory answers %s for alice over the requests of one connection; request %d (%s, directory now %r) is "
                              "answered %s on the used connection and %s on a fresh one" % (sq, k, item["op"], sq[k], used[k], fresh)))
                break
    finally:
        rig.close()
    return fails, n


def changing_directory_part(ctx, prefix="c11"):
    import multiprocessing
    n = 18 if ctx.tier == "quick" else 300
    seeds = [ctx.seed * 8191 + 64000 + i for i in range(n)]
    with multiprocessing.get_context("fork").Pool(9) as pool:
        res = pool.map(changing_directory_case, seeds)
    tot = 0
    for sd, (fails, k) in zip(seeds, res):
        tot += k
        for sig, what in fails:
            ctx.report(sig.replace("c11:", prefix + ":", 1), what, {"kind": "changing-directory", "seed": sd})
    ctx.coverage["changing_directory_requests"] = tot
    ctx.coverage["evaluations"] = ctx.coverage.get("evaluations", 0) + tot


def real_crypto_case(seed):
    """ONE server with the REAL cryptography engine: keys of several algorithms; requests that the backend refuses
    (algorithm / mode pairs it does not support, bad parameters) interleaved with ordinary ones; every ordinary request
    is also sent to a fresh server on a copy of the database: what a refused request left in the living process must
    not decide the next one."""
    import copy
    import random
    import impl_engine
    r = random.Random(seed)
    E = impl_engine.ImplEngine(scripted_crypto=False)
    fails = []
    n = 0

    def line(items, user="alice", v=14):
        return {"cmd": "req", "now": 1000, "id": {"user": user, "groups": None},
                "req": {"version": v, "ts": None, "async": None, "bopt": None, "maxsize": None, "items": items}}

    def attr(nm, v):
        return {"name": nm, "index": None, "value": v}
    try:
        keys = {}
        for alg, nbytes in ((3, 16), (2, 24), (17, 16), (16, 16), (18, 16)):      # AES 3DES Camellia Blowfish CAST5
            val = bytes(r.randrange(256) for _ in range(nbytes))
            o = E.handle(line([{"op": "register", "bid": None, "crypto": None, "otype": 2,
                                "tmpl": {"tnames": 0, "attrs": [attr("Cryptographic Usage Mask", {"k": "int", "v": 12})]},
                                "obj": {"otype": 2, "value": val.hex(), "alg": alg, "len": nbytes * 8, "format": 1, "subtype": None}}]))
            try:
                u = o["results"][0]["data"]["uid"]
            except Exception:
                continue
            E.handle(line([{"op": "activate", "bid": None, "crypto": None, "uid": u}]))
            keys[alg] = u
        bs = {3: 16, 2: 8, 17: 16, 16: 8, 18: 8}

        def enc(alg, mode, pad, ivlen=None, op="encrypt", taglen=None):
            return {"op": op, "bid": None, "crypto": None, "uid": keys[alg], "params": True,
                    "cp": {"mode": mode, "padding": pad, "alg": alg, "taglen": taglen},
                    "data_hex": "11" * 32, "iv_hex": "22" * (ivlen if ivlen is not None else bs[alg])}

        def create(alg, bits):
            return {"op": "create", "bid": None, "crypto": None, "otype": 2, "tmpl": {"tnames": 0, "attrs": [
                attr("Cryptographic Algorithm", {"k": "enum", "v": alg}), attr("Cryptographic Length", {"k": "int", "v": bits}),
                attr("Cryptographic Usage Mask", {"k": "int", "v": 12})]}}
        for _ in range(10):
            alg = r.choice(sorted(keys))
            odd = r.choice([enc(alg, 6, None), enc(alg, 9, None, ivlen=12, taglen=16), enc(alg, 13, None), enc(alg, 1, 1),
                            enc(alg, 1, 3, ivlen=3), enc(alg, 2, None), enc(alg, 6, None, op="decrypt")])
            E.handle(line([odd], user=r.choice(["alice", "mallory"])))
            for probe in (enc(alg, 1, 3), create(alg, bs[alg] * 16 if alg != 2 else 192), enc(alg, 1, 3, op="decrypt")):
                E.engine._data_store.dispose()
                cp_path = E.db + ".probe"
                shutil.copyfile(E.db, cp_path)
                live = E.handle(line([copy.deepcopy(probe)]))
                F = impl_engine.ImplEngine(scripted_crypto=False)
                try:
                    shutil.copyfile(cp_path, F.db)
                    F.restart()
                    fresh = F.handle(line([copy.deepcopy(probe)]))
                finally:
                    F.close()
                    os.remove(cp_path)
                n += 1

                def view(o):
                    rs = (o or {}).get("results") or [{}]
                    x = rs[0]
                    d = x.get("data") or {}
                    return (x.get("status"), x.get("reason"), d.get("c") if probe["op"] != "create" else None)
                if view(live) != view(fresh):
                    fails.append(("c11:living-server-differs-from-fresh:%s" % probe["op"],
                                  "after the request %s the living server answers %s of algorithm %d with %s, a fresh server "
                                  "on the same database with %s" % ({k: odd[k] for k in ("op", "cp")}, probe["op"], alg,
                                                                   view(live)[:2], view(fresh)[:2])))
                    break
            if fails:
                break
    finally:
        E.close()
    return fails, n


def real_crypto_part(ctx):
    import multiprocessing
    k = 8 if ctx.tier == "quick" else 120
    seeds = [ctx.seed * 3571 + 2200 + i for i in range(k)]
    with multiprocessing.get_context("fork").Pool(8) as pool:
        res = pool.map(real_crypto_case, seeds)
    tot = 0
    for sd, (fails, n) in zip(seeds, res):
        tot += n
        for sig, what in fails:
            ctx.report(sig, what, {"kind": "real-crypto", "seed": sd})
    ctx.coverage["real_backend_probes"] = tot
    ctx.coverage["evaluations"] = ctx.coverage.get("evaluations", 0) + tot


def search(ctx, broken):
    engine_check.standard_search(ctx, PROFILE, MONITORS, 25, builder="props.c11.builder")


def replay(ctx, rep):
    # replays are histories; re-run with probes on every line
    r = rep.get("replay", rep)
    if r.get("kind") == "server-e2e":
        import e2e_hook
        return e2e_hook.replay(ctx, rep)
    if r.get("kind") == "changing-directory":
        fails, _k = changing_directory_case(r["seed"])
        for sig, what in fails:
            print("  %s: %s" % (sig, what[:600]))
        return not fails
    if r.get("kind") == "decode-ahead":
        fails, _k, _s = decode_ahead_case(r["seed"])
        for sig, what in fails:
            print("  %s: %s" % (sig, what[:600]))
        return not fails
    if r.get("kind") == "real-crypto":
        fails, _n = real_crypto_case(r["seed"])
        for sig, what in fails:
            print("  %s: %s" % (sig, what))
        return not fails
    if r.get("kind") == "session-probe":
        import impl_session as S
        import props.c12 as c12
        A = S.Rig()
        try:
            c12.setup_base(A)
            prefix, probe = [bytes.fromhex(x) for x in r["prefix"]], bytes.fromhex(r["probe"])
            resA = A.run_session([b"".join(prefix + [probe])], S.make_cert(), digests=False)
            snap = A.snapshot()
            B = S.Rig()
            try:
                B.restore(snap)
                resB = B.run_session([probe], S.make_cert(), digests=False)
            finally:
                B.close()
            a = S.decode_response(resA["out"][-1], A.default_version)
            b = S.decode_response(resB["out"][0], A.default_version)
            print("  used connection: %s\n  fresh: %s" % (a, b))
            return a == b
        finally:
            A.close()
    import impl_engine
    E = impl_engine.ImplEngine()
    bad = False
    try:
        for j in r["lines"]:
            if j.get("cmd") != "req":
                E.handle(j)
                continue
            E.engine._data_store.dispose()
            cp = E.db + ".probe"
            shutil.copyfile(E.db, cp)
            live = E.handle(j)
            F = impl_engine.ImplEngine()
            try:
                shutil.copyfile(cp, F.db)
                F.policies = E.policies
                F.restart()
                F.engine._operation_policies = E.policies
                fresh = F.request(j["now"], j["id"], j["req"])
            finally:
                F.close()
                os.remove(cp)
            if diff_engine.obs_out(live) != diff_engine.obs_out(fresh):
                print("  probe differs:", str(live)[:300], "VS", str(fresh)[:300])
                bad = True
    finally:
        E.close()
    return not bad
