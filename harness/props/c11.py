"""C11 — request isolation: every probe is answered as on a fresh engine over a copy of the database."""
import os
import shutil
import sys

sys.path.insert(0, os.path.join(os.path.dirname(os.path.abspath(__file__)), "..", "lib"))
import engine_check  # noqa: E402
import diff_engine  # noqa: E402

LEAN_MODULES = ["KmipModel.Props.C11"]
RULE = ("pairs (prefix history by several clients, probe request): the probe is sent to the live engine and to a "
        "fresh KmipEngine opened on a copy of the database file taken just before; responses and resulting stores must "
        "be equal; probes are biased to identifier-less requests for the 14 handlers that read the ID placeholder and "
        "to protocol-version / identity switches, incl. unsupported versions and a request repeating the previous "
        "request's version; non-trivial = the probe names no identifier, or follows a request "
        "with another version or identity")
PROFILE = {"groups": 0.15, "restart": 0.0}
PLACEHOLDER_OPS = ["get", "getAttributes", "getAttributeList", "activate", "revoke", "destroy", "encrypt", "decrypt",
                   "sign", "signatureVerify", "mac", "setAttribute", "modifyAttribute", "deleteAttribute"]


def probe_monitor(h, outs):
    fails = []
    for i, (j, o) in enumerate(zip(h, outs)):
        if j.get("cmd") == "req" and isinstance(o, dict) and "_fresh" in o:
            live = diff_engine.obs_out({k: v for k, v in o.items() if not k.startswith("_")})
            fresh = diff_engine.obs_out(o["_fresh"])
            if live != fresh:
                fails.append(("c11:probe-differs-from-fresh-engine",
                              "live engine answered %s, a fresh engine on the same database %s"
                              % (str(live)[:200], str(fresh)[:200]), i))
            elif o.get("_fresh_dump") is not None and o.get("_live_dump") is not None \
                    and o["_fresh_dump"].get("objs") != o["_live_dump"].get("objs"):
                fails.append(("c11:probe-store-differs", "stores differ after the probe", i))
    return fails


MONITORS = [probe_monitor]


def builder(g, E, do, length):
    import impl_engine
    import gen_engine
    last = None
    for k in range(length):
        line = g.line()
        if g.p(0.45):
            # turn into an identifier-less probe for a placeholder-reading handler
            op = g.ch(PLACEHOLDER_OPS)
            v = g.ch([12, 13, 14, 20])
            it = g.item(op=op, version=v)
            it["uid"] = None
            it["bid"] = None
            line["req"] = {"version": v, "ts": None, "async": None, "bopt": None, "maxsize": None, "items": [it]}
            if g.p(0.5):
                line["id"] = g.ident()
        # protocol versions the server refuses, and a request repeating the version of the request before it
        # (whatever the refused request left behind must not decide the next one)
        x = g.r.random()
        if x < 0.07:
            line["req"]["version"] = g.ch([9, 15, 21, 30, 99])
        elif x < 0.30 and last is not None:
            line["req"]["version"] = last
        last = line["req"]["version"]
        # fresh engine on a copy of the database, taken before the live engine sees the probe
        E.engine._data_store.dispose()
        copy = E.db + ".probe"
        shutil.copyfile(E.db, copy)
        o = do(line)
        live_dump = E.dump()
        F = impl_engine.ImplEngine(scripted_crypto=True)
        try:
            shutil.copyfile(copy, F.db)
            F.policies = E.policies
            F.restart()
            F.engine._operation_policies = E.policies
            fresh = F.request(line["now"], line["id"], line["req"])
            fresh_dump = F.dump()
        finally:
            F.close()
            os.remove(copy)
        if isinstance(o, dict):
            o["_fresh"] = fresh
            o["_fresh_dump"] = fresh_dump
            o["_live_dump"] = live_dump
        do({"cmd": "dump"})


def nontrivial(j, o):
    if "results" not in o:
        return False
    return any(it.get("uid") is None and it["op"] in PLACEHOLDER_OPS for it in j["req"]["items"])


def run(ctx):
    engine_check.standard_run(ctx, PROFILE, MONITORS, nontrivial, RULE, n_quick=96, n_thorough=1500, length=25,
                              builder="props.c11.builder")


def search(ctx, broken):
    engine_check.standard_search(ctx, PROFILE, MONITORS, 25, builder="props.c11.builder")


def replay(ctx, rep):
    # replays are histories; re-run with probes on every line
    r = rep.get("replay", rep)
    import impl_engine
    E = impl_engine.ImplEngine()
    bad = False
    try:
        for j in r["lines"]:
            if j.get("cmd") != "req":
                E.handle(j)
                continue
            E.engine._data_store.dispose()
            cp = E.db + ".probe"
            shutil.copyfile(E.db, cp)
            live = E.handle(j)
            F = impl_engine.ImplEngine()
            try:
                shutil.copyfile(cp, F.db)
                F.policies = E.policies
                F.restart()
                F.engine._operation_policies = E.policies
                fresh = F.request(j["now"], j["id"], j["req"])
            finally:
                F.close()
                os.remove(cp)
            if diff_engine.obs_out(live) != diff_engine.obs_out(fresh):
                print("  probe differs:", str(live)[:300], "VS", str(fresh)[:300])
                bad = True
    finally:
        E.close()
    return not bad
