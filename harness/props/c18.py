"""C18 — policies in force follow the policy files; built-in policies are untouchable.

Two halves, both run against the real code and the Lean model M6 (Drivers/Monitor.lean):

  histories   sequences of directory events (write = add / edit / repair, break, remove, touch) over
              three files and three overlapping policy names, a real PolicyDirectoryMonitor on a temp
              directory with explicit mtimes, scan_policies() after every step; observation = the
              contents of the policy store after every scan + the class of an escaped exception.
  documents   JSON policy documents, valid in every documented shape and invalid at every position;
              observation = ValueError | result | other exception class of read_policy_from_file.

Monitors (independent of the model): `SpecMonitor` recomputes from the history alone what the
property's sentence requires the store to be; `oracle_text` is a reference validator of the
documented file format written from the documentation.
"""
import collections
import itertools
import json
import multiprocessing
import os
import random
import sys
import time

sys.path.insert(0, os.path.join(os.path.dirname(os.path.abspath(__file__)), "..", "lib"))
import impl_monitor as IM  # noqa: E402

VERIF = os.path.dirname(os.path.dirname(os.path.dirname(os.path.abspath(__file__))))

LEAN_MODULES = ["KmipModel.Props.C18"]
RULE = ("(since round 7 also policies DEFINED WITH AN EMPTY DEFINITION - {\"preset\": {}}, {\"groups\": {}}, {} - shadowing "
        "and shadowed, as their own 9-letter family to depth 5/6 and in the random histories; since round 6 also files RESTORED with their old modification time after a removal - moved away and back - "
        "as their own 9-letter family to depth 5/6 and in the random histories) "
        "histories: ALL sequences over the event alphabet {write S (add/edit/repair; S = set of policy names the "
        "file defines, every write carries fresh definitions), break (bad JSON / unknown operation, section, "
        "permission, object type), remove, touch} x 3 files x 3 overlapping names: 21 letters to depth 4 and 10 "
        "letters to depth 5 with a scan after every event, 15 letters to depth 2 with two events per scan, 8 letters "
        "including wrong-typed documents (the former F-C18-b inputs) to depth 4 (thorough: 21 letters to depth 5, 10 letters to depth 6, "
        "two events per scan over 21 letters to depth 2 and over 10 letters to depth 3, crash alphabet to depth 5), then seeded random histories (4 files, reserved names, documents that crash "
        "the parser, 1-3 events per scan, 6-12 scans); no-op events (remove/touch of an absent file) are pruned. "
        "documents: every documented shape (preset, groups, both, object types at top level, several policies, empty "
        "bodies, every object type / operation / permission) and, for each of them, every single mutation: each node "
        "replaced by each wrong-typed value, each key renamed / removed, unknown and mixed-section keys added to "
        "each object, the text truncated at each position; thorough adds double mutations and random trees. "
        "non-trivial history = at some scan a name is defined by >= 2 loaded files (shadowing); distinct = distinct "
        "event sequences / distinct document texts")
ASSUMPTIONS = [
    "every write or touch of a policy file strictly increases its mtime (the monitor detects changes by mtime only)",
    "two cache entries of one policy name never carry the same time.time() value (disassociate_policy_and_file "
    "locates entries with list.index); the harness replaces the monitor module's clock by a counter",
    "directory entries ending in .json are regular readable text files",
    "wrong-typed but falsy section values (\"preset\": null / 0 / \"\" / [] / false) are tolerated either way "
    "(the code reads them as an absent section); only an escaping non-ValueError exception is counted against them",
]
TRUSTED = [
    "SpecMonitor / oracle_text in harness/props/c18.py (independent readings of the property and of the documented "
    "file format)",
    "the document -> token abstraction: policy values are compared by canonical JSON text",
]

FILES = ["a.json", "b.json", "c.json", ".d.json"]     # (a policy file is any *.json of the directory: also one whose name starts with a dot)
NAMES = ["p", "q", "r", "default"]
OTS = [t.name for t in IM.enums.ObjectType]
OPS = [o.name for o in IM.enums.Operation]
PERMS = [p.name for p in IM.enums.Policy]
RESERVED = ["default", "public"]           # the property's own words: the built-in 'default' and 'public'
SECTIONS = ("preset", "groups")


# ===========================================================================
# reference validator of the documented policy-file format (independent of code and model)
def oracle_doc(doc):
    """-> (verdict, value, why): 'valid' (value = {name: canonical policy}), 'invalid' (bad JSON, unknown
    object type / operation / permission / section), 'unspecified' (a node of the wrong JSON type)"""
    if not isinstance(doc, dict):
        return ("unspecified", None, "document is not an object")
    typed, named = [], []
    result = {}

    def table(t, where):
        if not isinstance(t, dict):
            typed.append(where)
            return None
        out = {}
        for ot, ops in t.items():
            if ot not in OTS:
                named.append("object-type")
            if not isinstance(ops, dict):
                typed.append(where + "/" + ot)
                continue
            o = {}
            for op, perm in ops.items():
                if op not in OPS:
                    named.append("operation")
                if not isinstance(perm, str):
                    typed.append(where + "/" + ot + "/" + op)
                elif perm not in PERMS:
                    named.append("permission")
                else:
                    o[op] = perm
            out[ot] = o
        return out

    for name, body in doc.items():
        if not isinstance(body, dict):
            typed.append(name)
            continue
        if not body:
            continue                      # a policy without content defines nothing
        keys = set(body)
        if keys <= set(SECTIONS):
            val = {}
            if "preset" in body:
                val["preset"] = table(body["preset"], name + "/preset")
            if "groups" in body:
                g = body["groups"]
                if not isinstance(g, dict):
                    typed.append(name + "/groups")
                else:
                    val["groups"] = {gn: table(gt, name + "/groups/" + gn) for gn, gt in g.items()}
            result[name] = val
        elif keys <= set(OTS):
            result[name] = {"preset": table(body, name)}
        else:
            named.append("section")       # unknown section, or sections mixed with object types
    if typed:
        return ("unspecified", None, "wrong-typed node at " + typed[0])
    if named:
        return ("invalid", None, "unknown " + named[0])
    return ("valid", {n: IM.canon(v) for n, v in result.items()}, None)


_ORACLE = {}


def oracle_text(text):
    r = _ORACLE.get(text)
    if r is None:
        try:
            doc = json.loads(text)
        except Exception:
            r = ("invalid", None, "bad JSON")
        else:
            r = oracle_doc(doc)
        if len(_ORACLE) < 200000:
            _ORACLE[text] = r
    return r


def check_document(text, obs):
    """the property's sentence about one document; obs = impl_read(text).  -> [(signature, what)]"""
    verdict, value, why = oracle_text(text)
    if obs[0] == "crash":
        return [("c18:parser-crash:%s" % obs[1],
                 "read_policy_from_file raised %s (not ValueError) on a %s document (%s); scan_policies only catches "
                 "ValueError, so the monitor process dies" % (obs[1], verdict, why or "valid"))]
    if verdict == "valid":
        if obs[0] != "ok":
            return [("c18:valid-document-refused", "a valid policy document was rejected")]
        if obs[1] != value:
            return [("c18:valid-document-misparsed", "parsed %s, the document says %s" % (obs[1], value))]
    elif verdict == "invalid" and obs[0] == "ok":
        return [("c18:invalid-document-accepted:%s" % why.replace(" ", "-"),
                 "a document with %s was accepted as %s" % (why, obs[1]))]
    return []


# ===========================================================================
# the property's sentence about histories, evaluated on the implementation's stores alone
class SpecMonitor(object):
    """Recomputes from the directory history what the store must contain: each name maps to the definition in
    the most recently loaded file that still defines it; reserved names keep the built-in policies."""

    def __init__(self):
        self.files = {}        # fname -> {"defs": {name: canon}, "stamp": int, "mtime": m, "hist": {name: set(canon)}}
        self.counter = 0
        self.shadowed_drops = {}   # name -> {fname: set(canon)}  (file reloaded without the name while shadowed)
        self.shadowing_seen = False

    def winner(self, name):
        best = None
        for f, rec in self.files.items():
            if name in rec["defs"] and (best is None or rec["stamp"] > self.files[best]["stamp"]):
                best = f
        return best

    def scan(self, disk, in_force=None):
        """disk: fname -> (text, mtime) for the *.json files present now; in_force: the real store as observed
        after the previous scan (used only to classify failures).  Returns the required store."""
        for f in [f for f in self.files if f not in disk]:
            del self.files[f]
            for d in self.shadowed_drops.values():
                d.pop(f, None)
        for f in sorted(disk):
            text, mtime = disk[f]
            rec = self.files.get(f)
            if rec is None:
                rec = self.files[f] = {"defs": {}, "stamp": -1, "mtime": None, "hist": {}}
            if rec["mtime"] is not None and mtime <= rec["mtime"]:
                continue
            rec["mtime"] = mtime
            verdict, value, _ = oracle_text(text)
            if verdict != "valid":
                continue                   # rejected as a whole: what was loaded stays
            new = {n: c for n, c in value.items() if n not in RESERVED}
            for n, c in rec["defs"].items():
                # f stops defining n while some other definition of n is in force (by the files, or in the
                # real store as last observed): the situation of the known defect c18:shadowed-definition-resurrected
                if n not in new and (self.winner(n) != f or (in_force is not None and in_force.get(n) != c)):
                    self.shadowed_drops.setdefault(n, {}).setdefault(f, set()).update(rec["hist"].get(n, ()))
            rec["defs"] = new
            rec["stamp"] = self.counter
            self.counter += 1
            for n, c in new.items():
                rec["hist"].setdefault(n, set()).add(c)
        want = dict(IM.BUILTIN)
        definers = collections.Counter()
        for rec in self.files.values():
            for n in rec["defs"]:
                definers[n] += 1
        if any(v >= 2 for v in definers.values()):
            self.shadowing_seen = True
        for n in definers:
            want[n] = self.files[self.winner(n)]["defs"][n]
        return want

    def compare(self, want, got):
        """-> [(signature, what)] for one scan"""
        out = []
        for n in sorted(set(want) | set(got)):
            w, g = want.get(n), got.get(n)
            if w == g:
                continue
            if n in RESERVED:
                out.append(("c18:reserved-policy-changed", "built-in policy %r is %s" % (n, "gone" if g is None else "replaced")))
            elif g is not None and any(g in s for s in self.shadowed_drops.get(n, {}).values()):
                f = [f for f, s in self.shadowed_drops[n].items() if g in s][0]
                out.append(("c18:shadowed-definition-resurrected",
                            "policy %r is in force with a definition that %s gave it earlier, but %s has since been "
                            "reloaded without %r (while another file's definition shadowed it); the files now say: %s"
                            % (n, f, f, n, "no such policy" if w is None else "another definition")))
            else:
                kind = "missing" if g is None else ("unexpected" if w is None else "stale-or-wrong")
                out.append(("c18:store-differs-from-policy-files:%s" % kind,
                            "policy %r: in force %s, the policy files say %s" % (n, g, w)))
        return out


def exn_signature(exn):
    cls, where = exn
    if where == "parser":
        return ("c18:parser-crash:%s" % cls,
                "read_policy_from_file raised %s inside scan_policies; only ValueError is caught, the monitor process "
                "dies" % cls)
    return ("c18:scan-crash:%s" % cls, "scan_policies raised %s" % cls)


# ===========================================================================
# documents for the history half: every write carries fresh, recognisable definitions
def pol_body(k):
    shape = k % 3
    r = k // 3
    op = OPS[r % len(OPS)]
    r //= len(OPS)
    perm = PERMS[r % len(PERMS)]
    r //= len(PERMS)
    ot = OTS[r % 9]
    tbl = {ot: {op: perm}}
    if shape == 0:
        return {"preset": tbl}
    if shape == 1:                       # object types at the top level
        return {ot: {op: perm}, OTS[9]: {"QUERY": "DISALLOW_ALL"}}
    return {"preset": tbl, "groups": {"g1": tbl, "g2": {}}}


def write_text(fidx, names, version):
    return json.dumps({n: pol_body(version * 16 + fidx * 4 + NAMES.index(n)) for n in names})


BROKEN = [
    '{"p": {"preset": {"SYMMETRIC_KEY": {"GET": "ALLOW_ALL"}}',                                   # bad JSON
    '{"p": {"preset": {"SYMMETRIC_KEY": {"GET": "ALLOW_ALL"}}}, "q": {"preset": {"SYMMETRIC_KEY": {"FETCH": "ALLOW_ALL"}}}}',
    '{"q": {"preset": {"SYMMETRIC_KEY": {"GET": "ALLOW_ALL"}}, "extras": {}}, "p": {"preset": {"SYMMETRIC_KEY": {"GET": "ALLOW_ALL"}}}}',
    '{"p": {"preset": {"SYMMETRIC_KEY": {"GET": "ALLOW_SOME"}}}}',
    '{"r": {"preset": {"QUANTUM_KEY": {"GET": "ALLOW_ALL"}}}, "p": {"SYMMETRIC_KEY": {"GET": "ALLOW_ALL"}}}',
    '',
]
CRASHY = [
    '[1, 2]',
    '{"p": {"preset": {"SYMMETRIC_KEY": {"GET": "ALLOW_ALL"}}}, "x": 5}',
    '{"x": {"preset": {}, "SYMMETRIC_KEY": {}}}',
    '{"x": {"preset": {"SYMMETRIC_KEY": 5}}}',
    '{"x": {"groups": [1]}}',
]


def L(f, *act):
    return (f, tuple(act))


def W(f, names):
    return (f, ("w", tuple(names)))


ALPHA_FULL = (
    [W(0, "p"), W(0, "q"), W(0, "pq"), W(0, ""), L(0, "brk"), L(0, "rm"), L(0, "tch")] +
    [W(1, "p"), W(1, "r"), W(1, "pr"), W(1, ""), L(1, "brk"), L(1, "rm"), L(1, "tch")] +
    [W(2, "q"), W(2, "r"), W(2, "qr"), W(2, "pqr"), L(2, "brk"), L(2, "rm"), L(2, "tch")])
ALPHA_DEEP = (
    [W(0, "p"), W(0, "q"), L(0, "rm"), L(0, "brk")] +
    [W(1, "p"), W(1, "pr"), L(1, "rm")] +
    [W(2, "pqr"), L(2, "rm"), L(2, "tch")])
ALPHA_PAIR = (
    [W(0, "p"), W(0, "q"), W(0, ""), L(0, "brk"), L(0, "rm")] +
    [W(1, "p"), W(1, "pr"), L(1, "brk"), L(1, "rm"), L(1, "tch")] +
    [W(2, "pq"), W(2, "r"), W(2, ""), L(2, "rm"), L(2, "tch")])
ALPHA_CRASH = (
    [W(0, "p"), L(0, "crs"), L(0, "rm")] +
    [W(1, "p"), W(1, "pr"), L(1, "crs")] +
    [W(2, "pq"), L(2, "tch")])
# "rst" = the file comes back exactly as it was when it left the directory (moved away and back, restored from a
# backup with its times preserved): same content, same OLD modification time
ALPHA_RESTORE = (
    [W(0, "p"), W(0, "pq"), L(0, "rm"), L(0, "rst"), L(0, "tch")] +
    [W(1, "p"), W(1, "q"), L(1, "rm"), L(1, "rst")])
# "we" = the file DEFINES the policies with an EMPTY definition ({"p": {"preset": {}}}, {"p": {"groups": {}}}, {"p": {}}):
# a valid document whose policy is present in the store with a falsy value
EMPTY_BODIES = [{"preset": {}}, {"groups": {}}, {}]
ALPHA_EMPTY = (
    [W(0, "p"), (0, ("we", ("p",))), L(0, "rm")] +
    [W(1, "p"), (1, ("we", ("p",))), (1, ("we", ("p", "q"))), L(1, "rm")] +
    [W(2, "pq"), L(2, "rm")])
ALPHABETS = {"empty": ALPHA_EMPTY, "full": ALPHA_FULL, "deep": ALPHA_DEEP, "pair": ALPHA_PAIR, "crash": ALPHA_CRASH, "restore": ALPHA_RESTORE}


def realize(letters, eps):
    """letters -> steps (lists of concrete events), or None when a letter is a no-op (pruned)"""
    present = set()
    gone = set()
    ver = {}
    steps = []
    n = 0
    for i in range(0, len(letters), eps):
        evs = []
        for fidx, act in letters[i:i + eps]:
            f = FILES[fidx]
            n += 1
            if act[0] == "rm":
                if f not in present:
                    return None
                present.discard(f)
                gone.add(f)
                evs.append(["remove", f])
            elif act[0] == "rst":
                if f in present or f not in gone:
                    return None
                present.add(f)
                gone.discard(f)
                evs.append(["restore", f])
            elif act[0] == "tch":
                if f not in present:
                    return None
                evs.append(["touch", f])
            else:
                v = ver.get(f, 0)
                ver[f] = v + 1
                if act[0] == "w":
                    text = write_text(fidx, [c if c != "d" else "default" for c in act[1]], v)
                elif act[0] == "we":
                    text = json.dumps({c: EMPTY_BODIES[(n + fidx + k) % 3] for k, c in enumerate(act[1])})
                elif act[0] == "brk":
                    text = BROKEN[(n + fidx) % len(BROKEN)]
                else:
                    text = CRASHY[(n + fidx) % len(CRASHY)]
                present.add(f)
                gone.discard(f)
                evs.append(["write", f, text])
        steps.append(evs)
    return steps


def random_history(rng):
    nfiles = rng.choice([2, 3, 3, 4])
    names_pool = ["p", "q", "r"]
    present = set()
    removed = set()
    ver = {}
    steps = []
    extra = rng.random() < 0.2
    for _ in range(rng.randint(6, 12)):
        evs = []
        for _ in range(rng.choice([1, 1, 1, 2, 2, 3])):
            fidx = rng.randrange(nfiles)
            f = FILES[fidx]
            x = rng.random()
            if f not in present and f in removed and x < 0.5:
                present.add(f)
                removed.discard(f)
                evs.append(["restore", f])
            elif f in present and x < 0.18:
                present.discard(f)
                removed.add(f)
                evs.append(["remove", f])
            elif f in present and x < 0.30:
                evs.append(["touch", f])
            else:
                v = ver.get(f, 0)
                ver[f] = v + 1
                y = rng.random()
                if y < 0.12:
                    text = rng.choice(BROKEN)
                elif y < 0.17:
                    text = rng.choice(CRASHY)
                else:
                    k = rng.choice([0, 1, 1, 1, 2, 2, 3])
                    names = rng.sample(names_pool, k)
                    if rng.random() < 0.15:
                        names.append("default")
                    doc = {n: (pol_body(v * 16 + fidx * 4 + NAMES.index(n)) if rng.random() > 0.12 else
                               rng.choice(EMPTY_BODIES)) for n in names}
                    if rng.random() < 0.1:
                        doc["public"] = pol_body(v * 16 + fidx * 4 + 3)
                    if rng.random() < 0.1:
                        doc["empty"] = {}
                    text = json.dumps(doc)
                present.add(f)
                removed.discard(f)
                evs.append(["write", f, text])
            if extra and rng.random() < 0.1:
                evs.append(["write", "notes.txt", "not a policy file"])
        steps.append(evs)
    return steps


# ===========================================================================
# running histories: implementation, model lines, monitors
_CONTENT = {}


def content_json(text):
    c = _CONTENT.get(text)
    if c is None:
        try:
            v = json.loads(text)
        except Exception:
            c = '{"unparsable":true}'
        else:
            c = json.dumps({"doc": IM.enc_doc(v)}, separators=(",", ":"))
        if len(_CONTENT) < 200000:
            _CONTENT[text] = c
    return c


def disk_after(disk, clock, evs):
    """apply one step's events to the harness's picture of the directory; returns the new clock"""
    for ev in evs:
        clock += 10
        if ev[0] == "write":
            disk[ev[1]] = (ev[2], clock)
        elif ev[0] == "touch":
            disk[ev[1]] = (disk[ev[1]][0], clock)
        elif ev[0] == "remove":
            disk.setdefault(GRAVE, {})[ev[1]] = disk[ev[1]]
            del disk[ev[1]]
        elif ev[0] == "restore":
            disk[ev[1]] = disk[GRAVE].pop(ev[1])           # same text, same old mtime
        else:
            raise ValueError("unknown event %r" % (ev,))
    return clock


GRAVE = "\0removed"        # key (no .json name) under which disk_after remembers what removed files looked like


def json_files(disk):
    return {f: v for f, v in disk.items() if f.endswith(".json")}


def run_impl_history(im, steps):
    """-> [(store {name: canon}, exn | None)] after each step, on a fresh monitor"""
    im.reset()
    clock = 1000
    obs = []
    cur, grave = {}, {}
    for evs in steps:
        for ev in evs:
            clock += 10
            if ev[0] == "write":
                im.write(ev[1], ev[2], clock)
                cur[ev[1]] = (ev[2], clock)
            elif ev[0] == "touch":
                im.touch(ev[1], clock)
                if ev[1] in cur:
                    cur[ev[1]] = (cur[ev[1]][0], clock)
            elif ev[0] == "remove":
                im.remove(ev[1])
                grave[ev[1]] = cur.pop(ev[1], None)
            elif ev[0] == "restore":
                text, old = grave.pop(ev[1])
                im.write(ev[1], text, old)
                cur[ev[1]] = (text, old)
            else:
                raise ValueError("unknown event %r" % (ev,))
        obs.append(im.scan())
    return obs


def monitor_history(steps, obs):
    """-> ([(signature, what, step index)], shadowing_seen)"""
    mon = SpecMonitor()
    disk = {}
    clock = 1000
    fails = []
    for i, (evs, (store, exn)) in enumerate(zip(steps, obs)):
        clock = disk_after(disk, clock, evs)
        want = mon.scan(json_files(disk), obs[i - 1][0] if i else dict(IM.BUILTIN))
        if exn is not None:
            sig, what = exn_signature(exn)
            fails.append((sig, what, i))
            break                          # the monitor process is dead from here on
        for sig, what in mon.compare(want, store):
            fails.append((sig, what, i))
    return fails, mon.shadowing_seen


def model_lines(histories):
    """scan lines for a list of histories, sharing the slots of common prefixes with the previous history.
    -> (lines, index) with index[h][i] = number of the line that answers step i of history h"""
    lines = ['{"op":"reset","slot":0,"store":[["default",0],["public",1]]}']
    index = []
    prev, prev_idx = [], []
    for steps in histories:
        common = 0
        while common < len(prev) and common < len(steps) and prev[common] == steps[common]:
            common += 1
        idx = prev_idx[:common]
        disk = {}
        clock = 1000
        for i, evs in enumerate(steps):
            clock = disk_after(disk, clock, evs)
            if i < common:
                continue
            snap = ",".join('["%s",%d,%s]' % (f, m, content_json(t)) for f, (t, m) in json_files(disk).items())
            lines.append('{"op":"scan","from":%d,"to":%d,"snap":[%s]}' % (i, i + 1, snap))
            idx.append(len(lines) - 1)
        index.append(idx)
        prev, prev_idx = steps, idx
    return lines, index


def model_obs(line):
    """answer of a scan line -> (store {name: canon}, exn string | None)"""
    if line.startswith("bad-op"):
        raise RuntimeError("model driver refused a scan line: " + line)
    o = json.loads(line)
    store = {}
    for name, v in o["store"]:
        if v == 0:
            store[name] = IM.BUILTIN["default"]
        elif v == 1:
            store[name] = IM.BUILTIN["public"]
        elif isinstance(v, dict):
            val = {}
            if v["preset"] is not None:
                val["preset"] = {ot: dict(ops) for ot, ops in v["preset"]}
            if v["groups"] is not None:
                val["groups"] = {g: {ot: dict(ops) for ot, ops in t} for g, t in v["groups"]}
            store[name] = IM.canon(val)
        else:
            store[name] = "token:%s" % v
    return store, o["exn"]


def impl_exn_string(exn):
    if exn is None:
        return None
    cls, where = exn
    return "parser:%s" % cls if where == "parser" else cls


def check_histories(histories, with_model=True):
    """Run histories on the implementation (+ monitors) and on the model; -> summary dict"""
    res = {"histories": len(histories), "scans": 0, "nontrivial": 0, "fails": {}, "divs": [], "events": collections.Counter(),
           "max_stack": 0, "samples": []}
    im = IM.ImplMonitor()
    all_obs = []
    failing_steps = []          # per history: the scans at which a monitor failed
    try:
        for steps in histories:
            obs = run_impl_history(im, steps)
            all_obs.append(obs)
            res["scans"] += len(obs)
            for evs in steps:
                for ev in evs:
                    res["events"][ev[0]] += 1
            fails, shadow = monitor_history(steps, obs)
            failing_steps.append(set(i for _, _, i in fails))
            if shadow:
                res["nontrivial"] += 1
                if len(res["samples"]) < 1:
                    res["samples"].append({"steps": steps, "stores": [sorted((k, v[:60]) for k, v in s.items() if k not in RESERVED) for s, _ in obs]})
            for sig, what, i in fails:
                e = res["fails"].get(sig)
                rep = {"kind": "history", "steps": steps[:i + 1], "failing_scan": i, "what": what,
                       "store_after_failing_scan": {k: v for k, v in obs[i][0].items() if k not in RESERVED}}
                if e is None:
                    res["fails"][sig] = {"count": 1, "what": what, "replay": rep}
                else:
                    e["count"] += 1
                    if replay_size(rep) < replay_size(e["replay"]):
                        e["what"], e["replay"] = what, rep
        if im.builtin_mutated:
            res["fails"]["c18:reserved-policy-changed"] = {
                "count": 1, "what": "a built-in policy object was modified in place",
                "replay": {"kind": "history", "steps": histories[-1], "failing_scan": len(histories[-1]) - 1}}
    finally:
        im.close()
    if with_model and histories:
        lines, index = model_lines(histories)
        out = IM.run_model(lines)
        for steps, obs, idx, fsteps in zip(histories, all_obs, index, failing_steps):
            for i, (o, li) in enumerate(zip(obs, idx)):
                m = model_obs(out[li])
                if (o[0], impl_exn_string(o[1])) != m:
                    res["n_divs"] = res.get("n_divs", 0) + 1
                    # a divergence at a scan where a monitor failed is already reported as that concrete
                    # failing input; only the others need a search / a correspondence report
                    if not any(k <= i for k in fsteps):
                        res["n_divs_unexplained"] = res.get("n_divs_unexplained", 0) + 1
                        if len(res["divs"]) < 5:
                            res["divs"].append({"steps": steps[:i + 1], "step": i,
                                                "impl": {"store": {k: v for k, v in o[0].items() if k not in RESERVED}, "exn": impl_exn_string(o[1])},
                                                "model": {"store": {k: v for k, v in m[0].items() if k not in RESERVED}, "exn": m[1]}})
                    break
    return res


def family_histories(alpha_name, eps, depth, prefixes):
    alpha = ALPHABETS[alpha_name]
    total = eps * depth
    hs = []
    for pre in prefixes:
        pre_l = tuple(alpha[i] for i in pre)
        if realize(pre_l, eps) is None:
            continue
        for rest in itertools.product(alpha, repeat=total - len(pre)):
            steps = realize(pre_l + rest, eps)
            if steps is not None:
                hs.append(steps)
    return hs


def work(task):
    kind = task["kind"]
    if kind == "family":
        hs = family_histories(task["alpha"], task["eps"], task["depth"], task["prefixes"])
    elif kind == "random":
        hs = []
        for s in task["seeds"]:
            hs.append(random_history(random.Random(s)))
    elif kind == "given":
        hs = task["histories"]
    elif kind == "documents":
        return check_documents(task["texts"], task.get("with_model", True))
    else:
        raise ValueError(kind)
    r = check_histories(hs, task.get("with_model", True))
    r["family"] = task.get("label", kind)
    return r


def family_tasks(label, alpha_name, eps, depth, ntasks=64, with_model=True):
    alpha = ALPHABETS[alpha_name]
    plen = min(2, eps * depth)
    prefixes = list(itertools.product(range(len(alpha)), repeat=plen))
    chunks = [prefixes[i::ntasks] for i in range(ntasks)]
    return [{"kind": "family", "label": label, "alpha": alpha_name, "eps": eps, "depth": depth, "prefixes": sorted(c),
             "with_model": with_model} for c in chunks if c]


# ===========================================================================
# documents
def base_documents():
    t1 = {"SYMMETRIC_KEY": {"GET": "ALLOW_ALL", "DESTROY": "ALLOW_OWNER"}, "CERTIFICATE": {"LOCATE": "DISALLOW_ALL"}}
    t2 = {"PRIVATE_KEY": {"SIGN": "ALLOW_OWNER"}}
    t3 = {"PUBLIC_KEY": {"GET": "ALLOW_ALL"}}
    docs = [
        ("preset", {"pol1": {"preset": t1}}),
        ("groups", {"pol2": {"groups": {"grpA": t2, "grpB": t3}}}),
        ("both+legacy", {"x": {"preset": t3, "groups": {"g": t2}}, "y": {"SECRET_DATA": {"GET": "ALLOW_ALL"}}}),
        ("legacy", {"old": {"SYMMETRIC_KEY": {"GET": "ALLOW_OWNER"}, "OPAQUE_DATA": {"GET": "ALLOW_ALL", "LOCATE": "ALLOW_ALL"}}}),
        ("empty-doc", {}),
        ("empty-body", {"e": {}}),
        ("empty-preset", {"e": {"preset": {}}}),
        ("empty-groups", {"e": {"groups": {}}}),
        ("empty-group", {"e": {"groups": {"g": {}}}}),
        ("empty-type", {"e": {"preset": {"OPAQUE_DATA": {}}}}),
        ("reserved-names", {"default": {"preset": t3}, "public": {"TEMPLATE": {"GET": "ALLOW_ALL"}}}),
        ("unicode", {"polé": {"groups": {"grüß": t3, "": t2}}}),
        ("all-types", {"all": {"preset": {ot: {"GET": PERMS[i % 3]} for i, ot in enumerate(OTS)}}}),
        ("all-ops", {"all": {"SYMMETRIC_KEY": {op: PERMS[i % 3] for i, op in enumerate(OPS)}}}),
        ("several", {"a": {"preset": t2}, "b": {}, "c": {"groups": {"g": t1}}, "d": t3}),
    ]
    return docs


WRONG = [None, True, False, 0, 1, 2.5, "", "ALLOW_ALL", "x", [], [1], ["GET"], [{}], {}, {"BOGUS": {}}, {"BOGUS": 1},
         {"SYMMETRIC_KEY": {}}, {"preset": {}}, {"GET": "ALLOW_ALL"}]
KEYS = ["BOGUS", "", "preset", "groups", "SYMMETRIC_KEY", "symmetric_key", "GET", "Get", "ALLOW_ALL", "default", "PRESET"]
EXTRA = [("BOGUS", {}), ("BOGUS", 1), ("SYMMETRIC_KEY", {"GET": "ALLOW_ALL"}), ("SYMMETRIC_KEY", {}), ("preset", {}),
         ("preset", {"SYMMETRIC_KEY": {"GET": "ALLOW_ALL"}}), ("groups", {}), ("GET", "ALLOW_ALL"), ("FETCH", "ALLOW_ALL"),
         ("GET", "ALLOW_SOME"), ("QUANTUM_KEY", {})]


def nodes(v, path=()):
    yield path, v
    if isinstance(v, dict):
        for k, x in v.items():
            for r in nodes(x, path + (k,)):
                yield r


def replace_at(v, path, new):
    if not path:
        return new
    return {k: (replace_at(x, path[1:], new) if k == path[0] else x) for k, x in v.items()}


def edit_obj(v, path, fn):
    """apply fn to the dict at path (fn returns the new list of items)"""
    if not path:
        return dict(fn(list(v.items())))
    return {k: (edit_obj(x, path[1:], fn) if k == path[0] else x) for k, x in v.items()}


def single_mutations(doc):
    for path, node in nodes(doc):
        for w in WRONG:
            if w != node or type(w) is not type(node):
                yield replace_at(doc, path, w)
        if isinstance(node, dict):
            for k in list(node):
                for nk in KEYS:
                    if nk not in node:
                        yield edit_obj(doc, path, lambda items, k=k, nk=nk: [((nk if a == k else a), b) for a, b in items])
                yield edit_obj(doc, path, lambda items, k=k: [(a, b) for a, b in items if a != k])
            for nk, nv in EXTRA:
                if nk not in node:
                    yield edit_obj(doc, path, lambda items, nk=nk, nv=nv: items + [(nk, nv)])
                    yield edit_obj(doc, path, lambda items, nk=nk, nv=nv: [(nk, nv)] + items)


TEXTUAL = ["", " ", "\n", "{", "}", "{]", "nope", "{'p': {}}", '{"p": {},}', '{"p" {}}', '{"p": {}} trailing', "﻿{}",
           '{"p": {"preset": {"SYMMETRIC_KEY": {"GET": ALLOW_ALL}}}}', "null", "true", "0", "1.5", '"text"', "[]", "[{}]",
           '{"p": {"preset": {"SYMMETRIC_KEY": {"GET": "ALLOW_ALL"}}}, "p": {}}',
           '{"p": {"preset": {"SYMMETRIC_KEY": {"GET": "ALLOW_ALL", "GET": "ALLOW_NONE"}}}}']


def random_doc(rng, pfault):
    def perm():
        x = rng.random()
        if x < pfault:
            return rng.choice(["ALLOW_SOME", "", "allow_all"])
        if x < 2 * pfault:
            return rng.choice(WRONG)
        return rng.choice(PERMS)

    def ops():
        if rng.random() < pfault:
            return rng.choice(WRONG)
        return {(rng.choice(OPS) if rng.random() > pfault else rng.choice(["FETCH", "", "get"])): perm()
                for _ in range(rng.randint(0, 3))}

    def table():
        if rng.random() < pfault:
            return rng.choice(WRONG)
        return {(rng.choice(OTS) if rng.random() > pfault else rng.choice(["QUANTUM_KEY", "preset", "x"])): ops()
                for _ in range(rng.randint(0, 3))}

    def body():
        x = rng.random()
        if x < pfault:
            return rng.choice(WRONG)
        if x < 0.1:
            return {}
        if x < 0.35:
            b = table()
        else:
            b = {}
            if rng.random() < 0.7:
                b["preset"] = table()
            if rng.random() < 0.6:
                g = {("g%d" % i): table() for i in range(rng.randint(0, 2))} if rng.random() > pfault else rng.choice(WRONG)
                b["groups"] = g
            if rng.random() < 0.5:
                b = dict(reversed(list(b.items())))
        if isinstance(b, dict) and rng.random() < pfault:
            k, v = rng.choice(EXTRA)
            b[k] = v
        return b

    if rng.random() < pfault / 2:
        return rng.choice(WRONG)
    return {("n%d" % i): body() for i in range(rng.randint(0, 3))}


def document_texts(tier, seed):
    """-> (texts in a deterministic order, label counts)"""
    texts = []
    counts = collections.Counter()
    seen = set()

    def add(label, t):
        if t not in seen:
            seen.add(t)
            texts.append(t)
            counts[label] += 1
    bases = base_documents()
    for label, d in bases:
        add("valid-shape", json.dumps(d))
        add("valid-shape", json.dumps(d, indent=2, ensure_ascii=False))
    for k in range(0, 3 * len(OPS) * 3 * 9, 7 if tier == "quick" else 1):
        add("valid-history-policy", json.dumps({"p": pol_body(k)}))
    for t in BROKEN + CRASHY + TEXTUAL:
        add("textual", t)
    for label, d in bases:
        if label in ("all-ops",) and tier == "quick":
            continue
        for m in single_mutations(d):
            add("single-mutation", json.dumps(m))
        t = json.dumps(d)
        for i in range(0, len(t), 1 if len(t) < 200 or tier != "quick" else 9):
            add("truncation", t[:i])
    rng = random.Random(seed * 7919 + 18)
    nrand = 3000 if tier == "quick" else 120000
    for _ in range(nrand):
        add("random-tree", json.dumps(random_doc(rng, rng.choice([0.0, 0.03, 0.08, 0.2]))))
    if tier != "quick":
        for label, d in bases[:4] + bases[12:13]:
            ms = list(single_mutations(d))
            for _ in range(6000):
                m = rng.choice(ms)
                if isinstance(m, dict):
                    ms2 = list(itertools.islice(single_mutations(m), 400))
                    if ms2:
                        add("double-mutation", json.dumps(rng.choice(ms2)))
    return texts, counts


def check_documents(texts, with_model=True):
    res = {"documents": len(texts), "fails": {}, "divs": [], "outcomes": collections.Counter(), "verdicts": collections.Counter(),
           "samples": []}
    obs = []
    try:
        for t in texts:
            o = IM.impl_read(t)
            obs.append(o)
            verdict = oracle_text(t)[0]
            res["verdicts"][verdict] += 1
            res["outcomes"]["%s/%s" % (verdict, o[0] if o[0] != "crash" else "crash:" + o[1])] += 1
            for sig, what in check_document(t, o):
                e = res["fails"].get(sig)
                rep = {"kind": "document", "text": t, "what": what, "observed": list(o)[:2] if o[0] != "ok" else ["ok"]}
                if e is None:
                    res["fails"][sig] = {"count": 1, "what": what, "replay": rep}
                else:
                    e["count"] += 1
                    if replay_size(rep) < replay_size(e["replay"]):
                        e["what"], e["replay"] = what, rep
    finally:
        IM.cleanup_read_dir()
    if with_model and texts:
        out = IM.run_model([IM.read_line(t) for t in texts])
        for t, o, line in zip(texts, obs, out):
            m = IM.model_read_obs(line)
            if tuple(o) != tuple(m):
                res["n_divs"] = res.get("n_divs", 0) + 1
                if not check_document(t, o):
                    res["n_divs_unexplained"] = res.get("n_divs_unexplained", 0) + 1
                    if len(res["divs"]) < 5:
                        res["divs"].append({"text": t, "impl": list(o), "model": list(m)})
    for t, o in list(zip(texts, obs))[:3]:
        res["samples"].append({"text": t[:200], "impl": o[0]})
    return res


# ===========================================================================
def pool_map(tasks):
    procs = min(16, max(1, os.cpu_count() or 1))
    if len(tasks) <= 1 or procs == 1:
        return [work(t) for t in tasks]
    mp = multiprocessing.get_context("fork")
    with mp.Pool(procs) as pool:
        return list(pool.imap_unordered(work, tasks, chunksize=1))


def load_corpus():
    d = os.path.join(VERIF, "corpus", "C18")
    hs, texts = [], []
    if os.path.isdir(d):
        for f in sorted(os.listdir(d)):
            if f.endswith(".json"):
                j = json.load(open(os.path.join(d, f)))
                j = j.get("replay", j)
                if j.get("kind") == "history":
                    hs.append(j["steps"])
                elif j.get("kind") == "document":
                    texts.append(j["text"])
    return hs, texts


def plan(ctx, with_model=True, more=1):
    quick = ctx.tier == "quick"
    tasks = []
    tasks += family_tasks("single-event depth %d, 21 letters" % (4 if quick else 5), "full", 1, 4 if quick else 5, 64 if quick else 441, with_model)
    tasks += family_tasks("single-event depth %d, 10 letters" % (5 if quick else 6), "deep", 1, 5 if quick else 6, 48 if quick else 100, with_model)
    tasks += family_tasks("two events per scan, depth 2, 15 letters", "pair", 2, 2, 32, with_model)
    if not quick:
        tasks += family_tasks("two events per scan, depth 2, 21 letters", "full", 2, 2, 128, with_model)
        tasks += family_tasks("two events per scan, depth 3, 10 letters", "deep", 2, 3, 100, with_model)
    tasks += family_tasks("files restored with their old modification time, depth %d, 9 letters" % (5 if quick else 6), "restore", 1,
                          5 if quick else 6, 16 if quick else 64, with_model)
    tasks += family_tasks("policies defined with an empty definition, depth %d, 9 letters" % (5 if quick else 6), "empty", 1,
                          5 if quick else 6, 16 if quick else 64, with_model)
    tasks += family_tasks("with wrong-typed documents (former F-C18-b), depth %d, 8 letters" % (4 if quick else 5), "crash", 1,
                          4 if quick else 5, 16 if quick else 64, with_model)
    nrand = (2400 if quick else 120000) * more
    per = 150 if quick else 1000
    seeds = [ctx.seed * 1000003 + i for i in range(nrand)]
    for i in range(0, nrand, per):
        tasks.append({"kind": "random", "label": "random", "seeds": seeds[i:i + per], "with_model": with_model})
    texts, counts = document_texts(ctx.tier, ctx.seed)
    per = 2500 if quick else 10000
    for i in range(0, len(texts), per):
        tasks.append({"kind": "documents", "texts": texts[i:i + per], "with_model": with_model})
    # long tasks first
    tasks.sort(key=lambda t: 0 if t["kind"] == "family" else 1)
    return tasks, counts


def replay_size(r):
    """smaller = better to show: histories (fewest events, then shortest texts) before documents"""
    if r.get("kind") == "history":
        evs = [ev for st in r["steps"] for ev in st]
        return (0, len(evs), sum(len(ev[2]) for ev in evs if len(ev) > 2), json.dumps(r["steps"]))
    return (1, len(r.get("text", "")), 0, r.get("text", ""))


def merge_fails(dst, src):
    for sig, e in src.items():
        d = dst.get(sig)
        if d is None:
            dst[sig] = dict(e)
        else:
            d["count"] += e["count"]
            a, b = e["replay"], d["replay"]
            if replay_size(a) < replay_size(b):
                d["what"], d["replay"] = e["what"], e["replay"]


def report_all(ctx, fails):
    for sig in sorted(fails):
        e = fails[sig]
        if ctx.report(sig, e["what"], e["replay"]):
            for v in ctx.violations:
                if v["signature"] == sig:
                    v["count"] = e["count"]


def check_tables(ctx):
    out = IM.run_model(['{"op":"tables"}'])      # same command as ctx.run_model("Monitor", …), with retry
    model = json.loads(out[0])
    live = IM.live_tables()
    bad = [k for k in live if live[k] != model.get(k)]
    if bad:
        ctx.report("correspondence:name-tables", "the name tables of the model differ from the live enumerations: %s" % bad,
                   {"broken": "name tables of Drivers/Monitor.lean vs kmip.core.enums / monitor.reserved_policies",
                    "live": {k: live[k] for k in bad}, "model": {k: model.get(k) for k in bad}}, no_input=True)
    return not bad


def run(ctx):
    t0 = time.time()
    check_tables(ctx)
    fails = {}
    divs_h, divs_d = [], []
    cov = {"families": {}, "document_classes": {}, "events": collections.Counter(), "parser_outcomes": collections.Counter(),
           "oracle_verdicts": collections.Counter()}
    # 1. corpus first
    chs, ctexts = load_corpus()
    first = []
    if chs:
        first.append({"kind": "given", "label": "corpus", "histories": chs})
    if ctexts:
        first.append({"kind": "documents", "texts": ctexts})
    tasks, counts = plan(ctx)
    results = [work(t) for t in first] + pool_map(tasks)
    scans = docs = hist = nontriv = ndivs = nunexpl = 0
    samples = []
    for r in results:
        merge_fails(fails, r["fails"])
        ndivs += r.get("n_divs", 0)
        nunexpl += r.get("n_divs_unexplained", 0)
        if "documents" in r:
            docs += r["documents"]
            divs_d += r["divs"]
            cov["parser_outcomes"].update(r["outcomes"])
            cov["oracle_verdicts"].update(r["verdicts"])
            if len(samples) < 4:
                samples += r["samples"][:1]
        else:
            scans += r["scans"]
            hist += r["histories"]
            nontriv += r["nontrivial"]
            divs_h += r["divs"]
            cov["events"].update(r["events"])
            f = cov["families"].setdefault(r["family"], {"histories": 0, "scans": 0, "shadowing": 0})
            f["histories"] += r["histories"]
            f["scans"] += r["scans"]
            f["shadowing"] += r["nontrivial"]
            if len(samples) < 4:
                samples += r["samples"][:1]
    report_all(ctx, fails)
    ctx.coverage.update({
        "evaluations": scans + docs, "scans_on_real_monitor": scans, "histories": hist, "documents": docs,
        "distinct_nontrivial": nontriv + docs, "rule": RULE, "samples": samples[:4],
        "families": cov["families"], "document_classes": dict(counts), "event_distribution": dict(cov["events"]),
        "parser_outcome_by_oracle_verdict": dict(cov["parser_outcomes"]), "oracle_verdicts": dict(cov["oracle_verdicts"]),
        "traces_validated_against_impl": hist + docs, "corpus_cases": len(chs) + len(ctexts),
        "correspondence_divergences": ndivs, "correspondence_divergences_without_monitor_failure": nunexpl,
        "monitor_failures_by_signature": {s: e["count"] for s, e in fails.items()},
        "run_s": round(time.time() - t0, 1)})
    if nunexpl:
        # a divergence is not a violation by itself: look for a failing input around the diverging cases
        before = set(fails)
        near = {}
        rng = random.Random(ctx.seed + 99)
        hs = []
        for d in divs_h:
            for _ in range(200):
                hs.append(d["steps"] + random_history(rng)[:rng.randint(0, 3)])
        if hs:
            merge_fails(near, check_histories(hs, with_model=False)["fails"])
        if divs_d:
            texts = []
            for d in divs_d:
                try:
                    texts += [json.dumps(m) for m in itertools.islice(single_mutations(json.loads(d["text"])), 300)]
                except Exception:
                    pass
            merge_fails(near, check_documents(texts, with_model=False)["fails"])
        new = {s: e for s, e in near.items() if s not in before}
        report_all(ctx, new)
        ctx.coverage["search_cases"] = len(hs) + (len(texts) if divs_d else 0)
        if not new:
            d = (divs_h + divs_d)[0]
            ctx.report("correspondence:monitor-model",
                       "model M6 and the real monitor/parser disagree under the C18 observation (%d cases, %d of them "
                       "where no monitor failed); the search around them found no failing input" % (ndivs, nunexpl),
                       {"broken": "correspondence Drivers/Monitor.lean vs PolicyDirectoryMonitor / read_policy_from_file",
                        "case": d}, no_input=True)


def search(ctx, broken):
    """a proof obligation broke: look for a failing input on the implementation alone (more cases than run)"""
    fails = {}
    tasks, _ = plan(ctx, with_model=False, more=4)
    scans = 0
    for r in pool_map(tasks):
        merge_fails(fails, r["fails"])
        scans += r.get("scans", 0) + r.get("documents", 0)
    report_all(ctx, fails)
    ctx.coverage["evaluations"] = scans
    ctx.coverage["rule"] = RULE


def replay(ctx, rep):
    r = rep.get("replay", rep)
    if r.get("kind") == "document":
        o = IM.impl_read(r["text"])
        IM.cleanup_read_dir()
        bad = check_document(r["text"], o)
        print("  document outcome:", o[0] if o[0] != "crash" else "crash %s" % o[1], "| reference verdict:", oracle_text(r["text"])[0])
    elif r.get("kind") == "history":
        im = IM.ImplMonitor()
        try:
            obs = run_impl_history(im, r["steps"])
        finally:
            im.close()
        fails, _ = monitor_history(r["steps"], obs)
        bad = [(s, w) for s, w, _ in fails]
        for i, (store, exn) in enumerate(obs):
            print("  scan %d: %s%s" % (i, {k: v[:50] for k, v in store.items() if k not in RESERVED},
                                       " EXCEPTION %s" % (exn,) if exn else ""))
    else:
        print("  nothing to replay (kind=%r)" % r.get("kind"))
        return True
    for s, w in bad:
        print("  monitor:", s, "-", w)
    return not bad
