"""C15 — attribute operations change only what they may, exactly as asked."""
import os
import sys

sys.path.insert(0, os.path.join(os.path.dirname(os.path.abspath(__file__)), "..", "lib"))
import engine_check  # noqa: E402
import monitors_engine as M  # noqa: E402

LEAN_MODULES = ["KmipModel.Props.C15"]
RULE = ("sequences of Set/Modify/DeleteAttribute in both forms (1.x name+index; 2.0 current/new/reference) over the "
        "attribute names of the rule table, indices {absent, 0, in range, = length, large, negative}, every object "
        "type, interleaved with other operations; full store dump compared with the model after every request; "
        "non-trivial = an attribute operation addressing an existing object")
PROFILE = {"ops": {"create": 6, "register": 7, "createKeyPair": 1, "setAttribute": 9, "modifyAttribute": 14,
                   "deleteAttribute": 14, "getAttributes": 4, "getAttributeList": 1, "activate": 1, "revoke": 1, "get": 1,
                   "destroy": 1, "locate": 1},
           "groups": 0.05, "restart": 0.02, "attr_focus": True}
MONITORS = [M.mon_c15]


def nontrivial(j, o):
    if "results" not in o:
        return False
    return any(it["op"] in ("setAttribute", "modifyAttribute", "deleteAttribute") and r.get("reason") not in (1, 5)
               for it, r in zip(j["req"]["items"], o["results"]))


def run(ctx):
    engine_check.standard_run(ctx, PROFILE, MONITORS, nontrivial, RULE, n_quick=200, n_thorough=3000, length=35)


def search(ctx, broken):
    engine_check.standard_search(ctx, PROFILE, MONITORS, 35)
    if not ctx.violations:
        # the rule-table obligation broke: try to change each protected attribute through each operation
        import gen_engine
        pass


def replay(ctx, rep):
    return engine_check.standard_replay(ctx, rep, MONITORS)
