"""C15 — attribute operations change only what they may, exactly as asked."""
import os
import sys

sys.path.insert(0, os.path.join(os.path.dirname(os.path.abspath(__file__)), "..", "lib"))
import engine_check  # noqa: E402
import monitors_engine as M  # noqa: E402

LEAN_MODULES = ["KmipModel.Props.C15"]
RULE = ("sequences of Set/Modify/DeleteAttribute in both forms (1.x name+index; 2.0 current/new/reference) over the "
        "attribute names of the rule table, indices {absent, 0, in range, = length, large, negative}, every object "
        "type, interleaved with other operations; a third of the requests are Continue batches of 2-4 attribute "
        "operations (a refused operation followed by one that commits: the refused one must leave nothing behind for "
        "the commit to make permanent); full store dump compared with the model after every request; "
        "non-trivial = an attribute operation addressing an existing object")
PROFILE = {"ops": {"create": 6, "register": 7, "createKeyPair": 1, "setAttribute": 9, "modifyAttribute": 14,
                   "deleteAttribute": 14, "getAttributes": 4, "getAttributeList": 1, "activate": 1, "revoke": 1, "get": 1,
                   "destroy": 1, "locate": 1},
           "groups": 0.05, "restart": 0.02, "attr_focus": True, "twins": 0.15}
MONITORS = [M.mon_c15]


def nontrivial(j, o):
    if "results" not in o:
        return False
    return any(it["op"] in ("setAttribute", "modifyAttribute", "deleteAttribute") and r.get("reason") not in (1, 5)
               for it, r in zip(j["req"]["items"], o["results"]))


ATTR_OPS = ["modifyAttribute", "modifyAttribute", "deleteAttribute", "setAttribute"]


def builder(g, E, do, length):
    for _ in range(length):
        if g.p(0.33):
            n = g.ch([2, 2, 3, 4])
            line = g.line(nitems=n, ops=[g.ch(ATTR_OPS) for _ in range(n)])
            line["req"]["bopt"] = 1
        else:
            line = g.line()
        do(line)
        do({"cmd": "dump"})
        if g.p(0.02):
            do({"cmd": "restart"})


def run(ctx):
    engine_check.standard_run(ctx, PROFILE, MONITORS, nontrivial, RULE, n_quick=200, n_thorough=3000, length=35,
                              builder="props.c15.builder")
    cov = dict(ctx.coverage)
    # scripted: every attribute-operation variant on a rich object, followed in the same batch by a commit elsewhere
    n = 30 if ctx.tier == "quick" else 400
    engine_check.standard_run(ctx, {"builtin_policies_only": True}, [M.mon_c15, M.mon_c08], nontrivial, RULE,
                              n_quick=n, n_thorough=n, length=14, builder="scen_engine.attr_commit_builder",
                              seeds=[ctx.seed * 1000003 + 800000 + i for i in range(n)])
    sc = dict(ctx.coverage)
    ctx.coverage.update(cov)
    ctx.coverage["evaluations"] = cov.get("evaluations", 0) + sc.get("evaluations", 0)
    ctx.coverage["distinct_nontrivial"] = cov.get("distinct_nontrivial", 0) + sc.get("distinct_nontrivial", 0)
    ctx.coverage["attribute_op_then_commit_part"] = {k: sc.get(k) for k in ("evaluations", "distinct_nontrivial",
                                                                             "correspondence_divergences")}
    engine_check.scenario_run(ctx, "scen_engine.same_values_builder", [M.mon_c15, M.mon_c03], nontrivial, RULE, 16, 300, 5,
                              "equal_values_two_owners_part", seed_base=830000)
    engine_check.scenario_run(ctx, "scen_engine.twin_builder", [M.mon_c15, M.mon_c03], nontrivial, RULE, 24, 400, 5,
                              "twin_users_groups_names_part", seed_base=880000)


def search(ctx, broken):
    engine_check.standard_search(ctx, PROFILE, MONITORS, 35, builder="props.c15.builder")
    if not ctx.violations:
        # the rule-table obligation broke: try to change each protected attribute through each operation
        import gen_engine
        pass


def replay(ctx, rep):
    return engine_check.standard_replay(ctx, rep, MONITORS)
