"""C09 — crash consistency: kill the server process at every statement / commit boundary."""
import json
import os
import shutil
import subprocess
import sys
import tempfile

HERE = os.path.dirname(os.path.abspath(__file__))
sys.path.insert(0, os.path.join(HERE, "..", "lib"))
LEAN_MODULES = ["KmipModel.Props.C09", "KmipModel.Props.C09Request"]
RULE = ("fault enumeration: for each state-changing operation (Create, CreateKeyPair, Register of several types, "
        "DeriveKey, Activate, Revoke, Destroy, Set/Modify/DeleteAttribute in both request forms) on a prepared database, "
        "a child process runs the real engine and is killed with os._exit immediately before every SQL write statement, "
        "immediately before and after the DBAPI COMMIT, and after the response was produced; the parent reopens the "
        "surviving file with a fresh engine, dumps every object and compares with the before / after stores; the "
        "recorded statement/commit/response trace of each complete run must have the shape the theorem assumes "
        "(all writes, one COMMIT, response); non-trivial = a kill point that falls inside the operation.  Whole requests: "
        "multi-item batches (Continue and Stop, with succeeding, failing, read-only and placeholder-linked items) are "
        "killed at statement boundaries, around every COMMIT and after the response; the surviving store must be the "
        "store after a prefix of the items (computed by complete runs of the prefix requests on the implementation), "
        "the final one once the response was produced; it is compared with the durable store the Lean model "
        "(requestRun / recoverReq, Drivers/Txn.lean) predicts after the same number of COMMITs, and the items that "
        "COMMIT are compared with the model's commit events")
ASSUMPTIONS = ["SQLite rollback-journal atomic commit and durability (process death, not power loss)"]
CHILD = os.path.join(HERE, "..", "lib", "crash_child.py")


def T(attrs):
    return {"tnames": 0, "attrs": attrs}


def A(name, kind, v, index=None, **kw):
    d = {"k": kind, "v": v}
    d.update(kw)
    return {"name": name, "index": index, "value": d}


def req(v, item, now=2000):
    return {"cmd": "req", "now": now, "id": {"user": "alice", "groups": None},
            "req": {"version": v, "ts": None, "async": None, "bopt": None, "maxsize": None, "items": [item]}}


def base_attrs():
    return [A("Cryptographic Algorithm", "enum", 3), A("Cryptographic Length", "int", 128),
            A("Cryptographic Usage Mask", "int", 0xFFFFFF)]


def operations():
    it = lambda op, **kw: dict({"op": op, "bid": None, "crypto": None}, **kw)
    ok16 = {"k": "ok", "t": "ab" * 16}
    ops = [
        ("create", 14, it("create", otype=2, tmpl=T(base_attrs() + [A("Name", "name", "n9", 0, t=1),
                                                                    A("Object Group", "text", "g", 0)]), crypto=ok16)),
        ("createKeyPair", 14, it("createKeyPair", common=T([A("Cryptographic Algorithm", "enum", 4),
                                                              A("Cryptographic Length", "int", 1024),
                                                              A("Cryptographic Usage Mask", "int", 3),
                                                              A("Name", "name", "pair", 0, t=1)]), priv=None, pub=None,
                                  crypto={"k": "ok2", "pub": "aa" * 8, "priv": "bb" * 8, "pubfmt": 3, "privfmt": 4})),
        ("register-secret", 14, it("register", otype=7, tmpl=T([A("Cryptographic Usage Mask", "int", 0x200),
                                                                A("Application Specific Information", "appinfo", None, 0)
                                                                | {"value": {"k": "appinfo", "ns": "ssl", "d": "www"}}]),
                                    obj={"otype": 7, "value": "0102", "alg": None, "len": None, "format": None, "subtype": 1})),
        ("register-cert", 14, it("register", otype=1, tmpl=T([A("Cryptographic Usage Mask", "int", 2)]),
                                  obj={"otype": 1, "value": "3003020101", "alg": None, "len": None, "format": None, "subtype": 1})),
        ("register-opaque", 14, it("register", otype=8, tmpl=T([]),
                                    obj={"otype": 8, "value": "0102", "alg": None, "len": None, "format": None, "subtype": 0x80000000})),
        ("deriveKey", 14, it("deriveKey", otype=2, uids=["1"], tmpl=T(base_attrs()), crypto=ok16)),
        ("activate", 14, it("activate", uid="2")),
        ("revoke", 14, it("revoke", uid="1", code=1)),
        ("revoke-compromise", 14, it("revoke", uid="2", code=2)),
        ("destroy", 14, it("destroy", uid="2")),
        ("destroy-compromised", 14, it("destroy", uid="3")),
        ("modify-name-1x", 14, it("modifyAttribute", uid="1", attr=A("Name", "name", "renamed", 1, t=1), current=None, new=None)),
        ("modify-group-20", 20, it("modifyAttribute", uid="1", attr=None, current=A("Object Group", "text", "g1"),
                                    new=A("Object Group", "text", "g9"))),
        ("set-sensitive-20", 20, it("setAttribute", uid="2", attr=A("Sensitive", "bool", True))),
        ("delete-name-1x", 14, it("deleteAttribute", uid="1", name="Name", index=0, current=None, reference=None)),
        ("delete-appinfo-20", 20, it("deleteAttribute", uid="1", name=None, index=None,
                                      current={"name": "Application Specific Information", "index": None,
                                               "value": {"k": "appinfo", "ns": "ssl", "d": "www"}}, reference=None)),
        ("delete-all-names-20", 20, it("deleteAttribute", uid="1", name=None, index=None, current=None, reference="Name")),
    ]
    return ops


def base_lines():
    """the history that prepares the store (the same lines are given to the Lean model)"""
    ok16 = {"k": "ok", "t": "cd" * 16}
    rich = base_attrs() + [A("Name", "name", "n0", 0, t=1), A("Name", "name", "n1", 1, t=1), A("Name", "name", "n2", 2, t=1),
                           A("Object Group", "text", "g1", 0), A("Object Group", "text", "g2", 1),
                           {"name": "Application Specific Information", "index": 0,
                            "value": {"k": "appinfo", "ns": "ssl", "d": "www"}}]
    ls = [req(14, {"op": "create", "bid": None, "crypto": ok16, "otype": 2, "tmpl": T(tm)}, now=1000)
          for tm in (rich, base_attrs(), base_attrs())]
    ls.append(req(14, {"op": "activate", "bid": None, "crypto": None, "uid": "1"}, now=1000))
    ls.append(req(14, {"op": "revoke", "bid": None, "crypto": None, "uid": "3", "code": 2}, now=1000))
    # a fourth object with two names, two groups, two application informations: the row ids of the attribute tables
    # are now ahead of the object identifiers (whatever keys rows by the wrong column shows at the next restart)
    two = base_attrs() + [A("Name", "name", "x0", 0, t=1), A("Name", "name", "x1", 1, t=1),
                          A("Object Group", "text", "g1", 0), A("Object Group", "text", "g3", 1),
                          {"name": "Application Specific Information", "index": 0, "value": {"k": "appinfo", "ns": "ssl", "d": "x"}},
                          {"name": "Application Specific Information", "index": 1, "value": {"k": "appinfo", "ns": "ns2", "d": "y"}}]
    ls.append(req(14, {"op": "create", "bid": None, "crypto": ok16, "otype": 2, "tmpl": T(two)}, now=1000))
    return ls


def prepare_base(path):
    """objects 1 (Active key, 3 names, groups, app info), 2 (Pre-Active key), 3 (Compromised key)"""
    import impl_engine
    E = impl_engine.ImplEngine()
    try:
        for ln in base_lines():
            E.handle(ln)
        before = E.dump()
        E.engine._data_store.dispose()
        shutil.copyfile(E.db, path)
    finally:
        E.close()
    return before


def breq(v, bopt, items, now=2000):
    return {"cmd": "req", "now": now, "id": {"user": "alice", "groups": None},
            "req": {"version": v, "ts": None, "async": None, "bopt": bopt, "maxsize": None, "items": items}}


def batches():
    """(name, version, batch option (1 = Continue, None = Stop), items) on the prepared store"""
    n = [0]

    def it(op, **kw):
        n[0] += 1
        return dict({"op": op, "bid": "b%d" % n[0], "crypto": None}, **kw)
    ok16 = {"k": "ok", "t": "ab" * 16}
    ok16b = {"k": "ok", "t": "ef" * 16}
    mk = lambda nm, cr: it("create", otype=2, tmpl=T(base_attrs() + [A("Name", "name", nm, 0, t=1)]), crypto=cr)
    pair = lambda: it("createKeyPair", common=T([A("Cryptographic Algorithm", "enum", 4), A("Cryptographic Length", "int", 1024),
                                                  A("Cryptographic Usage Mask", "int", 3)]), priv=None, pub=None,
                      crypto={"k": "ok2", "pub": "aa" * 8, "priv": "bb" * 8, "pubfmt": 3, "privfmt": 4})
    return [
        ("continue-mixed", 14, 1, [
            mk("bn1", ok16),                                             # succeeds, sets the placeholder
            it("activate", uid=None),                                   # on the placeholder
            it("destroy", uid="1"),                                     # fails: object 1 is Active
            it("deleteAttribute", uid="1", name="Name", index=0, current=None, reference=None),
            it("getAttributes", uid="2", names=[]),                     # read-only
            it("destroy", uid="3"),                                     # compromised key: succeeds
            it("modifyAttribute", uid="2", attr=A("Name", "name", "nope", 5, t=1), current=None, new=None),  # fails
            mk("bn2", ok16b)]),
        ("stop-at-failure", 14, None, [
            it("activate", uid="2"),
            it("revoke", uid="2", code=1),
            it("destroy", uid="1"),                                     # fails: the batch stops here
            mk("never", ok16)]),
        ("pair-then-attributes-20", 20, 1, [
            pair(),
            it("setAttribute", uid="2", attr=A("Sensitive", "bool", True)),
            it("activate", uid="77"),                                   # fails: no such object
            it("deleteAttribute", uid="1", name=None, index=None, current=None, reference="Name"),
            it("modifyAttribute", uid="1", attr=None, current=A("Object Group", "text", "g1"),
               new=A("Object Group", "text", "g9"))]),
    ]


def batch_case(args):
    name, line, base_db, kill = args
    wd = tempfile.mkdtemp(prefix="vcrashb")
    try:
        db = os.path.join(wd, "db.sqlite")
        shutil.copyfile(base_db, db)
        rc, evs, err = run_child(db, line, kill)
        objs, healthy = reopen_dump(db)
        return {"name": name, "kill": kill, "rc": rc, "events": [e for e in evs if e.get("ev") not in ("ack", "live-dump")],
                "acked": any(e.get("ev") == "ack" for e in evs),
                "ack_out": [e.get("out") for e in evs if e.get("ev") == "ack"],
                "commits_done": sum(1 for e in evs if e.get("ev") == "commit-done"),
                "live": ([e.get("objs") for e in evs if e.get("ev") == "live-dump"] or [None])[0],
                "objs_second_restart": reopen_dump(db)[0],
                "restart_change": RESTART_CHANGES.pop() if RESTART_CHANGES else None,
                "objs": objs, "healthy": healthy, "stderr": err if rc not in (0, 99) else ""}
    finally:
        shutil.rmtree(wd, ignore_errors=True)


def batch_part(ctx, pool, base_db, before):
    """whole requests: kill inside multi-item batches; prefix states from the implementation, durable states and
    commit events from the Lean model"""
    from diff_engine import obs_out
    from gen_engine import dumps
    bs = batches()
    # the model: base history, then for every batch its trace and its answer (reset in between)
    mlines, where = [], {}
    for name, v, bopt, items in bs:
        mlines.append(dumps({"cmd": "reset"}))
        mlines.extend(dumps(l) for l in base_lines())
        where[name] = len(mlines)
        mlines.append(dumps(dict(breq(v, bopt, items), cmd="trace")))
        mlines.append(dumps(breq(v, bopt, items)))
    mouts = ctx.run_model("Txn", mlines)
    jobs_full, jobs_prefix = [], []
    for name, v, bopt, items in bs:
        jobs_full.append((name, breq(v, bopt, items), base_db, "none"))
        for j in range(1, len(items)):
            jobs_prefix.append((name + ":prefix%d" % j, breq(v, bopt, items[:j]), base_db, "none"))
    full = pool.map(batch_case, jobs_full)
    pref = pool.map(batch_case, jobs_prefix)
    kills, divergences, distinct = [], [], set()
    info = {}
    for (name, v, bopt, items), fr in zip(bs, full):
        if fr["rc"] != 0 or not fr["acked"]:
            raise RuntimeError("complete run of batch %s failed: rc=%s %s" % (name, fr["rc"], fr["stderr"]))
        mt = json.loads(mouts[where[name]])
        mr = json.loads(mouts[where[name] + 1])
        out = fr["ack_out"][0]
        if obs_out(out) != obs_out(mr):
            divergences.append({"batch": name, "what": "results", "impl": obs_out(out), "model": obs_out(mr)})
        # states after each prefix of the items (implementation, complete runs)
        states = [before] + [p["objs"] for p in pref if p["name"].startswith(name + ":prefix")] + [fr["objs"]]
        evs = fr["events"]
        commit_items = [e.get("item") for e in evs if e["ev"] == "commit-done"]
        model_commits = [e[1] for e in mt.get("events", []) if e[0] == "c"]
        model_durable = [before] + [d for e, d in zip(mt.get("events", []), mt.get("durable", [])) if e[0] == "c"]
        if commit_items != model_commits:
            divergences.append({"batch": name, "what": "items that COMMIT", "impl": commit_items, "model": model_commits})
        # trace shape: the statements of an item that commits directly precede its one COMMIT; the response is last
        ok_shape, cur = True, None
        for e in evs:
            if e["ev"] == "stmt":
                cur = e.get("item")
            elif e["ev"] == "commit-begin":
                ok_shape = ok_shape and cur == e.get("item")
            elif e["ev"] == "commit-done":
                cur = None
        if not ok_shape or len(set(commit_items)) != len(commit_items):
            ctx.report("c09:trace-shape:batch:%s" % name, "the statement/commit trace of batch %s is not one transaction "
                       "per item (statements, then that item's single COMMIT): %s" % (name, [(e["ev"], e.get("item")) for e in evs]),
                       {"kind": "trace", "batch": name, "request": breq(v, bopt, items), "events": evs})
        nst = sum(1 for e in evs if e["ev"] == "stmt")
        ncm = len(commit_items)
        points = [str(k) for k in range(1, nst + 1)]
        if ctx.tier == "quick":
            # first and last statement of every item
            firsts, lasts, seen = [], {}, set()
            k = 0
            for e in evs:
                if e["ev"] == "stmt":
                    k += 1
                    if e.get("item") not in seen:
                        seen.add(e.get("item"))
                        firsts.append(str(k))
                    lasts[e.get("item")] = str(k)
            points = sorted(set(firsts) | set(lasts.values()), key=int)
        points += ["cB:%d" % k for k in range(1, ncm + 1)] + ["cA:%d" % k for k in range(1, ncm + 1)] + ["ack"]
        info[name] = {"states": states, "final": fr["objs"], "model_durable": model_durable, "items": len(items),
                      "statements": nst, "commits": ncm, "request": breq(v, bopt, items)}
        for k in points:
            kills.append((name, breq(v, bopt, items), base_db, k))
    res = pool.map(batch_case, kills, chunksize=2)
    for (name, line, _, k), r in zip(kills, res):
        distinct.add((name, k))
        I = info[name]
        rep = {"kind": "crash-batch", "batch": name, "request": line, "kill_at": k}
        if r["rc"] != 99:
            ctx.report("c09:child-did-not-die:batch:%s" % name, "child exit code %s at %s: %s" % (r["rc"], k, r["stderr"]), rep)
            continue
        if r.get("live") is not None and r["objs"] != r["live"]:
            ctx.report("c09:restart-lost-acknowledged-state:batch:%s" % name,
                       "batch %s was acknowledged (kill at %s); the living server saw %s, a server restarted on the file sees %s"
                       % (name, k, diff_objs(r["live"], r["objs"])[0], diff_objs(r["live"], r["objs"])[1]), rep)
        if r["objs_second_restart"] != r["objs"]:
            ctx.report("c09:second-restart-differs:batch:%s" % name,
                       "a second restart on the same file (kill at %s inside batch %s) sees another store than the first: %s"
                       % (k, name, diff_objs(r["objs"], r["objs_second_restart"])), rep)
        if not r["healthy"]:
            ctx.report("c09:store-unreadable-after-crash:batch:%s" % name,
                       "after a kill at %s inside batch %s the store cannot be listed/read consistently" % (k, name), rep)
        if r["objs"] not in I["states"]:
            ctx.report("c09:partial-state:batch:%s" % name,
                       "after a kill at %s inside batch %s the store is not the store after any prefix of its items" % (k, name), rep)
        elif r["acked"] and r["objs"] != I["final"]:
            ctx.report("c09:acknowledged-lost:batch:%s" % name,
                       "batch %s was answered before the kill at %s but its effects are not all in the store" % (name, k), rep)
        elif r["commits_done"] == 0 and r["objs"] != I["states"][0]:
            ctx.report("c09:visible-before-commit:batch:%s" % name,
                       "a kill before the first COMMIT (at %s) of batch %s left changes" % (k, name), rep)
        else:
            m = r["commits_done"]
            if m < len(I["model_durable"]) and r["objs"] != I["model_durable"][m]:
                divergences.append({"batch": name, "what": "durable store after %d COMMITs (kill at %s)" % (m, k),
                                    "impl": r["objs"], "model": I["model_durable"][m]})
    if divergences:
        ctx.report("correspondence:request-transactions", "the request-level transaction model (requestRun) and the engine "
                   "disagree: %s" % json.dumps(divergences[0])[:600],
                   {"broken": "correspondence Drivers/Txn.lean (KmipModel/TxnRequest.lean) vs KmipEngine on whole batches",
                    "cases": divergences[:3]}, no_input=True)
    return {"batch_kills": len(kills), "batch_prefix_runs": len(jobs_prefix), "batches": {n: {k: I[k] for k in ("items", "statements", "commits")}
                                                                                         for n, I in info.items()},
            "batch_model_divergences": len(divergences), "batch_distinct": len(distinct)}


def run_child(db, line, kill_at):
    p = subprocess.run(["/venv/bin/python", CHILD, "--db", db, "--line", json.dumps(line), "--kill-at", kill_at],
                       stdout=subprocess.PIPE, stderr=subprocess.PIPE, text=True, timeout=120)
    evs = []
    for ln in p.stdout.splitlines():
        try:
            evs.append(json.loads(ln))
        except ValueError:
            pass
    return p.returncode, evs, p.stderr[-800:]


def reopen_dump(db):
    """fresh engine on the surviving file: dump everything through the ORM + raw table consistency"""
    import impl_engine
    import sqlite3
    E = impl_engine.ImplEngine.__new__(impl_engine.ImplEngine)
    impl_engine.quiet()
    import copy
    E.dir = os.path.dirname(db)
    E.db = db
    E.scripted = True
    E.clock = impl_engine.CLOCK
    impl_engine.engine_mod.time = impl_engine.CLOCK
    E.policies = copy.deepcopy(impl_engine.core_policy.policies)
    E._scripts = []
    E._item = -1
    E.internal_errors = []
    # (nothing opens the file before the server does: a reader's connection would run SQLite's own recovery - and in
    # WAL mode checkpoint the log into the file when it closes - i.e. repair what the restarted SERVER must cope with)
    E._open()
    try:
        d = E.dump()
        # every identifier can be located and read back by its owner
        loc = E.handle(req(14, {"op": "locate", "bid": None, "crypto": None, "max": None, "offset": None, "attrs": []}))
        uids = (loc["results"][0].get("data") or {}).get("uids", [])
        readable = True
        for u in uids:
            g = E.handle(req(14, {"op": "getAttributes", "bid": None, "crypto": None, "uid": u, "names": []}))
            if g["results"][0]["status"] != "ok":
                readable = False
    finally:
        E.engine._data_store.dispose()
    con = sqlite3.connect(db)
    try:
        base = [r[0] for r in con.execute("select uid from managed_objects")]
        consistent = sorted(base) == sorted(o["uid"] for o in d["objs"])
    finally:
        con.close()
    return d["objs"], (readable and consistent and sorted(int(u) for u in uids) == sorted(o["uid"] for o in d["objs"]))


RESTART_CHANGES = []       # informational only: a start-up that tidies orphaned rows is not a violation


def diff_objs(a, b):
    """(what the first store says, what the second says) about the objects on which they differ"""
    A = {o["uid"]: o for o in (a or [])}
    B = {o["uid"]: o for o in (b or [])}
    da, db = {}, {}
    for u in sorted(set(A) | set(B)):
        if A.get(u) != B.get(u):
            keys = sorted(k for k in set(A.get(u) or {}) | set(B.get(u) or {}) if (A.get(u) or {}).get(k) != (B.get(u) or {}).get(k))
            da[u] = None if u not in A else {k: A[u].get(k) for k in keys}
            db[u] = None if u not in B else {k: B[u].get(k) for k in keys}
    return da, db


def raw_rows(db):
    """{table: sorted rows} read with sqlite3 alone (opening the file rolls back a hot journal, as any reader would)"""
    import sqlite3
    con = sqlite3.connect(db)
    try:
        out = {}
        for (t,) in con.execute("select name from sqlite_master where type='table' and name not like 'sqlite_%'").fetchall():
            out[t] = sorted(repr(r) for r in con.execute('select * from "%s"' % t).fetchall())
        return out
    finally:
        con.close()


def one_case(args):
    name, version, item, base_db, kill = args
    wd = tempfile.mkdtemp(prefix="vcrash")
    try:
        db = os.path.join(wd, "db.sqlite")
        shutil.copyfile(base_db, db)
        rc, evs, err = run_child(db, req(version, item), kill)
        objs, healthy = reopen_dump(db)
        return {"name": name, "kill": kill, "rc": rc, "events": [e for e in evs if e.get("ev") not in ("ack", "live-dump")],
                "acked": any(e.get("ev") == "ack" for e in evs),
                "ack_out": [e.get("out") for e in evs if e.get("ev") == "ack"],
                "committed_seen": any(e.get("ev") == "commit-done" for e in evs),
                "live": ([e.get("objs") for e in evs if e.get("ev") == "live-dump"] or [None])[0],
                "objs_second_restart": reopen_dump(db)[0],
                "restart_change": RESTART_CHANGES.pop() if RESTART_CHANGES else None,
                "objs": objs, "healthy": healthy, "stderr": err if rc not in (0, 99) else ""}
    finally:
        shutil.rmtree(wd, ignore_errors=True)


# ------------------------------------------------------------------ death during the very first start
def startup_case(args):
    """a server started on a NEW file dies before the k-th schema statement; a server restarted on that file must open
    it, create an object, list and read it back ("never ... a store the server can no longer open and list")"""
    k, = args
    wd = tempfile.mkdtemp(prefix="vcrashs")
    try:
        db = os.path.join(wd, "db.sqlite")
        p = subprocess.run(["/venv/bin/python", CHILD, "--db", db, "--startup-kill", str(k)],
                           stdout=subprocess.PIPE, stderr=subprocess.PIPE, text=True, timeout=120)
        if k == "count":
            for ln in p.stdout.splitlines():
                try:
                    return {"k": k, "count": json.loads(ln)["schema_statements"]}
                except Exception:
                    pass
            return {"k": k, "count": 0, "stderr": p.stderr[-400:]}
        out = {"k": k, "rc": p.returncode, "problems": []}
        try:
            objs, healthy = reopen_dump(db)
            if not healthy or objs:
                out["problems"].append("after the restart the store is not an empty, listable store: %d objects, healthy %s"
                                       % (len(objs), healthy))
        except Exception as e:
            out["problems"].append("the restarted server cannot open / list the store: %s: %s" % (type(e).__name__, str(e)[:200]))
            return out
        import impl_engine
        E = impl_engine.ImplEngine.__new__(impl_engine.ImplEngine)
        E.dir, E.db, E.scripted, E.clock = wd, db, True, impl_engine.CLOCK
        import copy
        E.policies = copy.deepcopy(impl_engine.core_policy.policies)
        E._scripts, E._item, E.internal_errors = [], -1, []
        E._open()
        try:
            for name, v, it in operations()[:5]:
                o = E.handle(req(v, it))
                st = ((o.get("results") or [{}])[0]).get("status")
                if st != "ok" and name not in ("deriveKey",):
                    out["problems"].append("%s on the restarted server is answered %s" % (name, (o.get("results") or [o])[0]))
        finally:
            E.engine._data_store.dispose()
        return out
    finally:
        shutil.rmtree(wd, ignore_errors=True)


def startup_part(ctx, pool):
    n = startup_case(("count",)).get("count") or 0
    ks = list(range(1, n + 1))
    res = pool.map(startup_case, [(k,) for k in ks])
    for r in res:
        if r.get("rc") != 99:
            ctx.report("c09:child-did-not-die:startup", "child exit code %s at schema statement %s" % (r.get("rc"), r["k"]),
                       {"kind": "startup", "k": r["k"]})
        for pr in r["problems"][:2]:
            ctx.report("c09:store-unusable-after-crash-during-first-start",
                       "the server died before schema statement %d of %d of its first start on a new file; %s" % (r["k"], n, pr),
                       {"kind": "startup", "k": r["k"]})
    return {"first_start_schema_statements": n, "first_start_kill_points": len(ks)}


def run(ctx):
    import multiprocessing
    wd = tempfile.mkdtemp(prefix="vcrashbase")
    try:
        base_db = os.path.join(wd, "base.sqlite")
        before = prepare_base(base_db)["objs"]
        ops = operations()
        # 1. complete runs: after-state, trace shape, number of statements
        with multiprocessing.get_context("fork").Pool(16) as pool:
            full = pool.map(one_case, [(n, v, it, base_db, "none") for n, v, it in ops])
            plans = {}
            jobs = []
            for (n, v, it), fr in zip(ops, full):
                if fr["rc"] != 0 or not fr["acked"]:
                    raise RuntimeError("complete run of %s failed: rc=%s %s" % (n, fr["rc"], fr["stderr"]))
                out = fr["ack_out"][0]
                if out["results"][0]["status"] != "ok":
                    raise RuntimeError("operation %s did not succeed on the prepared store: %s" % (n, out))
                kinds = [e["ev"] for e in fr["events"]]
                nst = kinds.count("stmt")
                plans[n] = {"statements": [e["sql"] for e in fr["events"] if e["ev"] == "stmt"], "after": fr["objs"]}
                shape_ok = kinds == ["stmt"] * nst + ["commit-begin", "commit-done"] and nst >= 1
                if not shape_ok:
                    ctx.report("c09:trace-shape:%s" % n,
                               "the statement/commit trace of %s is %s; the theorem assumes writes, one COMMIT, response" % (n, kinds),
                               {"kind": "trace", "op": n, "item": it, "events": fr["events"]})
                points = [str(k) for k in range(1, nst + 1)] + ["cB", "cA", "ack"]
                if ctx.tier == "quick" and len(points) > 9:
                    points = points[:3] + points[-5:]
                for k in points:
                    jobs.append((n, v, it, base_db, k))
            res = pool.map(one_case, jobs, chunksize=2)
            bcov = batch_part(ctx, pool, base_db, before)
            bcov.update(startup_part(ctx, pool))
        distinct = set()
        for (n, v, it, _, k), r in zip(jobs, res):
            distinct.add((n, k))
            after = plans[n]["after"]
            same_before, same_after = r["objs"] == before, r["objs"] == after
            rep = {"kind": "crash", "op": n, "version": v, "item": it, "kill_at": k}
            if r["rc"] not in (99,):
                ctx.report("c09:child-did-not-die:%s" % n, "child exit code %s at %s: %s" % (r["rc"], k, r["stderr"]), rep)
                continue
            if r.get("live") is not None and r["objs"] != r["live"]:
                ctx.report("c09:restart-lost-acknowledged-state:%s" % n,
                           "%s was acknowledged (kill at %s); the living server saw %s, a server restarted on the file sees %s"
                           % (n, k, diff_objs(r["live"], r["objs"])[0], diff_objs(r["live"], r["objs"])[1]), rep)
            if r["objs_second_restart"] != r["objs"]:
                ctx.report("c09:second-restart-differs:%s" % n,
                           "a second restart on the same file (kill at %s of %s) sees another store than the first: %s"
                           % (k, n, diff_objs(r["objs"], r["objs_second_restart"])), rep)
            if not r["healthy"]:
                ctx.report("c09:store-unreadable-after-crash:%s" % n,
                           "after a kill at %s of %s the store cannot be listed/read consistently" % (k, n), rep)
            if not (same_before or same_after):
                ctx.report("c09:partial-state:%s" % n,
                           "after a kill at %s of %s the store is neither the state before nor after the operation" % (k, n), rep)
            if r["acked"] and not same_after:
                ctx.report("c09:acknowledged-lost:%s" % n, "%s was acknowledged before the kill at %s but is not in effect" % (n, k), rep)
            if k == "cA" and not same_after:
                ctx.report("c09:committed-lost:%s" % n, "COMMIT returned but %s is not in effect after restart" % n, rep)
            if k not in ("cA", "ack") and not same_before:
                ctx.report("c09:visible-before-commit:%s" % n, "a kill before COMMIT (at %s) of %s left changes" % (k, n), rep)
        ctx.coverage.update({
            "evaluations": len(jobs) + len(ops) + bcov["batch_kills"] + bcov["batch_prefix_runs"] + bcov.get("first_start_kill_points", 0),
            "distinct_nontrivial": len(distinct) + bcov["batch_distinct"], "rule": RULE,
            "samples": [{"op": ops[0][0], "statements": plans[ops[0][0]]["statements"], "kill_points": "1..n, cB, cA, ack"}],
            "operations": [n for n, _, _ in ops], "kills": len(jobs),
            "statements_per_operation": {n: len(p["statements"]) for n, p in plans.items()},
            "traces_validated_against_impl": len(ops) + len(bcov["batches"]), "exhaustive": ctx.tier != "quick"})
        ctx.coverage.update(bcov)
    finally:
        shutil.rmtree(wd, ignore_errors=True)
    # a restart is also a restart on the file an EARLIER life of the server - earlier code - wrote: what that life
    # acknowledged (corpus/legacy_db with its manifest) is what the restarted server serves; histories with further
    # restarts on it (the durability and identifier monitors of the old-file part, under this property's name)
    import legacy_db_check

    class _Here(object):
        def __init__(self, c):
            self.__dict__["c"] = c

        def __getattr__(self, k):
            return getattr(self.c, k)

        def __setattr__(self, k, v):
            setattr(self.c, k, v)

        def report(self, sig, what, rep=None, **kw):
            return self.c.report(sig.replace("c07:legacy:", "c09:restart-on-old-file:", 1), what, rep, **kw)
    legacy_db_check.hook(_Here(ctx), "c07")


def search(ctx, broken):
    run(ctx)


def replay(ctx, rep):
    import legacy_db_check
    if legacy_db_check.is_mine(rep):
        return legacy_db_check.replay(ctx, rep)
    r = rep.get("replay", rep)
    c2 = type(ctx)(ctx.pid, "thorough", ctx.seed, None)
    run(c2)
    bad = [v for v in c2.violations if r.get("op", "") in v["signature"]]
    return not bad
