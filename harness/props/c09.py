"""C09 — crash consistency: kill the server process at every statement / commit boundary."""
import json
import os
import shutil
import subprocess
import sys
import tempfile

HERE = os.path.dirname(os.path.abspath(__file__))
sys.path.insert(0, os.path.join(HERE, "..", "lib"))
LEAN_MODULES = ["KmipModel.Props.C09"]
RULE = ("fault enumeration: for each state-changing operation (Create, CreateKeyPair, Register of several types, "
        "DeriveKey, Activate, Revoke, Destroy, Set/Modify/DeleteAttribute in both request forms) on a prepared database, "
        "a child process runs the real engine and is killed with os._exit immediately before every SQL write statement, "
        "immediately before and after the DBAPI COMMIT, and after the response was produced; the parent reopens the "
        "surviving file with a fresh engine, dumps every object and compares with the before / after stores; the "
        "recorded statement/commit/response trace of each complete run must have the shape the theorem assumes "
        "(all writes, one COMMIT, response); non-trivial = a kill point that falls inside the operation")
ASSUMPTIONS = ["SQLite rollback-journal atomic commit and durability (process death, not power loss)"]
CHILD = os.path.join(HERE, "..", "lib", "crash_child.py")


def T(attrs):
    return {"tnames": 0, "attrs": attrs}


def A(name, kind, v, index=None, **kw):
    d = {"k": kind, "v": v}
    d.update(kw)
    return {"name": name, "index": index, "value": d}


def req(v, item, now=2000):
    return {"cmd": "req", "now": now, "id": {"user": "alice", "groups": None},
            "req": {"version": v, "ts": None, "async": None, "bopt": None, "maxsize": None, "items": [item]}}


def base_attrs():
    return [A("Cryptographic Algorithm", "enum", 3), A("Cryptographic Length", "int", 128),
            A("Cryptographic Usage Mask", "int", 0xFFFFFF)]


def operations():
    it = lambda op, **kw: dict({"op": op, "bid": None, "crypto": None}, **kw)
    ok16 = {"k": "ok", "t": "ab" * 16}
    ops = [
        ("create", 14, it("create", otype=2, tmpl=T(base_attrs() + [A("Name", "name", "n9", 0, t=1),
                                                                    A("Object Group", "text", "g", 0)]), crypto=ok16)),
        ("createKeyPair", 14, it("createKeyPair", common=T([A("Cryptographic Algorithm", "enum", 4),
                                                              A("Cryptographic Length", "int", 1024),
                                                              A("Cryptographic Usage Mask", "int", 3),
                                                              A("Name", "name", "pair", 0, t=1)]), priv=None, pub=None,
                                  crypto={"k": "ok2", "pub": "aa" * 8, "priv": "bb" * 8, "pubfmt": 3, "privfmt": 4})),
        ("register-secret", 14, it("register", otype=7, tmpl=T([A("Cryptographic Usage Mask", "int", 0x200),
                                                                A("Application Specific Information", "appinfo", None, 0)
                                                                | {"value": {"k": "appinfo", "ns": "ssl", "d": "www"}}]),
                                    obj={"otype": 7, "value": "0102", "alg": None, "len": None, "format": None, "subtype": 1})),
        ("register-cert", 14, it("register", otype=1, tmpl=T([A("Cryptographic Usage Mask", "int", 2)]),
                                  obj={"otype": 1, "value": "3003020101", "alg": None, "len": None, "format": None, "subtype": 1})),
        ("register-opaque", 14, it("register", otype=8, tmpl=T([]),
                                    obj={"otype": 8, "value": "0102", "alg": None, "len": None, "format": None, "subtype": 0x80000000})),
        ("deriveKey", 14, it("deriveKey", otype=2, uids=["1"], tmpl=T(base_attrs()), crypto=ok16)),
        ("activate", 14, it("activate", uid="2")),
        ("revoke", 14, it("revoke", uid="1", code=1)),
        ("revoke-compromise", 14, it("revoke", uid="2", code=2)),
        ("destroy", 14, it("destroy", uid="2")),
        ("destroy-compromised", 14, it("destroy", uid="3")),
        ("modify-name-1x", 14, it("modifyAttribute", uid="1", attr=A("Name", "name", "renamed", 1, t=1), current=None, new=None)),
        ("modify-group-20", 20, it("modifyAttribute", uid="1", attr=None, current=A("Object Group", "text", "g1"),
                                    new=A("Object Group", "text", "g9"))),
        ("set-sensitive-20", 20, it("setAttribute", uid="2", attr=A("Sensitive", "bool", True))),
        ("delete-name-1x", 14, it("deleteAttribute", uid="1", name="Name", index=0, current=None, reference=None)),
        ("delete-appinfo-20", 20, it("deleteAttribute", uid="1", name=None, index=None,
                                      current={"name": "Application Specific Information", "index": None,
                                               "value": {"k": "appinfo", "ns": "ssl", "d": "www"}}, reference=None)),
        ("delete-all-names-20", 20, it("deleteAttribute", uid="1", name=None, index=None, current=None, reference="Name")),
    ]
    return ops


def prepare_base(path):
    """objects 1 (Active key, 3 names, groups, app info), 2 (Pre-Active key), 3 (Compromised key)"""
    import impl_engine
    E = impl_engine.ImplEngine()
    try:
        ok16 = {"k": "ok", "t": "cd" * 16}
        rich = base_attrs() + [A("Name", "name", "n0", 0, t=1), A("Name", "name", "n1", 1, t=1), A("Name", "name", "n2", 2, t=1),
                               A("Object Group", "text", "g1", 0), A("Object Group", "text", "g2", 1),
                               {"name": "Application Specific Information", "index": 0,
                                "value": {"k": "appinfo", "ns": "ssl", "d": "www"}}]
        for tm in (rich, base_attrs(), base_attrs()):
            E.handle(req(14, {"op": "create", "bid": None, "crypto": ok16, "otype": 2, "tmpl": T(tm)}, now=1000))
        E.handle(req(14, {"op": "activate", "bid": None, "crypto": None, "uid": "1"}, now=1000))
        E.handle(req(14, {"op": "revoke", "bid": None, "crypto": None, "uid": "3", "code": 2}, now=1000))
        before = E.dump()
        E.engine._data_store.dispose()
        shutil.copyfile(E.db, path)
    finally:
        E.close()
    return before


def run_child(db, line, kill_at):
    p = subprocess.run(["/venv/bin/python", CHILD, "--db", db, "--line", json.dumps(line), "--kill-at", kill_at],
                       stdout=subprocess.PIPE, stderr=subprocess.PIPE, text=True, timeout=120)
    evs = []
    for ln in p.stdout.splitlines():
        try:
            evs.append(json.loads(ln))
        except ValueError:
            pass
    return p.returncode, evs, p.stderr[-800:]


def reopen_dump(db):
    """fresh engine on the surviving file: dump everything through the ORM + raw table consistency"""
    import impl_engine
    import sqlite3
    E = impl_engine.ImplEngine.__new__(impl_engine.ImplEngine)
    impl_engine.quiet()
    import copy
    E.dir = os.path.dirname(db)
    E.db = db
    E.scripted = True
    E.clock = impl_engine.CLOCK
    impl_engine.engine_mod.time = impl_engine.CLOCK
    E.policies = copy.deepcopy(impl_engine.core_policy.policies)
    E._scripts = []
    E._item = -1
    E.internal_errors = []
    E._open()
    try:
        d = E.dump()
        # every identifier can be located and read back by its owner
        loc = E.handle(req(14, {"op": "locate", "bid": None, "crypto": None, "max": None, "offset": None, "attrs": []}))
        uids = (loc["results"][0].get("data") or {}).get("uids", [])
        readable = True
        for u in uids:
            g = E.handle(req(14, {"op": "getAttributes", "bid": None, "crypto": None, "uid": u, "names": []}))
            if g["results"][0]["status"] != "ok":
                readable = False
    finally:
        E.engine._data_store.dispose()
    con = sqlite3.connect(db)
    try:
        base = [r[0] for r in con.execute("select uid from managed_objects")]
        consistent = sorted(base) == sorted(o["uid"] for o in d["objs"])
    finally:
        con.close()
    return d["objs"], (readable and consistent and sorted(int(u) for u in uids) == sorted(o["uid"] for o in d["objs"]))


def one_case(args):
    name, version, item, base_db, kill = args
    wd = tempfile.mkdtemp(prefix="vcrash")
    try:
        db = os.path.join(wd, "db.sqlite")
        shutil.copyfile(base_db, db)
        rc, evs, err = run_child(db, req(version, item), kill)
        objs, healthy = reopen_dump(db)
        return {"name": name, "kill": kill, "rc": rc, "events": [e for e in evs if e.get("ev") != "ack"],
                "acked": any(e.get("ev") == "ack" for e in evs),
                "ack_out": [e.get("out") for e in evs if e.get("ev") == "ack"],
                "committed_seen": any(e.get("ev") == "commit-done" for e in evs),
                "objs": objs, "healthy": healthy, "stderr": err if rc not in (0, 99) else ""}
    finally:
        shutil.rmtree(wd, ignore_errors=True)


def run(ctx):
    import multiprocessing
    wd = tempfile.mkdtemp(prefix="vcrashbase")
    try:
        base_db = os.path.join(wd, "base.sqlite")
        before = prepare_base(base_db)["objs"]
        ops = operations()
        # 1. complete runs: after-state, trace shape, number of statements
        with multiprocessing.get_context("fork").Pool(16) as pool:
            full = pool.map(one_case, [(n, v, it, base_db, "none") for n, v, it in ops])
            plans = {}
            jobs = []
            for (n, v, it), fr in zip(ops, full):
                if fr["rc"] != 0 or not fr["acked"]:
                    raise RuntimeError("complete run of %s failed: rc=%s %s" % (n, fr["rc"], fr["stderr"]))
                out = fr["ack_out"][0]
                if out["results"][0]["status"] != "ok":
                    raise RuntimeError("operation %s did not succeed on the prepared store: %s" % (n, out))
                kinds = [e["ev"] for e in fr["events"]]
                nst = kinds.count("stmt")
                plans[n] = {"statements": [e["sql"] for e in fr["events"] if e["ev"] == "stmt"], "after": fr["objs"]}
                shape_ok = kinds == ["stmt"] * nst + ["commit-begin", "commit-done"] and nst >= 1
                if not shape_ok:
                    ctx.report("c09:trace-shape:%s" % n,
                               "the statement/commit trace of %s is %s; the theorem assumes writes, one COMMIT, response" % (n, kinds),
                               {"kind": "trace", "op": n, "item": it, "events": fr["events"]})
                points = [str(k) for k in range(1, nst + 1)] + ["cB", "cA", "ack"]
                if ctx.tier == "quick" and len(points) > 9:
                    points = points[:3] + points[-5:]
                for k in points:
                    jobs.append((n, v, it, base_db, k))
            res = pool.map(one_case, jobs, chunksize=2)
        distinct = set()
        for (n, v, it, _, k), r in zip(jobs, res):
            distinct.add((n, k))
            after = plans[n]["after"]
            same_before, same_after = r["objs"] == before, r["objs"] == after
            rep = {"kind": "crash", "op": n, "version": v, "item": it, "kill_at": k}
            if r["rc"] not in (99,):
                ctx.report("c09:child-did-not-die:%s" % n, "child exit code %s at %s: %s" % (r["rc"], k, r["stderr"]), rep)
                continue
            if not r["healthy"]:
                ctx.report("c09:store-unreadable-after-crash:%s" % n,
                           "after a kill at %s of %s the store cannot be listed/read consistently" % (k, n), rep)
            if not (same_before or same_after):
                ctx.report("c09:partial-state:%s" % n,
                           "after a kill at %s of %s the store is neither the state before nor after the operation" % (k, n), rep)
            if r["acked"] and not same_after:
                ctx.report("c09:acknowledged-lost:%s" % n, "%s was acknowledged before the kill at %s but is not in effect" % (n, k), rep)
            if k == "cA" and not same_after:
                ctx.report("c09:committed-lost:%s" % n, "COMMIT returned but %s is not in effect after restart" % n, rep)
            if k not in ("cA", "ack") and not same_before:
                ctx.report("c09:visible-before-commit:%s" % n, "a kill before COMMIT (at %s) of %s left changes" % (k, n), rep)
        ctx.coverage.update({
            "evaluations": len(jobs) + len(ops), "distinct_nontrivial": len(distinct), "rule": RULE,
            "samples": [{"op": ops[0][0], "statements": plans[ops[0][0]]["statements"], "kill_points": "1..n, cB, cA, ack"}],
            "operations": [n for n, _, _ in ops], "kills": len(jobs),
            "statements_per_operation": {n: len(p["statements"]) for n, p in plans.items()},
            "traces_validated_against_impl": len(ops), "exhaustive": ctx.tier != "quick"})
    finally:
        shutil.rmtree(wd, ignore_errors=True)


def search(ctx, broken):
    run(ctx)


def replay(ctx, rep):
    r = rep.get("replay", rep)
    c2 = type(ctx)(ctx.pid, "thorough", ctx.seed, None)
    run(c2)
    bad = [v for v in c2.violations if r.get("op", "") in v["signature"]]
    return not bad
