"""C14 — Locate = slice . sort . filter(matches) . filter(permitted)."""
import os
import sys

sys.path.insert(0, os.path.join(os.path.dirname(os.path.abspath(__file__)), "..", "lib"))
import engine_check  # noqa: E402
import monitors_engine as M  # noqa: E402

LEAN_MODULES = ["KmipModel.Props.C14", "KmipModel.Props.C14Table"]
RULE = ("random stores (mixed object types, owners, policies, states, dates with ties) x conjunctions of 0-4 filters "
        "drawn from the attributes the property lists (incl. filters inapplicable to some stored types and repeated "
        "dates) x offset/maximum pairs x requesters; the expected identifier list is recomputed from the store dump by "
        "an independent predicate; non-trivial = a Locate over a store with >= 2 visible objects and >= 1 filter or a "
        "slice; distinct = distinct (request, identity, outcome)")
PROFILE = {"ops": {"create": 8, "register": 10, "createKeyPair": 2, "locate": 40, "activate": 3, "revoke": 2,
                   "destroy": 1, "modifyAttribute": 2, "deleteAttribute": 1, "deriveKey": 1},
           "groups": 0.1, "restart": 0.02, "locate_listed_only": True, "single": True, "locate_extras": 0.15, "twins": 0.1}
MONITORS = [M.mon_c14]


def builder(g, E, do, length):
    for _ in range(length):
        line = g.line(nitems=1)
        do(line)
        do({"cmd": "dump"})


def big_builder(g, E, do, length):
    """a store of 100-260 objects (window sizes, page sizes and batch sizes of any implementation lie below), created
    in batches so that many share their Initial Date, key pairs included; then unfiltered, filtered and paged Locates"""
    from gen_engine import hexof
    n_target = g.ch([101, 120, 199, 201, 260])
    made = 0
    while made < n_target:
        items = []
        for k in range(g.ch([5, 8, 10])):
            if g.p(0.12):
                it = g.item(op="createKeyPair", version=14)
                made += 2
            else:
                it = g.item(op=g.ch(["create", "create", "register"]), version=14)
                made += 1
            it["bid"] = "m%d" % k
            items.append(it)
        if g.p(0.25):
            g.now += 1
        do({"cmd": "req", "now": g.now, "id": {"user": g.ch(["alice", "alice", "bob"]), "groups": None},
            "req": {"version": 14, "ts": None, "async": None, "bopt": 1, "maxsize": None, "items": items}})
    do({"cmd": "dump"})
    for _ in range(length):
        it = g.item(op="locate", version=14)
        if g.p(0.5):
            it["attrs"] = []
        if g.p(0.6):
            it["max"] = g.ch([None, 25, 50, 99, 100, 101, 150])
            it["offset"] = g.ch([None, 0, 1, 25, 75, 99, 100, 101, 200])
        it["bid"] = None
        do({"cmd": "req", "now": g.now, "id": {"user": g.ch(["alice", "alice", "bob"]), "groups": None},
            "req": {"version": 14, "ts": None, "async": None, "bopt": None, "maxsize": None, "items": [it]}})
        do({"cmd": "dump"})


def nontrivial(j, o):
    if "results" not in o:
        return False
    it = j["req"]["items"][0]
    return it["op"] == "locate" and (it["attrs"] or it.get("offset") or it.get("max") is not None)


def run(ctx):
    engine_check.standard_run(ctx, PROFILE, MONITORS, nontrivial, RULE, n_quick=160, n_thorough=3000, length=40,
                              builder="props.c14.builder")
    # stores of more than a hundred objects with many equal Initial Dates
    engine_check.scenario_run(ctx, "props.c14.big_builder", MONITORS, nontrivial, RULE, 8, 120, 12, "large_store_part",
                              seed_base=840000, profile=dict(PROFILE, builtin_policies_only=True))


def search(ctx, broken):
    engine_check.standard_search(ctx, PROFILE, MONITORS, 40, builder="props.c14.builder")


def replay(ctx, rep):
    return engine_check.standard_replay(ctx, rep, MONITORS)
