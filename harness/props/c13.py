"""C13 — well-formed requests never hit the internal-error path (General Failure)."""
import os
import sys

sys.path.insert(0, os.path.join(os.path.dirname(os.path.abspath(__file__)), "..", "lib"))
import engine_check  # noqa: E402
import diff_engine  # noqa: E402

LEAN_MODULES = ["KmipModel.Props.C13", "KmipModel.Props.C13Decode", "KmipModel.Props.ServerWF"]   # Drivers/WellTyped.lean, Drivers/Decode.lean
LEANCHECKER = True
RULE = ("grid: operation x stored object type (8 kinds incl. RSA pair, split key) x lifecycle state x KMIP version x "
        "parameter menu (valid, absent-optional, inapplicable-to-type, unknown / x- attribute name, every attribute "
        "name of the rule table in both request forms, unsupported algorithm / mode / padding / derivation method, "
        "odd IV / tag / data lengths) with the REAL cryptography backend, whose answers are recorded and handed to "
        "the Lean model as its oracle; quick samples the grid, thorough runs it completely; plus seeded histories and "
        "scripted batches [an item of any operation, reads included; an item naming no identifier, for each of the 14 "
        "placeholder-reading operations]; "
        "non-trivial = every grid cell; distinct = distinct (request, outcome)")
ASSUMPTIONS = ["ill-formed requests are outside the property: Query without a query function, DeriveKey without a "
               "base object, payload fields the protocol makes mandatory left out"]
VERS = [10, 11, 12, 13, 14, 20]
ALLMASK = 0xFFFFFF


def mon_c13(h, outs):
    fails = []
    for i, (j, o) in enumerate(zip(h, outs)):
        if j.get("cmd") != "req" or not isinstance(o, dict) or "results" not in o:
            continue
        ee = o.get("_encode_error")
        if ee:
            # the engine answered, but the session cannot encode the answer: the client receives General Failure
            for k in (ee.get("items") or [None]):
                it = j["req"]["items"][k] if k is not None and k < len(j["req"]["items"]) else {"op": "?"}
                fails.append(("c13:%s:response-unencodable:%s@%s" % (it["op"], ee["exc"], ee["site"]),
                              "%s under KMIP %s: the engine's answer cannot be encoded (%s: %s), the session answers "
                              "General Failure (item %s)" % (it["op"], j["req"]["version"], ee["exc"], ee["msg"][:120], str(it)[:300]), i))
        ints = list(o.get("_internal", []))
        for it, r in zip(j["req"]["items"], o["results"]):
            if r.get("reason") != 256:
                continue
            ie = ints.pop(0) if ints else {"exc": "?", "site": "?", "msg": "?"}
            if it["op"] == "query" and not it.get("functions"):
                continue
            if it["op"] == "deriveKey" and not it.get("uids"):
                continue
            sig = "c13:%s:%s@%s" % (it["op"], ie["exc"], ie["site"])
            fails.append((sig, "%s under KMIP %s answered General Failure: %s: %s (item %s)"
                          % (it["op"], j["req"]["version"], ie["exc"], ie["msg"][:120], str(it)[:300]), i))
    return fails


MONITORS = [mon_c13]


def T(attrs):
    return {"tnames": 0, "attrs": attrs}


def A(name, kind, v, index=None, **kw):
    d = {"k": kind, "v": v}
    d.update(kw)
    return {"name": name, "index": index, "value": d}


def base_attrs(alg, length, mask=ALLMASK):
    return [A("Cryptographic Algorithm", "enum", alg), A("Cryptographic Length", "int", length),
            A("Cryptographic Usage Mask", "int", mask)]


def setup_store(do, req):
    """one object of every kind in every lifecycle state; returns list of (uid, kind, state)"""
    made = []

    def uid_of(o, key="uid"):
        return (o["results"][0].get("data") or {}).get(key)
    for state in (1, 2, 3, 4):
        new = []
        o = req(14, [{"op": "create", "bid": None, "crypto": None, "otype": 2,
                      "tmpl": T(base_attrs(3, 128) + [A("Name", "name", "sym%d" % state, 0, t=1)])}])
        new.append((uid_of(o), "sym"))
        o = req(14, [{"op": "createKeyPair", "bid": None, "crypto": None,
                      "common": T(base_attrs(4, 1024, 0x3)), "priv": None, "pub": None}])
        new.append((uid_of(o, "pub"), "pub"))
        new.append((uid_of(o, "priv"), "priv"))
        regs = [({"otype": 5, "value": "00" * 16, "alg": 3, "len": 128, "format": 1, "subtype": None}, "split"),
                ({"otype": 1, "value": "3003020101", "alg": None, "len": None, "format": None, "subtype": 1}, "cert"),
                ({"otype": 7, "value": "0102030405060708", "alg": None, "len": None, "format": None, "subtype": 1}, "secret")]
        if state == 1:
            regs.append(({"otype": 8, "value": "0102", "alg": None, "len": None, "format": None,
                          "subtype": 0x80000000}, "opaque"))
        for ob, kind in regs:
            tm = T([] if kind == "opaque" else [A("Cryptographic Usage Mask", "int", ALLMASK)])
            o = req(14, [{"op": "register", "bid": None, "crypto": None, "otype": ob["otype"], "tmpl": tm, "obj": ob}])
            new.append((uid_of(o), kind))
        for u, kind in new:
            if kind == "opaque":
                made.append((u, kind, None))
                continue
            if state >= 2:
                req(14, [{"op": "activate", "bid": None, "crypto": None, "uid": u}])
            if state == 3:
                req(14, [{"op": "revoke", "bid": None, "crypto": None, "uid": u, "code": 1}])
            if state == 4:
                req(14, [{"op": "revoke", "bid": None, "crypto": None, "uid": u, "code": 2}])
            made.append((u, kind, state))
    return made


CP_MENU = [
    None,
    {"alg": 3, "mode": 1, "padding": 3},                       # AES CBC PKCS5
    {"alg": 3, "mode": 2, "padding": 3},                       # ECB
    {"alg": 3, "mode": 1, "padding": 1},                       # CBC, padding NONE
    {"alg": 3, "mode": 1, "padding": 5},                       # ANSI X9.23
    {"alg": 3, "mode": 9, "taglen": 16},                       # GCM
    {"alg": 3, "mode": 6},                                     # CTR
    {"alg": 3, "mode": 13},                                    # NIST key wrap as a cipher mode: unsupported
    {"alg": 3},                                                # mode absent
    {"alg": 2, "mode": 1, "padding": 3},                       # 3DES with an AES key
    {"alg": 14, "mode": 1, "padding": 3},                      # unsupported algorithm
    {"mode": 1, "padding": 3},                                 # algorithm absent
    {"alg": 4, "padding": 8, "hash": 6},                       # RSA OAEP SHA-256
]
SIGN_MENU = [
    {"alg": 4, "padding": 10, "hash": 6}, {"alg": 4, "padding": 8, "hash": 6}, {"alg": 4, "padding": 10},
    {"dsa": 5}, {"dsa": 9}, {"alg": 4, "padding": 3, "hash": 6}, {"alg": 3, "padding": 10, "hash": 6},
    {"alg": 4, "padding": 10, "hash": 1}, {}, {"alg": 4, "hash": 6},
]
DATA_MENU = [None, "", "00", "00" * 15, "00" * 16, "00" * 17, "00" * 32]
IV_MENU = [None, "", "00" * 8, "00" * 12, "00" * 16, "00" * 17]


def grid_builder(g, E, do, length):
    import impl_engine
    prof = g.profile
    ver = prof["version"]
    part, nparts = prof["part"], prof["nparts"]
    sample = prof.get("sample", 1.0)
    names_all = [n for n in impl_engine.TAGS]

    def req(v, items, user="alice"):
        return do({"cmd": "req", "now": 1000, "id": {"user": user, "groups": None},
                   "req": {"version": v, "ts": None, "async": None, "bopt": None, "maxsize": None, "items": items}})
    objs = setup_store(do, req)
    do({"cmd": "dump"})
    wrapkey = [u for u, k, s in objs if k == "sym" and s == 2][0]
    cells = []
    for u, kind, state in objs:
        def it(op, **kw):
            d = {"op": op, "bid": None, "crypto": None, "uid": u}
            d.update(kw)
            return d
        cells.append(it("getAttributeList"))
        cells.append(it("getAttributes", names=[]))
        cells.append(it("getAttributes", names=["Name", "bogus", "x-custom", "State", "Link"]))
        for fmt in (None, 1, 3, 4):
            cells.append(it("get", format=fmt, compression=False, wrap=None))
        cells.append(it("get", format=None, compression=True, wrap=None))
        for enc, encoding, meth in ((wrapkey, 1, 1), (wrapkey, 2, 1), (u, 1, 1), ("999", 1, 1), (wrapkey, 1, 2), (None, 1, 1)):
            cells.append(it("get", format=None, compression=False,
                            wrap={"method": meth, "enckey": enc, "encparams": True, "mackey": enc is None,
                                  "attrnames": 0, "encoding": encoding}))
        for cp in CP_MENU:
            for data in (DATA_MENU if cp == CP_MENU[1] or cp == CP_MENU[3] else [None, "00" * 17]):
                for iv in (IV_MENU if cp in (CP_MENU[1], CP_MENU[5]) else [None]):
                    cells.append(it("encrypt", params=cp is not None, cp=cp, data_hex=data, iv_hex=iv))
                    cells.append(it("decrypt", params=cp is not None, cp=cp, data_hex=data, iv_hex=iv,
                                    tag_hex="00" * 16 if cp and cp.get("mode") == 9 else None))
        # authenticated encryption: tag lengths and nonce lengths around what the mode accepts (4..16 / 8..128 bytes)
        for taglen in (0, 1, 3, 4, 8, 12, 16, 17, -1):
            for ivn in (1, 7, 8, 12, 129):
                cells.append(it("encrypt", params=True, cp={"alg": 3, "mode": 9, "taglen": taglen}, data_hex="00" * 17,
                                iv_hex="00" * ivn))
        for tagn in (1, 3, 4, 12, 16, 17):
            for ivn in (1, 7, 12, 129):
                cells.append(it("decrypt", params=True, cp={"alg": 3, "mode": 9, "taglen": 16}, data_hex="00" * 17,
                                iv_hex="00" * ivn, tag_hex="00" * tagn))
        for cp in SIGN_MENU:
            cells.append(it("sign", params=True, cp=cp))
            cells.append(it("signatureVerify", params=True, cp=cp))
            cells.append(it("signatureVerify", params=True, cp=cp, sig_hex="00" * 128))
        cells.append(it("sign", params=False))
        for alg in (None, 8, 9, 10, 11, 12, 3, 2, 4):
            cells.append(it("mac", alg=alg, data=True))
        cells.append(it("mac", alg=9, data=False))
        for method in (1, 2, 3, 4, 5, 6, 8):
            for cp in ({"hash": 6}, {"hash": 4, "alg": 3, "mode": 1, "padding": 3}, {}, "absent"):
                for ot in (2, 7):
                    cells.append({"op": "deriveKey", "bid": None, "crypto": None, "otype": ot, "uids": [u], "method": method,
                                  "cp": cp, "tmpl": T(base_attrs(3, 128) if ot == 2 else [A("Cryptographic Length", "int", 128)])})
        # attribute operations: every name of the rule table + unknown + custom, both forms
        for nm in names_all + ["bogus", "x-custom"]:
            kind = impl_engine.sample_value(nm) if nm in impl_engine.TAGS else {"k": "text", "v": "v"}
            if kind is None:
                continue
            ta = {"name": nm, "index": None, "value": kind}
            if ver >= 20:
                if nm in impl_engine.TAGS:
                    cells.append(it("setAttribute", attr=ta))
                    cells.append(it("modifyAttribute", attr=None, current=None, new=ta))
                    cells.append(it("modifyAttribute", attr=None, current=ta, new=ta))
                    cells.append(it("deleteAttribute", name=None, index=None, current=ta, reference=None))
                cells.append(it("deleteAttribute", name=None, index=None, current=None, reference=nm))
            else:
                for idx in (None, 0, 1, 7):
                    cells.append(it("modifyAttribute", attr=dict(ta, index=idx), current=None, new=None))
                    cells.append(it("deleteAttribute", name=nm, index=idx, current=None, reference=None))
    # object-independent cells
    for nm in names_all + ["bogus", "x-custom"]:
        kind = impl_engine.sample_value(nm) if nm in impl_engine.TAGS else {"k": "text", "v": "v"}
        if kind is None:
            continue
        cells.append({"op": "locate", "bid": None, "crypto": None, "max": None, "offset": None,
                      "attrs": [{"name": nm, "index": None, "value": kind}]})
        for ot, ob in ((2, {"otype": 2, "value": "00" * 16, "alg": 3, "len": 128, "format": 1, "subtype": None}),
                       (1, {"otype": 1, "value": "3003020101", "alg": None, "len": None, "format": None, "subtype": 1}),
                       (7, {"otype": 7, "value": "0102", "alg": None, "len": None, "format": None, "subtype": 1}),
                       (8, {"otype": 8, "value": "0102", "alg": None, "len": None, "format": None, "subtype": 0x80000000})):
            cells.append({"op": "register", "bid": None, "crypto": None, "otype": ot, "obj": ob,
                          "tmpl": T(([] if ot == 8 else [A("Cryptographic Usage Mask", "int", 12)]) +
                                    [{"name": nm, "index": None, "value": kind}])})
        cells.append({"op": "create", "bid": None, "crypto": None, "otype": 2,
                      "tmpl": T(base_attrs(3, 128) + [{"name": nm, "index": None, "value": kind}])})
    for alg in (3, 2, 1, 4, 8, 9, 14, 20):
        for ln in (0, 56, 64, 128, 168, 192, 256, 100, 512):
            cells.append({"op": "create", "bid": None, "crypto": None, "otype": 2, "tmpl": T(base_attrs(alg, ln))})
    for alg in (4, 3, 5, 6):
        for ln in (512, 1024, 100):
            cells.append({"op": "createKeyPair", "bid": None, "crypto": None, "common": T(base_attrs(alg, ln, 3)),
                          "priv": None, "pub": None})
    cells.append({"op": "query", "bid": None, "crypto": None, "functions": [1, 2, 3, 4, 5, 6]})
    cells.append({"op": "discoverVersions", "bid": None, "crypto": None, "versions": []})
    for code in (4, 6, 9, 13, 16, 21, 25, 29, 36, 40):
        cells.append({"op": "unsupported", "bid": None, "crypto": None, "code": code})
    # this worker's share
    mine = [c for k, c in enumerate(cells) if k % nparts == part]
    for c in mine:
        if sample < 1.0 and not g.p(sample):
            continue
        req(ver, [c])
    # state-changing operations last (each on every object)
    if part == 0:
        for u, kind, state in objs:
            req(ver, [{"op": "activate", "bid": None, "crypto": None, "uid": u}])
        for u, kind, state in objs:
            req(ver, [{"op": "revoke", "bid": None, "crypto": None, "uid": u, "code": g.ch([1, 2, 3])}])
        for u, kind, state in objs:
            req(ver, [{"op": "destroy", "bid": None, "crypto": None, "uid": u}])
    do({"cmd": "dump"})


def obs13(o):
    """for the grid only status / reason are compared (values produced by the real backend are opaque)"""
    return diff_engine.obs_out(o)


def nontrivial(j, o):
    return "results" in o


def run_grid(ctx, sample):
    nparts = 3
    args = []
    for v in VERS:
        for part in range(nparts):
            args.append((ctx.seed * 977 + v * 10 + part, 0,
                         {"builtin_policies_only": True, "version": v, "part": part, "nparts": nparts, "sample": sample},
                         False, "props.c13.grid_builder"))
    import multiprocessing
    with multiprocessing.get_context("fork").Pool(min(16, len(args))) as pool:
        return pool.map(engine_check.gen_history, args)


def theorem_domain(ctx, histories):
    """Which of the items sent to the implementation satisfy the hypothesis of the Lean theorem
    `no_internal_error` (C13.wellTypedB, proved to imply WellTyped)?  Items outside it are listed by class:
    the classes the property itself excludes (ASSUMPTIONS), a backend that raised a non-KMIP exception, or
    `other` = explored by the monitor but not covered by the theorem."""
    import collections
    import json
    from gen_engine import dumps
    lines, where = [], []
    for hi, (h, outs) in enumerate(histories):
        for k, j in enumerate(h):
            if j.get("cmd") == "req":
                lines.append(dumps(j))
                where.append((hi, k))
    out = ctx.run_model("WellTyped", lines)
    tally = collections.Counter()
    samples = []
    for (hi, k), o in zip(where, out):
        j = histories[hi][0][k]
        try:
            wt = json.loads(o)["wt"]
        except Exception:
            raise RuntimeError("WellTyped driver: %s on %s" % (o[:200], dumps(j)[:300]))
        res = histories[hi][1][k].get("results") if isinstance(histories[hi][1][k], dict) else None
        for n, (it, ok) in enumerate(zip(j["req"]["items"], wt)):
            if ok:
                tally["in_theorem_domain"] += 1
                continue
            if it["op"] == "query" and not it.get("functions"):
                tally["excluded:query-without-function"] += 1
            elif it["op"] == "deriveKey" and not it.get("uids"):
                tally["excluded:derive-without-base-object"] += 1
            elif (it.get("crypto") or {}).get("k") == "internal":
                tally["excluded:backend-raised-non-kmip-exception"] += 1
            else:
                tally["other:%s" % it["op"]] += 1
                if len(samples) < 5:
                    samples.append({"item": it, "version": j["req"]["version"],
                                    "result": res[n] if res and n < len(res) else None})
    return dict(tally), samples


def derive_length_case(args):
    """DeriveKey through the engine with the REAL cryptography backend at the numeric edges of the derived length, for
    every derivation method and hash: 1, the digest size and its neighbours, 255 x digest size (HKDF's limit) and its
    neighbours, 255 x block size and its neighbours, 2^16 +- 1 bytes.  Well-formed requests: success or a specific
    error, never General Failure, and nothing raised inside the engine."""
    import hashlib
    import json
    import impl_engine as IE
    method, hcode = args
    hn = {3: "md5", 4: "sha1", 5: "sha224", 6: "sha256", 7: "sha384", 8: "sha512"}[hcode]
    h = hashlib.new(hn)
    ds, bs = h.digest_size, h.block_size
    lens = sorted(set([1, ds - 1, ds, ds + 1, 255 * ds - 1, 255 * ds, 255 * ds + 1, 255 * bs - 1, 255 * bs, 255 * bs + 1,
                       1000, 65535, 65536, 65537]))
    E = IE.ImplEngine(scripted_crypto=False)
    fails, n = [], 0
    try:
        def req(items, v=14):
            return E.handle({"cmd": "req", "now": 1000, "id": {"user": "alice", "groups": None},
                             "req": {"version": v, "ts": None, "async": None, "bopt": None, "maxsize": None, "items": items}})
        A = lambda nm, k, v: {"name": nm, "index": None, "value": {"k": k, "v": v}}
        r = req([{"op": "register", "bid": None, "crypto": None, "otype": 2,
                  "tmpl": {"tnames": 0, "attrs": [A("Cryptographic Usage Mask", "int", 0x200 | 4 | 8)]},
                  "obj": {"otype": 2, "value": "0b" * 32, "alg": 3, "len": 256, "format": 1, "subtype": None}}])
        base = r["results"][0]["data"]["uid"]
        req([{"op": "activate", "bid": None, "crypto": None, "uid": base}])
        for nbytes in lens:
            it = {"op": "deriveKey", "bid": None, "crypto": None, "otype": 7, "uids": [base],
                  "tmpl": {"tnames": 0, "attrs": [A("Cryptographic Length", "int", nbytes * 8)]}, "cp": {"hash": hcode}, "method": method}
            if method == 1:
                it.update(salt_hex="0a" * 8, iters=2)
            elif method == 3:
                it.update(ddata_hex="0c" * 8, salt_hex="0a" * 8)
            elif method == 2:
                it.update(ddata_hex="")
            elif method == 5:
                it.update(ddata_hex="0c" * 8)
            else:
                it.update(ddata_hex="0c" * min(nbytes, 4096), div_hex="0d" * 16, cp={"mode": 1, "padding": 3, "alg": 3, "hash": hcode})
            o = req([it])
            n += 1
            res = (o.get("results") or [{}])[0]
            if "rejected" in o or (res.get("status") == "fail" and res.get("reason") == 256) or E.internal_errors:
                fails.append(("c13:derive-length-general-failure:method-%d:%s" % (method, hn),
                              "DeriveKey method %d / %s for %d bytes (digest %d, block %d) with the real backend is answered %s; "
                              "raised inside the engine: %s" % (method, hn, nbytes, ds, bs,
                                                              json.dumps(o if "rejected" in o else res)[:200], E.internal_errors[:1])))
                break
    finally:
        E.close()
    return fails, n


def derive_length_part(ctx):
    import multiprocessing
    args = [(m, hc) for m in (1, 2, 3, 4, 5) for hc in ((4, 6, 8) if ctx.tier == "quick" else (3, 4, 5, 6, 7, 8))]
    with multiprocessing.get_context("fork").Pool(15) as pool:
        res = pool.map(derive_length_case, args)
    n = 0
    for a, (fails, k) in zip(args, res):
        n += k
        for sig, what in fails:
            ctx.report(sig, what, {"kind": "derive-length", "args": list(a)})
    ctx.coverage["derive_length_requests"] = n
    ctx.coverage["evaluations"] = (ctx.coverage.get("evaluations") or 0) + n


def run(ctx):
    sample = 0.35 if ctx.tier == "quick" else 1.0
    grid = run_grid(ctx, sample)
    for h, outs in grid:
        for o in outs:
            if isinstance(o, dict) and "harness_error" in o:
                raise RuntimeError("harness error in grid: %s\n%s" % (o["harness_error"], o.get("tb")))
    engine_check.report_monitor_failures(ctx, grid, MONITORS)
    divs = engine_check.correspondence(ctx, grid, obs13)
    st = engine_check.Stats()
    for h, outs in grid:
        st.add_history(h, outs, nontrivial)
    engine_check.standard_run(ctx, {"groups": 0.0, "no_internal_script": True}, MONITORS, nontrivial, RULE,
                              n_quick=60, n_thorough=1500, length=40,
                              extra_cov={"grid_requests": st.requests, "grid_sample_fraction": sample,
                                         "grid_outcomes": dict(st.outcomes), "exhaustive": sample >= 1.0})
    ctx.coverage["evaluations"] += st.items
    ctx.coverage["distinct_nontrivial"] += len(st.distinct)
    ctx.coverage["grid_divergences"] = len(divs)
    # batches [any operation X; an item that names no identifier]: whatever X left in the ID placeholder, the follower is
    # answered with success or a specific error
    engine_check.scenario_run(ctx, "scen_engine.placeholder_follow_builder", MONITORS, nontrivial, RULE, 24, 400, 12,
                              "placeholder_follower_part", seed_base=830000)
    # and [read / refused item; committing item] and [committing attribute operation; wrapped Get] batches of one session
    engine_check.scenario_run(ctx, "scen_engine.read_commit_builder", MONITORS, nontrivial, RULE, 16, 300, 16,
                              "read_then_commit_part", seed_base=840000)
    engine_check.scenario_run(ctx, "scen_engine.attr_commit_builder", MONITORS, nontrivial, RULE, 16, 300, 14,
                              "attribute_op_then_commit_part", seed_base=850000)
    zoo_pass(ctx)
    derive_length_part(ctx)
    # the grid on a database file an EARLIER run of the server wrote (corpus/legacy_db)
    import legacy_db_check
    legacy_db_check.hook(ctx, "c13")
    dom, outside = theorem_domain(ctx, grid)
    ctx.coverage["theorem_domain"] = dom
    ctx.coverage["items_outside_theorem_domain_samples"] = outside
    # M14: the request decoder model against RequestMessage.read (verdict, decoded request, well-typedness of
    # everything decoded) + the property through the real decoder (no General Failure for a decoded request)
    from decode_check import run_decode
    ctx.coverage["decode"] = run_decode(ctx)
    ctx.coverage["evaluations"] += int((ctx.coverage["decode"] or {}).get("frames", 0))
    if divs:
        d = divs[0]
        sig = "correspondence:engine-model"
        if not [v for v in ctx.violations if not v["no_input"]]:
            ctx.report(sig, "model and engine disagree on %d grid histories (real cryptography backend)" % len(divs),
                       {"kind": "correspondence", "broken": "correspondence Drivers/Engine.lean vs KmipEngine (grid)",
                        "lines": d["history"][-2:], "setup": "props.c13.setup_store", "impl": d["impl"], "model": d["model"]},
                       no_input=True)


# ------------------------------------------------------------------ every registrable object, then every read of it
def zoo_case(args):
    """Register one object of C05's zoo (all seven types; wrapped keys with every shape of key wrapping data, incl. key
    information WITHOUT cryptographic parameters; split keys; certificates; opaque) through the real client, wire and
    engine, then send every well-formed read / lifecycle request about it: no answer may be General Failure."""
    seed, version, label_idx, restart = args
    import random as _r
    import impl_e2e
    from props import c05
    from kmip.core import enums
    from kmip.pie import exceptions as pex
    r = _r.Random(seed)
    L = impl_e2e.Loopback()
    fails, answers = [], {}
    try:
        objs = c05.make_objects(r, version)
        label, mk = objs[label_idx % len(objs)]
        o = mk()
        c = L.client(version)

        def step(name, fn):
            try:
                fn()
                answers[name] = "ok"
            except pex.KmipOperationFailure as e:
                answers[name] = "fail:%s" % getattr(e.reason, "name", e.reason)
                if e.reason == enums.ResultReason.GENERAL_FAILURE:
                    fails.append(("c13:general-failure:%s:%s" % (name, label.split("-")[0]),
                                  "%s of a registered %s under KMIP %s answered General Failure (%s)"
                                  % (name, label, version, str(e)[:160])))
            except Exception as e:
                answers[name] = "client:%s" % type(e).__name__
        uid = [None]

        def reg():
            uid[0] = c.register(o)
        step("register", reg)
        if uid[0] is None:
            return {"label": label, "version": version, "answers": answers, "fails": fails}
        if restart:
            L.restart()
            c = L.client(version)
        u = uid[0]
        step("get", lambda: c.get(u))
        step("getAttributes", lambda: c.get_attributes(u))
        step("getAttributeList", lambda: c.get_attribute_list(u))
        step("locate", lambda: c.locate())
        if label != "opaque":
            step("activate", lambda: c.activate(u))
            step("get-active", lambda: c.get(u))
            step("revoke", lambda: c.revoke(enums.RevocationReasonCode.CESSATION_OF_OPERATION, u))
        step("get-again", lambda: c.get(u))
        step("destroy", lambda: c.destroy(u))
        step("get-destroyed", lambda: c.get(u))
    finally:
        L.close()
    return {"label": label, "version": version, "answers": answers, "fails": fails}


def zoo_pass(ctx):
    import multiprocessing
    import random as _r
    from props import c05
    nlabels = len(c05.make_objects(_r.Random(0), 14))
    versions = [10, 12, 14, 20]
    reps = 1 if ctx.tier == "quick" else 8
    args = [(ctx.seed * 7001 + 131 * i + 17 * v + k, v, i, (i + v + k) % 3 == 0)
            for k in range(reps) for v in versions for i in range(nlabels)]
    with multiprocessing.get_context("fork").Pool(16) as pool:
        res = pool.map(zoo_case, args, chunksize=2)
    by_label, outcomes = {}, {}
    n = 0
    for a, rr in zip(args, res):
        by_label[rr["label"]] = by_label.get(rr["label"], 0) + 1
        for k, v in rr["answers"].items():
            n += 1
            outcomes["%s:%s" % (k, v)] = outcomes.get("%s:%s" % (k, v), 0) + 1
        for sig, what in rr["fails"]:
            ctx.report(sig, what, {"kind": "zoo", "args": list(a), "label": rr["label"]})
    ctx.coverage["registered_object_zoo"] = {"cases": len(args), "requests": n, "labels": by_label, "answers": outcomes}
    ctx.coverage["evaluations"] = (ctx.coverage.get("evaluations") or 0) + n


def search(ctx, broken):
    grid = run_grid(ctx, 1.0)
    engine_check.report_monitor_failures(ctx, grid, MONITORS)
    ctx.coverage["evaluations"] = sum(1 for h, _ in grid for j in h if j.get("cmd") == "req")


def replay(ctx, rep):
    import legacy_db_check
    if legacy_db_check.is_mine(rep):
        return legacy_db_check.replay(ctx, rep)
    if (rep.get("replay") or {}).get("kind") == "derive-length":
        fails, _n = derive_length_case(tuple(rep["replay"]["args"]))
        for sig, what in fails:
            print("  %s: %s" % (sig, what[:500]))
        return not fails
    if (rep.get("replay") or {}).get("kind") == "zoo":
        rr = zoo_case(tuple(rep["replay"]["args"]))
        for sig, what in rr["fails"]:
            print("  %s: %s" % (sig, what))
        return not rr["fails"]
    r = rep.get("replay", rep)
    if r.get("kind") == "frame":
        import decode_check
        return decode_check.replay_frame(ctx, rep)
    lines = engine_check.with_dumps(r["lines"])
    outs = diff_engine.run_impl(lines, scripted=False, keep_internal=True)
    bad = mon_c13(lines, outs)
    for b in bad:
        print("  monitor:", b[0], "-", b[1][:300])
    return not bad
