"""C20 — secrets stay out of logs (INFO and above) and out of result messages."""
import base64
import logging
import os
import random
import re
import sys

sys.path.insert(0, os.path.join(os.path.dirname(os.path.abspath(__file__)), "..", "lib"))
sys.path.insert(0, os.path.join(os.path.dirname(os.path.abspath(__file__)), ".."))

LEAN_MODULES = ["KmipModel.Props.C20", "KmipModel.Props.C20Engine"]
RULE = ("canary runs: seeded engine histories (all operations, successes and every failure path the generator "
        "reaches incl. scripted backend failures and internal errors) and end-to-end client/server round trips in which "
        "every key value, secret, derived/wrapped token, plaintext and password is a high-entropy canary; every log "
        "record of level >= INFO on every logger (message + formatted exception text) and every result message is "
        "searched for each canary in raw, hex (both cases), base64 and Python-repr form; every fired record must come "
        "from a call site of the regenerated site table with the level the table says; non-trivial = a request that "
        "carries at least one canary; plus the real KmipSession fed valid requests and mutants cut / corrupted inside the "
        "secret-bearing byte strings (decode-failure logging); distinct = distinct (request, outcome)")
ASSUMPTIONS = ["text of third-party exceptions (SQLAlchemy statement parameters, cryptography messages) is covered "
               "only by these dynamic runs"]
REPO = os.environ.get("VERIF_REPO", "/repo")


class Capture(logging.Handler):
    def __init__(self):
        logging.Handler.__init__(self, level=logging.INFO)
        self.records = []
        self.fmt = logging.Formatter("%(message)s")

    def emit(self, record):
        try:
            text = self.fmt.format(record)
        except Exception:
            text = str(record.msg)
        self.records.append((record.name, record.levelno, os.path.abspath(record.pathname), record.lineno, text))


def forms(hexstr):
    raw = bytes.fromhex(hexstr)
    out = {hexstr.lower(), hexstr.upper(), base64.b64encode(raw).decode(), repr(raw)[2:-1]}
    try:
        out.add(raw.decode("ascii"))
    except UnicodeDecodeError:
        pass
    return [f for f in out if len(f) >= 8]


def canaries_of(line):
    """every secret carried by a request line (values >= 8 bytes)"""
    found = set()

    def walk(x, key=None):
        if isinstance(x, dict):
            for k, v in x.items():
                walk(v, k)
        elif isinstance(x, list):
            for v in x:
                walk(v, key)
        elif isinstance(x, str) and key in ("t", "value", "pub", "priv", "data_hex") and re.fullmatch(r"[0-9a-f]{16,}", x):
            found.add(x)
    walk(line)
    return found


def engine_history(args):
    seed, length = args
    import gen_engine
    import impl_engine
    import logging as lg
    g = gen_engine.Gen(seed, {"groups": 0.1, "inject_format": True})
    E = impl_engine.ImplEngine()
    lg.disable(lg.NOTSET)
    cap = Capture()
    root = lg.getLogger()
    root.addHandler(cap)
    root.setLevel(lg.INFO)
    lg.getLogger("kmip").setLevel(lg.INFO)
    secrets = set()
    msgs = []
    lines = []
    try:
        pol = impl_engine.policies_to_json(impl_engine.core_policy.policies) + gen_engine.random_policies(g)
        E.handle({"cmd": "policies", "policies": pol})
        creators = ["create", "register", "deriveKey", "createKeyPair"]
        followers = ["get", "getAttributes", "getAttributeList", "activate", "revoke", "destroy", "encrypt", "decrypt",
                     "sign", "mac", "signatureVerify", "setAttribute", "modifyAttribute", "deleteAttribute"]
        for _ in range(length):
            if g.p(0.25):
                # a creating item followed, in the same batch, by items that name no object (ID placeholder paths)
                k = g.ch([1, 1, 2])
                ln = g.line(nitems=1 + k, ops=[g.ch(creators)] + [g.ch(followers) for _ in range(k)])
                for it in ln["req"]["items"][1:]:
                    it["uid"] = None
            else:
                ln = g.line()
            secrets |= canaries_of(ln)
            o = E.handle(ln)
            g.observe(ln, o)
            lines.append(ln)
            # stored values are secrets too (also those of objects destroyed later)
            for ob in E.dump()["objs"]:
                if len(ob["value"]) >= 16:
                    secrets.add(ob["value"])
            if isinstance(o, dict):
                for r in o.get("results", []):
                    if r.get("msg"):
                        msgs.append(r["msg"])
                if o.get("msg"):
                    msgs.append(o["msg"])

    finally:
        root.removeHandler(cap)
        E.close()
    return {"records": cap.records, "messages": msgs, "secrets": sorted(secrets), "requests": len(lines),
            "sample": lines[0] if lines else None}


def e2e_history(seed):
    import logging as lg
    import impl_e2e
    from kmip.core import enums
    from kmip.pie import objects as po
    r = random.Random(seed)
    L = impl_e2e.Loopback()
    lg.disable(lg.NOTSET)
    cap = Capture()
    root = lg.getLogger()
    root.addHandler(cap)
    root.setLevel(lg.INFO)
    lg.getLogger("kmip").setLevel(lg.INFO)
    secrets = set()
    msgs = []
    n = 0
    try:
        for v in (12, 14, 20):
            c = L.client(v)
            key = bytes(r.randrange(256) for _ in range(32))
            pw = bytes(r.randrange(33, 126) for _ in range(24))
            data = bytes(r.randrange(256) for _ in range(32))
            secrets |= {key.hex(), pw.hex(), data.hex()}
            objs = [po.SymmetricKey(enums.CryptographicAlgorithm.AES, 256, key,
                                    masks=[enums.CryptographicUsageMask.ENCRYPT, enums.CryptographicUsageMask.DECRYPT,
                                           enums.CryptographicUsageMask.MAC_GENERATE]),
                    po.SecretData(pw, enums.SecretDataType.PASSWORD), po.OpaqueObject(data, enums.OpaqueDataType.NONE)]
            for o in objs:
                try:
                    uid = c.register(o)
                    n += 1
                    c.get(uid)
                    c.get_attributes(uid)
                    if isinstance(o, po.SymmetricKey):
                        c.activate(uid)
                        ct, iv = c.encrypt(data, uid=uid, cryptographic_parameters={
                            "cryptographic_algorithm": enums.CryptographicAlgorithm.AES,
                            "block_cipher_mode": enums.BlockCipherMode.CBC, "padding_method": enums.PaddingMethod.PKCS5})
                        c.decrypt(ct, uid=uid, iv_counter_nonce=iv, cryptographic_parameters={
                            "cryptographic_algorithm": enums.CryptographicAlgorithm.AES,
                            "block_cipher_mode": enums.BlockCipherMode.CBC, "padding_method": enums.PaddingMethod.PKCS5})
                        # failures with secrets in the request: wrong IV size, bad parameters
                        for bad_iv in (b"\x00" * 3, None):
                            try:
                                c.decrypt(data, uid=uid, iv_counter_nonce=bad_iv, cryptographic_parameters={
                                    "cryptographic_algorithm": enums.CryptographicAlgorithm.AES,
                                    "block_cipher_mode": enums.BlockCipherMode.CBC})
                            except Exception as e:
                                msgs.append(str(e))
                        c.mac(data, uid=uid, algorithm=enums.CryptographicAlgorithm.HMAC_SHA256)
                        n += 6
                    try:
                        c.destroy(uid)
                    except Exception as e:
                        msgs.append(str(e))
                    try:
                        c.get(uid)
                    except Exception as e:
                        msgs.append(str(e))
                    n += 4
                except Exception as e:
                    msgs.append(str(e))
            # undecodable request bytes that contain a secret
            try:
                L.handle(b"\x42\x00\x78\x01\x00\x00\x00\x28" + key + b"\x00" * 8)
            except Exception as e:
                msgs.append(str(e))
    finally:
        root.removeHandler(cap)
        L.close()
    return {"records": cap.records, "messages": msgs, "secrets": sorted(secrets), "requests": n, "sample": None}


def session_frames(r):
    """frames carrying canaries as key material / data / passwords, and mutants of them cut or corrupted inside the
    secret -> (frames, secrets)"""
    import gen_session as G
    secrets, frames = set(), []
    sg = G.SessGen(r)
    for v in (10, 12, 14, 20):
        for n in (16, 32, 40):
            key = bytes(r.randrange(256) for _ in range(n))
            secrets.add(key.hex())
            items = [{"op": "register", "bid": None, "crypto": None, "otype": 2,
                      "tmpl": {"tnames": 0, "attrs": [{"name": "Cryptographic Usage Mask", "index": None,
                                                       "value": {"k": "int", "v": 12}}]},
                      "obj": {"otype": 2, "value": key.hex(), "alg": 3, "len": n * 8, "format": 1, "subtype": None}}]
            if v >= 12:
                data = bytes(r.randrange(256) for _ in range(32))
                secrets.add(data.hex())
                items.append({"op": "encrypt", "bid": None, "uid": "1", "params": True,
                              "cp": {"mode": 1, "padding": 3, "alg": 3}, "data_hex": data.hex(), "iv_hex": "00" * 16})
            for it in items:
                fr = G.encode_request(G.mkreq(v, [it]))
                frames.append(fr)
                for kind in ("cutvalue", "cutvalue", "cutvalue", "textlen", "inflate", "truncate", "type", "flip",
                             "transparent", "emptystring"):
                    frames.append(sg.mutate(fr, kind)[0])
    # requests whose header carries an Authentication with a PASSWORD (Username and Password, and the Device credential -
    # which has a password field too), on items the server serves, refuses, cannot decode (operations it has no payload
    # class for) and on frames corrupted after the header
    for v in (10, 12, 14, 20):
        for dev in (False, True):
            pw = "".join(chr(r.randrange(97, 123)) for _ in range(18))
            secrets.add(pw.encode().hex())
            cred = {"u": "dev-7" if dev else "alice", "p": pw}
            if dev:
                cred.update(dev=True, serial="SN-%d" % r.randrange(10 ** 6), net="10.0.0.%d" % r.randrange(255))
            for it in ({"op": "query", "bid": None, "crypto": None, "functions": [1, 2]},
                       {"op": "get", "bid": None, "crypto": None, "uid": "1", "format": None, "compression": False, "wrap": None},
                       {"op": "unsupported", "bid": None, "crypto": None, "code": r.choice([21, 22, 4, 9, 13])},
                       {"op": "activate", "bid": None, "crypto": None, "uid": "999"}):
                rq = G.mkreq(v, [it])
                rq["cred"] = cred
                try:
                    fr = G.encode_request(rq)
                except Exception:
                    continue
                frames.append(fr)
                for kind in ("truncate", "type", "tag", "flip", "itemcut", "count"):
                    frames.append(sg.mutate(fr, kind)[0])
    # every stored key is then asked for, with and without a Maximum Response Size too small for the answer (the
    # session then holds an encoded response full of key material that it must not send - nor log)
    for uid in range(1, 14):
        for v, ms in ((12, None), (12, r.choice([8, 64, 100])), (r.choice([10, 14, 20]), r.choice([0, 16, 120]))):
            try:
                frames.append(G.encode_request(G.mkreq(v, [{"op": "get", "bid": None, "crypto": None, "uid": str(uid),
                                                            "format": None, "compression": False, "wrap": None}],
                                                       maxsize=ms)))
            except Exception:
                pass
    return frames, secrets


def session_history(seed):
    """The REAL KmipSession (its decode-failure and error logging included) in front of a real engine"""
    import logging as lg
    import impl_session as S
    r = random.Random(seed)
    frames, secrets = session_frames(r)
    rig = S.Rig()
    lg.disable(lg.NOTSET)
    cap = Capture()
    root = lg.getLogger()
    root.addHandler(cap)
    root.setLevel(lg.INFO)
    lg.getLogger("kmip").setLevel(lg.INFO)
    msgs = []
    try:
        res = rig.run_session([b"".join(frames)], S.make_cert(), digests=False)
        for raw in res.get("out", []):
            try:
                ob = S.decode_response(raw, rig.default_version)
                for it in ob.get("items", []):
                    if it.get("msg"):
                        msgs.append(it["msg"])
            except Exception:
                pass
    finally:
        root.removeHandler(cap)
        rig.close()
    return {"records": cap.records, "messages": msgs, "secrets": sorted(secrets), "requests": len(frames), "sample": None}


def server_front_history(seed):
    """The REAL KmipServer front end (server.py: configuration file, its own logging set-up, its own dedication of a
    session thread to a connection) at its DEFAULT logging level - the configuration names none, or names INFO /
    WARNING - embedded in an application with a handler of its own on the root logger (level NOTSET, as
    logging.basicConfig() installs; the root logger keeps its level): whatever the server's loggers hand to ANY handler -
    its own log file or the application's - is "its logs at the default level".  Same frames as `session_history`."""
    import logging as lg
    import impl_session as S
    import server_front
    r = random.Random(seed)
    frames, secrets = session_frames(r)
    level = [None, None, "INFO", "WARNING"][seed % 4]
    lg.disable(lg.NOTSET)
    cap = Capture()
    cap.setLevel(lg.NOTSET)
    root = lg.getLogger()
    saved_root, saved_kmip = root.level, lg.getLogger("kmip").level
    root.addHandler(cap)
    root.setLevel(lg.WARNING)
    lg.getLogger("kmip").setLevel(lg.NOTSET)
    msgs, records = [], []
    fs = None
    try:
        fs = server_front.FrontServer(logging_level=level)
        conn = fs.serve([b"".join(frames)], S.make_cert())
        for raw in conn.out:
            try:
                ob = S.decode_response(raw, 12)
                for it in ob.get("items", []):
                    if it.get("msg"):
                        msgs.append(it["msg"])
            except Exception:
                pass
        records = list(cap.records)
        for ln in fs.log_text().splitlines():
            records.append(("server-log-file", 20, "server.log", 0, ln))
    finally:
        root.removeHandler(cap)
        root.setLevel(saved_root)
        lg.getLogger("kmip").setLevel(saved_kmip)
        if fs is not None:
            fs.close()
    return {"records": records, "messages": msgs, "secrets": sorted(secrets), "requests": len(frames), "sample": None,
            "responses": len(conn.out) if fs is not None else 0}


def client_config_history(seed):
    """The CLIENT and its account password: ProxyKmipClient / KMIPProxy built from configuration files and from
    arguments, with passwords of every awkward shape (per cent signs and %(name)s interpolation syntax, quotes, spaces,
    '#' and ';', non-ASCII, very long), opened against an in-process server loop and used for requests that carry the
    credential; the records at INFO and above must not contain the password."""
    import logging as lg
    import tempfile
    import shutil
    import impl_e2e
    from kmip.pie.client import ProxyKmipClient
    from kmip.services.kmip_client import KMIPProxy
    from kmip.core import enums
    r = random.Random(seed)
    lg.disable(lg.NOTSET)
    cap = Capture()
    root = lg.getLogger()
    root.addHandler(cap)
    root.setLevel(lg.INFO)
    lg.getLogger("kmip").setLevel(lg.INFO)
    d = tempfile.mkdtemp(prefix="c20conf")
    secrets, msgs = set(), []
    n = 0

    def word(k):
        return "".join(chr(r.randrange(97, 123)) for _ in range(k))
    L = impl_e2e.Loopback()
    lg.disable(lg.NOTSET)               # (Loopback silences logging while it sets the server up)
    try:
        shapes = [lambda w: w, lambda w: "%" + w, lambda w: w + "%", lambda w: w[:6] + "%" + w[6:],
                  lambda w: "%(" + w + ")s", lambda w: w[:5] + "%(" + w[5:] + ")s", lambda w: w + "%%" + w[:4],
                  lambda w: '"' + w + '"', lambda w: w[:6] + " " + w[6:], lambda w: w[:6] + "#" + w[6:],
                  lambda w: w[:6] + ";" + w[6:], lambda w: w + "=" + w[:5], lambda w: w * 12,
                  lambda w: w[:6] + "\u00e9" + w[6:], lambda w: "$" + w, lambda w: "[" + w + "]"]
        for k, shape in enumerate(shapes):
            w = word(14)
            pw = shape(w)
            secrets.add(w.encode().hex())                 # the random core of the password is the canary
            path = os.path.join(d, "pykmip-%d.conf" % k)
            with open(path, "w", encoding="utf-8") as f:
                f.write("[client]\nhost=127.0.0.1\nport=5696\nkeyfile=None\ncertfile=None\ncert_reqs=CERT_NONE\n"
                        "ssl_version=PROTOCOL_SSLv23\nca_certs=None\ndo_handshake_on_connect=True\n"
                        "suppress_ragged_eofs=True\nusername=user%d\npassword=%s\n" % (k, pw))
            for build in (lambda: ProxyKmipClient(config="client", config_file=path),
                          lambda: KMIPProxy(config="client", config_file=path),
                          lambda: ProxyKmipClient(username="user%d" % k, password=pw, config_file=path),
                          lambda: ProxyKmipClient(config="nosuchsection", config_file=path)):
                n += 1
                try:
                    c = build()
                except Exception as e:
                    msgs.append(str(e))
                    continue
                try:
                    px = c.proxy if hasattr(c, "proxy") else c
                    px.protocol = impl_e2e.Transport(L)
                    if hasattr(c, "_is_open"):
                        c._is_open = True
                        c.create(enums.CryptographicAlgorithm.AES, 128)
                        try:
                            c.get("31337")
                        except Exception as e:
                            msgs.append(str(e))
                    else:
                        px.query(query_functions=[enums.QueryFunction.QUERY_OPERATIONS])
                    n += 2
                except Exception as e:
                    msgs.append(str(e))
    finally:
        root.removeHandler(cap)
        L.close()
        shutil.rmtree(d, ignore_errors=True)
    return {"records": cap.records, "messages": msgs, "secrets": sorted(secrets), "requests": n, "sample": None}


def run(ctx):
    import multiprocessing
    import gen_tables
    n = 64 if ctx.tier == "quick" else 1500
    table = {}
    for rel, line, meth, level, classes in gen_tables.logger_sites(REPO):
        table[(os.path.abspath(os.path.join(REPO, rel)), line)] = (level, classes)
    with multiprocessing.get_context("fork").Pool(16) as pool:
        res = pool.map(engine_history, [(ctx.seed * 100003 + i, 30) for i in range(n)], chunksize=2)
        res += pool.map(e2e_history, [ctx.seed * 977 + i for i in range(16 if ctx.tier == "quick" else 200)])
        res += pool.map(session_history, [ctx.seed * 613 + i for i in range(8 if ctx.tier == "quick" else 100)])
        res += pool.map(client_config_history, [ctx.seed * 389 + i for i in range(4 if ctx.tier == "quick" else 60)])
        front = pool.map(server_front_history, [ctx.seed * 211 + i for i in range(4 if ctx.tier == "quick" else 40)])
        res += front
    nrec = nmsg = nsec = nreq = 0
    fired = set()
    for k, r in enumerate(res):
        nreq += r["requests"]
        nsec += len(r["secrets"])
        needles = []
        for s in r["secrets"]:
            needles += [(s, f) for f in forms(s)]
            if len(s) >= 48:
                # a leading part of the secret is a leak too (e.g. a value cut short by a decode failure)
                needles += [(s, f) for f in forms(s[:24])]
        for name, lvl, path, lineno, text in r["records"]:
            nrec += 1
            if "/kmip/" in path:
                site = table.get((path, lineno))
                fired.add((os.path.relpath(path, REPO), lineno))
                if site is None:
                    # multi-line calls: the record's line is the line of the call expression start or of an argument
                    near = [kk for kk in table if kk[0] == path and abs(kk[1] - lineno) <= 8]
                    if not near:
                        ctx.report("c20:log-site-not-in-table", "a record at %s:%s (level %s) comes from no known logger call site"
                                   % (os.path.relpath(path, REPO), lineno, lvl), {"kind": "log", "text": text[:300]})
            for s, f in needles:
                if f in text:
                    ctx.report("c20:secret-in-log:%s:%s" % (os.path.relpath(path, REPO) if "/kmip/" in path else name, lineno),
                               "a log record of level %s contains a secret value (%s...)" % (lvl, f[:12]),
                               {"kind": "log", "logger": name, "level": lvl, "where": "%s:%s" % (path, lineno),
                                "text": text[:400], "history_index": k})
                    break
        for m in r["messages"]:
            nmsg += 1
            for s, f in needles:
                if f in m:
                    ctx.report("c20:secret-in-result-message", "a result/error message contains a secret value (%s...)" % f[:12],
                               {"kind": "message", "text": m[:400], "history_index": k})
                    break
    ctx.coverage.update({
        "evaluations": nreq, "distinct_nontrivial": nsec, "rule": RULE,
        "samples": [res[0]["sample"]], "log_records_scanned": nrec, "result_messages_scanned": nmsg,
        "canaries": nsec, "distinct_sites_fired": len(fired), "sites_in_table": len(table),
        "sites_at_info_or_above": sum(1 for v in table.values() if v[0] >= 20),
        "traces_validated_against_impl": len(res),
        "server_front_histories": len(front), "server_front_responses": sum(f.get("responses", 0) for f in front),
        "server_front_records": sum(len(f["records"]) for f in front)})
    if front and not sum(f.get("responses", 0) for f in front):
        raise RuntimeError("the server front end answered nothing: the front-end part is not exercising the server")


def search(ctx, broken):
    run(ctx)
    if not ctx.violations:
        # the table obligation broke: name the offending sites (static finding, exercised dynamically above)
        import gen_tables
        bad = [(rel, line, level, classes) for rel, line, meth, level, classes in gen_tables.logger_sites(REPO)
               if level >= 20 and any(c.split(":")[0] in ("tainted", "unknown") for c in classes)]
        ctx.notes.append("sites at INFO+ formatting possibly secret values: %s" % bad[:10])
        ctx.coverage["offending_sites"] = [list(b) for b in bad[:20]]


def replay(ctx, rep):
    c2 = type(ctx)(ctx.pid, "quick", rep.get("seed", ctx.seed), None)
    run(c2)
    return not c2.violations
