"""C05 — stored objects come back exactly as stored: client library, wire, engine, SQLite, restart."""
import json
import os
import random
import sys

sys.path.insert(0, os.path.join(os.path.dirname(os.path.abspath(__file__)), "..", "lib"))
from gen_engine import dumps  # noqa: E402

LEAN_MODULES = ["KmipModel.Props.C05", "KmipModel.Props.C05Convert", "KmipModel.Props.C05Listing"]
RULE = ("end-to-end: every one of the seven stored object types is registered through the real ProxyKmipClient "
        "(request encoded to bytes, decoded by the server-side decoder, processed by the real engine, stored in a "
        "SQLite file), the engine is re-created on the same file for a share of the cases, and Get / GetAttributes / "
        "GetAttributeList through the client must return exactly what was stored; x KMIP 1.0..2.0 x value pools "
        "(empty/short/long values, every usage-mask bit, enum members incl. 0x80000000, several names, wrapping data "
        "incl. all-falsy parameter sets); plus the key-wrapping-data dictionary <-> columns conversion compared with "
        "the Lean model on generated dictionaries; distinct = distinct (type, version, value class, attribute set)")
ASSUMPTIONS = ["the requester is the owner under the built-in default policy"]
VERS = [10, 11, 12, 13, 14, 20]
CP_FIELDS = ["block_cipher_mode", "padding_method", "hashing_algorithm", "key_role_type",
             "digital_signature_algorithm", "cryptographic_algorithm", "random_iv", "iv_length", "tag_length",
             "fixed_field_length", "invocation_field_length", "counter_length", "initial_counter_value"]


# ---------------------------------------------------------------- wrapping data dictionaries (M13)
def gen_cp(r):
    from kmip.core import enums
    choice = r.random()
    if choice < 0.15:
        return None
    cp = {}
    pools = {"block_cipher_mode": list(enums.BlockCipherMode)[:4], "padding_method": list(enums.PaddingMethod)[:3],
             "hashing_algorithm": list(enums.HashingAlgorithm)[:3], "key_role_type": list(enums.KeyRoleType)[:2],
             "digital_signature_algorithm": list(enums.DigitalSignatureAlgorithm)[:2],
             "cryptographic_algorithm": list(enums.CryptographicAlgorithm)[:3]}
    for f in CP_FIELDS:
        x = r.random()
        if f in pools:
            cp[f] = r.choice(pools[f]) if x < 0.25 else None
        elif f == "random_iv":
            cp[f] = r.choice([None, None, True, False])
        else:
            cp[f] = r.choice([None, None, 0, 0, 1, 16])
    return cp


def gen_wrap(r):
    from kmip.core import enums

    def ki():
        x = r.random()
        if x < 0.3:
            return None
        return {"unique_identifier": r.choice([None, "", "7", "abc"]), "cryptographic_parameters": gen_cp(r)}
    return {"wrapping_method": r.choice([None, enums.WrappingMethod.ENCRYPT, enums.WrappingMethod.MAC_SIGN]),
            "encryption_key_information": ki(), "mac_signature_key_information": ki(),
            "mac_signature": r.choice([None, None, b"", b"\x01\x02"]),
            "iv_counter_nonce": r.choice([None, None, b"", b"\x00" * 8]),
            "encoding_option": r.choice([None, enums.EncodingOption.NO_ENCODING])}


def fv(v):
    import enum
    if v is None:
        return {"k": "none"}
    if isinstance(v, bool):
        return {"k": "bool", "v": v}
    if isinstance(v, enum.Enum):
        return {"k": "enum", "v": v.value}
    if isinstance(v, int):
        return {"k": "int", "v": v}
    if isinstance(v, (bytes, bytearray)):
        return {"k": "bytes", "v": bytes(v).hex()}
    return {"k": "text", "v": str(v)}


def wrap_json(w):
    """python dict -> JSON for the Lean driver (None / {} key information = null)"""
    if not w:
        return None

    def ki(k):
        if not k:
            return None
        cp = k.get("cryptographic_parameters")
        return {"uid": fv(k.get("unique_identifier")),
                "cp": None if not cp else [fv(cp.get(f)) for f in CP_FIELDS]}
    return {"method": fv(w.get("wrapping_method")), "eki": ki(w.get("encryption_key_information")),
            "mski": ki(w.get("mac_signature_key_information")), "macSig": fv(w.get("mac_signature")),
            "iv": fv(w.get("iv_counter_nonce")), "encoding": fv(w.get("encoding_option"))}


def is_normal(w):
    """the Lean predicate WrapDict.Normal, evaluated in Python (domain of the fidelity theorem)"""
    import enum

    def truthy(v):
        return bool(v) if not isinstance(v, enum.Enum) else True

    def ki_ok(k):
        if k is None:
            return True
        cp = k.get("cryptographic_parameters")
        if cp is not None and not (cp and any(truthy(v) for v in cp.values())):
            return False
        return truthy(k.get("unique_identifier")) or cp is not None
    if not ki_ok(w.get("encryption_key_information")) or not ki_ok(w.get("mac_signature_key_information")):
        return False
    return any([truthy(w.get("wrapping_method")), w.get("encryption_key_information") is not None,
                w.get("mac_signature_key_information") is not None, truthy(w.get("mac_signature")),
                truthy(w.get("iv_counter_nonce")), truthy(w.get("encoding_option"))])


def run_wrapping(ctx, n):
    import warnings
    warnings.filterwarnings("ignore")
    from kmip.core import enums
    from kmip.pie import objects as po
    r = random.Random(ctx.seed * 31337 + 5)
    cases = [gen_wrap(r) for _ in range(n)]
    lines, impl = [], []
    for w in cases:
        k = po.SymmetricKey(enums.CryptographicAlgorithm.AES, 128, b"\x00" * 16, key_wrapping_data=w)
        got = k.key_wrapping_data
        impl.append(wrap_json(got))
        lines.append(dumps({"cmd": "wrap", "w": wrap_json(w)}))
    model = [json.loads(x) for x in ctx.run_model("Convert", lines)]
    normal = 0
    for w, a, b in zip(cases, impl, model):
        if a != b["out"]:
            ctx.report("correspondence:wrapping-columns", "key_wrapping_data getter/setter disagrees with the Lean model",
                       {"kind": "wrap", "broken": "correspondence Drivers/Convert.lean vs kmip.pie.objects.Key.key_wrapping_data",
                        "w": wrap_json(w), "impl": a, "model": b}, no_input=True)
            break
        if is_normal(w):
            normal += 1
            if a != wrap_json(w):
                ctx.report("c05:wrapping-data-not-preserved", "normal key wrapping data is not returned as stored",
                           {"kind": "wrap", "w": wrap_json(w), "impl": a})
    return len(cases), normal


# ---------------------------------------------------------------- end to end
def make_objects(r, version=14):
    """(label, pie object factory) for all seven types with pooled values"""
    from kmip.core import enums
    from kmip.pie import objects as po
    U = enums.CryptographicUsageMask
    masks_pool = [[], [U.ENCRYPT, U.DECRYPT], list(U), [U.SIGN], [U.EXPORT, U.DERIVE_KEY, U.WRAP_KEY]]
    names_pool = [["k"], ["key one"], ["a-" + str(r.randrange(1000))]]
    out = []

    def common(o, sens=False):
        o.names = list(r.choice(names_pool))
        if hasattr(o, "cryptographic_usage_masks"):
            o.cryptographic_usage_masks = list(r.choice(masks_pool))
        if r.random() < 0.3 and version < 20:
            o.operation_policy_name = "default"
        return o
    for n in (16, 24, 32):
        out.append(("sym-aes-%d" % (n * 8), lambda n=n: common(po.SymmetricKey(
            enums.CryptographicAlgorithm.AES, n * 8, bytes(r.randrange(256) for _ in range(n))))))
    def wrapped(kind):
        from kmip.core import enums as E
        cp = {"normal": {"block_cipher_mode": E.BlockCipherMode.NIST_KEY_WRAP, "random_iv": False, "iv_length": 0},
              "falsy": {"random_iv": False, "iv_length": 0, "tag_length": 0},
              "none": None}[kind]
        w = {"wrapping_method": E.WrappingMethod.ENCRYPT,
             "encryption_key_information": {"unique_identifier": "7", "cryptographic_parameters": cp},
             "iv_counter_nonce": r.choice([None, b"\x00" * 8]),
             "encoding_option": r.choice([None, E.EncodingOption.NO_ENCODING])}
        return common(po.SymmetricKey(E.CryptographicAlgorithm.AES, 128,
                                      bytes(r.randrange(256) for _ in range(24)), key_wrapping_data=w))
    for kind in ("normal", "falsy", "none"):
        out.append(("symwrapped-%s" % kind, lambda kind=kind: wrapped(kind)))
    out.append(("sym-two-names", lambda: (lambda o: (setattr(o, "names", ["first", "second"]), o)[1])(
        common(po.SymmetricKey(enums.CryptographicAlgorithm.AES, 128, bytes(16))))))
    out.append(("sym-3des", lambda: common(po.SymmetricKey(enums.CryptographicAlgorithm.TRIPLE_DES, 192,
                                                           bytes(r.randrange(256) for _ in range(24))))))
    out.append(("sym-hmac", lambda: common(po.SymmetricKey(enums.CryptographicAlgorithm.HMAC_SHA256, 256,
                                                           bytes(r.randrange(256) for _ in range(32))))))
    for fmt in (enums.KeyFormatType.PKCS_1, enums.KeyFormatType.X_509):
        out.append(("pub-%s" % fmt.name, lambda fmt=fmt: common(po.PublicKey(
            enums.CryptographicAlgorithm.RSA, 2048, bytes(r.randrange(256) for _ in range(r.choice([1, 30, 270]))), fmt))))
    for fmt in (enums.KeyFormatType.PKCS_1, enums.KeyFormatType.PKCS_8):
        out.append(("priv-%s" % fmt.name, lambda fmt=fmt: common(po.PrivateKey(
            enums.CryptographicAlgorithm.RSA, 2048, bytes(r.randrange(256) for _ in range(r.choice([1, 64, 600]))), fmt))))
    out.append(("split", lambda: common(po.SplitKey(
        cryptographic_algorithm=enums.CryptographicAlgorithm.AES, cryptographic_length=128,
        key_value=bytes(r.randrange(256) for _ in range(16)), key_format_type=enums.KeyFormatType.RAW,
        split_key_parts=r.choice([3, 5]), key_part_identifier=r.choice([1, 2]), split_key_threshold=2,
        split_key_method=r.choice([enums.SplitKeyMethod.XOR, enums.SplitKeyMethod.POLYNOMIAL_SHARING_GF_2_8]),
        prime_field_size=None))))
    out.append(("cert", lambda: common(po.X509Certificate(bytes(r.randrange(256) for _ in range(r.choice([5, 40, 700])))))))
    for dt in (enums.SecretDataType.PASSWORD, enums.SecretDataType.SEED):
        out.append(("secret-%s" % dt.name, lambda dt=dt: common(po.SecretData(
            bytes(r.randrange(256) for _ in range(r.choice([1, 8, 100]))), dt))))
    out.append(("opaque", lambda: common(po.OpaqueObject(bytes(r.randrange(256) for _ in range(r.choice([1, 9, 300]))),
                                                         enums.OpaqueDataType.NONE))))
    return out


def describe(o):
    """field-wise description of a pie object (what C05 says must come back)"""
    d = {"type": o.object_type.value, "value": bytes(o.value).hex()}
    for f in ("cryptographic_algorithm", "cryptographic_length", "key_format_type", "certificate_type", "data_type",
              "opaque_type", "split_key_parts", "key_part_identifier", "split_key_threshold", "split_key_method",
              "prime_field_size"):
        if hasattr(o, f):
            v = getattr(o, f)
            d[f] = getattr(v, "value", v)
    if hasattr(o, "key_wrapping_data"):
        d["wrapping"] = wrap_json(o.key_wrapping_data)
    return d


def e2e_case(args):
    seed, version, label_idx, restart = args
    import impl_e2e
    from kmip.core import enums
    r = random.Random(seed)
    L = impl_e2e.Loopback()
    fails = []
    try:
        objs = make_objects(r, version)
        label, mk = objs[label_idx % len(objs)]
        o = mk()
        c = L.client(version)
        try:
            uid = c.register(o)
        except Exception as e:
            return {"label": label, "version": version, "outcome": "register-failed:%s:%s" % (type(e).__name__, str(e)[:120]),
                    "names": len(o.names), "fails": [("c05:register-refused:%s" % label,
                                                       "register of a valid %s under KMIP %s failed: %s: %s"
                                                       % (label, version, type(e).__name__, str(e)[:200]))]}
        if restart:
            L.restart()
            c = L.client(version)
        try:
            back = c.get(uid)
            _, attrs = c.get_attributes(uid)
            names = c.get_attribute_list(uid)
        except Exception as e:
            import traceback
            tb = traceback.extract_tb(e.__traceback__)
            site = [f for f in tb if "/kmip/" in f.filename]
            where = "%s:%s" % (os.path.basename(site[-1].filename), site[-1].name) if site else "?"
            return {"label": label, "version": version, "outcome": "read-back-failed:%s" % type(e).__name__,
                    "restart": restart, "names": len(o.names),
                    "fails": [("c05:read-back-failed:%s@%s" % (type(e).__name__, where),
                               "Get/GetAttributes of a registered %s under KMIP %s raised %s: %s"
                               % (label, version, type(e).__name__, str(e)[:200]))]}
        want, got = describe(o), describe(back)
        if want != got:
            diff = sorted(k for k in set(want) | set(got) if want.get(k) != got.get(k))
            fails.append(("c05:get-differs:%s:%s" % (label.split("-")[0], ",".join(diff)),
                          "Get of %s under KMIP %s returned %s, stored %s" % (label, version,
                                                                            {k: got.get(k) for k in diff},
                                                                            {k: want.get(k) for k in diff})))
        # attributes: supplied + server-assigned
        have = {}
        for a in attrs:
            have.setdefault(a.attribute_name.value, []).append(a.attribute_value)
        if sorted(set(names)) != sorted(set(have)):
            fails.append(("c05:attribute-list-differs", "GetAttributeList %s vs GetAttributes %s" % (sorted(names), sorted(have))))
        exp = {"Unique Identifier", "Object Type", "Initial Date"}
        if o.names:
            exp.add("Name")
        if version < 20:
            exp.add("Operation Policy Name")
        if version >= 14:
            exp.add("Sensitive")
        if label != "opaque":
            exp |= {"State", "Cryptographic Usage Mask"}
        if label.split("-")[0] in ("sym", "symwrapped", "pub", "priv", "split"):
            exp |= {"Cryptographic Algorithm", "Cryptographic Length"}
        if label == "cert":
            exp.add("Certificate Type")
        if set(have) != exp:
            fails.append(("c05:attribute-set-differs:%s" % ",".join(sorted(set(have) ^ exp)),
                          "attributes of %s under KMIP %s: got %s, expected %s" % (label, version, sorted(have), sorted(exp))))
        else:
            if have["Unique Identifier"][0].value != uid:
                fails.append(("c05:attribute-value:Unique Identifier", "uid attribute %r" % have["Unique Identifier"][0].value))
            if have["Object Type"][0].value != o.object_type:
                fails.append(("c05:attribute-value:Object Type", "object type attribute differs"))
            if "State" in have and have["State"][0].value != enums.State.PRE_ACTIVE:
                fails.append(("c05:attribute-value:State", "initial state %s" % have["State"][0].value))
            if "Name" in have and [n.name_value.value for n in have["Name"]] != [str(n) for n in o.names]:
                fails.append(("c05:attribute-value:Name", "names %s vs %s" % ([n.name_value.value for n in have["Name"]], o.names)))
            if "Cryptographic Usage Mask" in have:
                want_mask = 0
                for m in (o.cryptographic_usage_masks or []):
                    want_mask |= m.value
                if have["Cryptographic Usage Mask"][0].value != want_mask:
                    fails.append(("c05:attribute-value:Cryptographic Usage Mask", "mask %s vs %s"
                                  % (have["Cryptographic Usage Mask"][0].value, want_mask)))
            if "Operation Policy Name" in have and have["Operation Policy Name"][0].value != "default":
                fails.append(("c05:attribute-value:Operation Policy Name", "policy name attribute"))
        return {"label": label, "version": version, "outcome": "ok", "restart": restart, "names": len(o.names),
                "fails": fails, "requests": [b.hex() for b in L.sent_requests][:1]}
    finally:
        L.close()


HIST_PROFILE = {"ops": {"create": 6, "register": 8, "createKeyPair": 2, "deriveKey": 2, "get": 6, "getAttributes": 6,
                        "getAttributeList": 2, "modifyAttribute": 5, "setAttribute": 3, "deleteAttribute": 4,
                        "activate": 1, "revoke": 1, "destroy": 1, "locate": 1},
                "groups": 0.5, "restart": 0.08, "attr_focus": True, "twins": 0.1}
HIST_RULE = ("; histories: adaptive request sequences (creation with names / groups / application-specific "
             "information, reads, attribute operations on other objects, engine restarts) with a full store dump "
             "after every request, compared with the Lean engine model and checked by the stored-object monitor")


def hist_nontrivial(j, o):
    return "results" in o and any(r.get("status") == "ok" for r in o["results"])


def run(ctx):
    import multiprocessing
    import engine_check
    import monitors_engine as M
    st = engine_check.standard_run(ctx, HIST_PROFILE, [M.mon_c05], hist_nontrivial, HIST_RULE,
                                   n_quick=120, n_thorough=2500, length=30)
    hist_cov = dict(ctx.coverage)
    # read-then-commit batches: every kind of read (plain / wrapped Get, attributes, Locate, cryptographic use,
    # refused operations) followed in the same batch by an item that commits, then plain reads and restarts
    engine_check.standard_run(ctx, {"builtin_policies_only": True}, [M.mon_c05, M.mon_c08], hist_nontrivial, HIST_RULE,
                              n_quick=32, n_thorough=600, length=16, builder="scen_engine.read_commit_builder",
                              seeds=[ctx.seed * 1000003 + 700000 + i for i in range(32 if ctx.tier == "quick" else 600)])
    rc_cov = dict(ctx.coverage)
    nwrap = 3000 if ctx.tier == "quick" else 60000
    ncases, nnormal = run_wrapping(ctx, nwrap)
    reps = 2 if ctx.tier == "quick" else 60
    nlabels = len(make_objects(random.Random(0)))
    args = []
    k = 0
    for rep in range(reps):
        for v in VERS:
            for li in range(nlabels):
                args.append((ctx.seed * 1000003 + k, v, li, (k % 3) != 0))
                k += 1
    with multiprocessing.get_context("fork").Pool(16) as pool:
        res = pool.map(e2e_case, args, chunksize=4)
    distinct = set()
    outcomes = {}
    for a, rr in zip(args, res):
        distinct.add((rr["label"], rr["version"], rr.get("restart"), rr["outcome"]))
        outcomes[rr["outcome"].split(":")[0]] = outcomes.get(rr["outcome"].split(":")[0], 0) + 1
        for sig, what in rr["fails"]:
            ctx.report(sig, what, {"kind": "e2e", "args": list(a)})
    # M13b: the conversion hops of the storage path (ObjectFactory.convert both ways, pie constructors, SQLite rows,
    # KmipEngine._build_core_object) against the Lean model ConvertObjects, hop by hop, with round-trip monitors
    concurrent_part(ctx)
    import convert_objects_check
    conv = convert_objects_check.run(ctx, random.Random(ctx.seed * 7919 + 13))
    ctx.coverage.update({
        "conversion_hops": conv,
        "evaluations": len(res) + ncases + hist_cov.get("evaluations", 0) + rc_cov.get("evaluations", 0)
        + int(conv.get("convert_objects", 0) or conv.get("objects", 0) or 0),
        "distinct_nontrivial": len(distinct) + nnormal + hist_cov.get("distinct_nontrivial", 0) + rc_cov.get("distinct_nontrivial", 0),
        "read_then_commit_part": {k: rc_cov.get(k) for k in (
            "evaluations", "distinct_nontrivial", "histories", "correspondence_divergences", "ops", "outcomes")},
        "rule": RULE + HIST_RULE, "history_part": {k: hist_cov.get(k) for k in (
            "evaluations", "distinct_nontrivial", "histories", "correspondence_divergences", "ops", "outcomes")},
        "samples": [{"e2e_case": list(args[0]), "result": {k: v for k, v in res[0].items() if k != "fails"}}],
        "e2e_cases": len(res), "e2e_outcomes": outcomes, "wrapping_dictionaries": ncases,
        "wrapping_dictionaries_in_theorem_domain": nnormal, "versions": VERS, "object_kinds": nlabels,
        "traces_validated_against_impl": len(res)})


# ------------------------------------------------------------------ stored as supplied - also when clients overlap
def concurrent_case(seed):
    """client threads of different users and KMIP versions on one engine at the same time (the threaded workloads of the
    C10 check): every object is stored with the identity of the client that created it and the names / groups it
    supplied, and a full attribute listing carries the version-dependent names of ITS request's version"""
    from props import c10
    import monitors_engine as M
    res = c10.case(seed)
    if not isinstance(res, tuple) or res[0] == "error":
        return [], 0
    prefix, threads, outs, order, dump, waited, errs = res
    objs = {str(o["uid"]): o for o in (dump or {}).get("objs", [])}
    touched = set()
    for lines, os_ in zip(threads, outs):
        for l, o in zip(lines, os_):
            for it, r in zip(l["req"]["items"], (o or {}).get("results") or []):
                if r.get("status") == "ok" and it["op"] in ("modifyAttribute", "setAttribute", "deleteAttribute", "destroy"):
                    touched.add(str(it.get("uid")))
    fails, n = [], 0
    for t, (lines, os_) in enumerate(zip(threads, outs)):
        for l, o in zip(lines, os_):
            if not isinstance(o, dict) or "results" not in o:
                continue
            ver = l["req"]["version"]
            for it, r in zip(l["req"]["items"], o["results"]):
                if r.get("status") != "ok":
                    continue
                n += 1
                d = r.get("data") or {}
                if it["op"] in ("create", "register") and str(d.get("uid")) in objs:
                    ob = objs[str(d["uid"])]
                    if ob["owner"] != l["id"]["user"]:
                        fails.append(("c05:stored-with-another-clients-identity",
                                      "object %s was created by %s (thread %d) and is stored as owned by %r"
                                      % (d["uid"], l["id"]["user"], t, ob["owner"])))
                    tm = it.get("tmpl")
                    if tm is not None and not tm.get("tnames") and str(d["uid"]) not in touched:
                        names, groups, appinfo = M._supplied(tm)
                        if ob.get("names") != names or ob.get("groups") != groups:
                            fails.append(("c05:created-attributes-differ:concurrent",
                                          "object %s was made with names %r groups %r, the store has %r %r"
                                          % (d["uid"], names, groups, ob.get("names"), ob.get("groups"))))
                got = None
                if it["op"] == "getAttributeList":
                    got = set(d.get("names") or [])
                elif it["op"] == "getAttributes" and not it.get("names"):
                    got = set(x["name"] for x in d.get("attrs") or [])
                if got is not None and ver in (10, 11, 12, 13, 14, 20):
                    bad = []
                    if ("Operation Policy Name" in got) != (ver < 20):
                        bad.append("Operation Policy Name")
                    if ("Sensitive" in got) != (ver >= 14):
                        bad.append("Sensitive")
                    if bad:
                        fails.append(("c05:attribute-listing-differs:concurrent:%s" % ",".join(bad),
                                      "%s under KMIP %s (thread %d of %d, versions %s) reports %s"
                                      % (it["op"], ver, t, len(threads), [th[0]["req"]["version"] for th in threads if th],
                                         sorted(got))))
    return fails, n


def concurrent_part(ctx):
    import multiprocessing
    k = 60 if ctx.tier == "quick" else 1200
    seeds = [ctx.seed * 5557 + 4100 + i for i in range(k)]
    with multiprocessing.get_context("fork").Pool(8) as pool:
        res = pool.map(concurrent_case, seeds)
    tot = 0
    for sd, (fails, n) in zip(seeds, res):
        tot += n
        for sig, what in fails[:2]:
            ctx.report(sig, what, {"kind": "concurrent", "seed": sd})
    ctx.coverage["concurrent_workloads"] = k
    ctx.coverage["concurrent_successful_items"] = tot
    ctx.coverage["evaluations"] = (ctx.coverage.get("evaluations") or 0) + tot
    # objects stored in / registered into database files an EARLIER run of the server wrote (corpus/legacy_db)
    import legacy_db_check
    legacy_db_check.hook(ctx, "c05")


def search(ctx, broken):
    run(ctx)


def replay(ctx, rep):
    import legacy_db_check
    if legacy_db_check.is_mine(rep):
        return legacy_db_check.replay(ctx, rep)
    r = rep.get("replay", rep)
    if r.get("kind") == "concurrent":
        bad = 0
        for _ in range(10):
            bad += 1 if concurrent_case(r["seed"])[0] else 0
        print("  runs (of 10) with an object stored / listed under another client's identity or version: %d" % bad)
        return bad == 0
    if r.get("kind") in ("engine-history", "correspondence"):
        import engine_check
        import monitors_engine as M
        return engine_check.standard_replay(ctx, rep, [M.mon_c05])
    if r.get("kind") == "convert-objects":
        import convert_objects_check
        return convert_objects_check.replay_case(ctx, r["case"], rep.get("signature"))
    if r.get("kind") == "e2e":
        out = e2e_case(tuple(r["args"]))
        for sig, what in out["fails"]:
            print("  monitor:", sig, "-", what[:300])
        return not out["fails"]
    return True
