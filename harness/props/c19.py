"""C19 — the client reports exactly what the server answered.

Real ProxyKmipClient / KMIPProxy / KMIPProtocol over a scripted in-process transport
(harness/lib/impl_client.py) against the Lean model M8 (lean/KmipModel/Client.lean,
driver lean/Drivers/Client.lean), plus monitors evaluated on the implementation alone.
"""
import collections
import copy
import glob
import json
import os
import random
import sys

sys.path.insert(0, os.path.join(os.path.dirname(os.path.abspath(__file__)), "..", "lib"))
import gen_client as G  # noqa: E402
import impl_client as IC  # noqa: E402
from kmip.core import utils  # noqa: E402
from kmip.core.messages import messages  # noqa: E402
from kmip.services.kmip_protocol import KMIPProtocol  # noqa: E402

LEAN_MODULES = ["KmipModel.Props.C19", "KmipModel.Props.C19Encode"]
VERSIONS = [10, 11, 12, 13, 14, 20]
CLASSES = G.RESPONSE_CLASSES
RULE = ("complete matrix: all 24 client operations (21 ProxyKmipClient methods + KMIPProxy query / discover_versions / "
        "rekey_key_pair) x KMIP 1.0,1.1,1.2,1.3,1.4,2.0 x 8 response classes (success with generated payload values; "
        "failure with every ResultReason, message present / absent, operation echoed / request-level error; "
        "structurally corrupted; truncated; early close) x generated argument values x generated chunkings "
        "(one piece, byte-wise, header split, random sizes), k cases per cell; the wrong-operation / two-item responses "
        "on the generic request path; engine-backed conversations (real KmipEngine answering the real client) under "
        "every version; pure framing cases (1-3 messages per stream, k+1 reads).  Every emitted request is decoded with "
        "the server-side decoder and compared field by field with the arguments.  Non-trivial = the client emitted a "
        "request; distinct = distinct (operation, version, response class, chunk-plan class, outcome class)")
ASSUMPTIONS = [
    "Text values are ASCII (non-ASCII text is C01's F-C01-a); managed objects in Get responses are the kinds the pie "
    "factory converts (symmetric/public/private keys, X.509 certificates, secret data, opaque objects)",
    "A legal unsuccessful response carries a Result Reason (mandatory in KMIP) and no payload; Operation Pending / "
    "Undone are generated with a reason as well (the client never asks for asynchronous processing)",
    "The response decoder is the real codec; in the Lean model it is a parameter of `call` (its correctness is C01's)",
]
TRUSTED = [
    "harness/lib/impl_client.py: scripted socket, response builder (uses the repo's own codec to ENCODE responses and the "
    "pie ObjectFactory to build Get responses), structural corruptions",
    "expected request views are computed from the JSON argument specs alone; expected return values from the JSON "
    "payload specs alone",
]
SIG_NO_MESSAGE = "c19:failure-without-message:AttributeError"


# ---------------------------------------------------------------------------
# case classification helpers
# ---------------------------------------------------------------------------
def chunk_class(c):
    c = c or {}
    s = c.get("sizes") or []
    k = "one" if not s else "bytewise" if s == [1] else "header|body" if s == [8, 4096] else "split"
    if c.get("truncate") is not None or c.get("truncate_frac") is not None:
        k += "+truncated"
    if c.get("empty_after") is not None:
        k += "+early-empty"
    return k


def stream_complete(obs):
    """did the whole response reach the client before the script ended / an empty recv()?"""
    if obs.get("response_hex") is None:
        return False
    got = b""
    for c in obs["chunks"]:
        if c == "":
            break
        got += bytes.fromhex(c)
    return got.hex() == obs["response_hex"]


def independently_undecodable(case, obs):
    """for corrupted responses: does the codec itself refuse the frame? (the corruptions are built to make it so)"""
    try:
        m = messages.ResponseMessage()
        m.read(utils.BytearrayStream(bytes.fromhex(obs["response_hex"])), kmip_version=IC.VERSIONS[case["version"]])
        return False
    except Exception:
        return True


def outcome_class(oc):
    if oc["kind"] == "raised":
        return oc.get("failure") or oc["exc"]
    return oc["kind"]


def reports_success(oc):
    return oc["kind"] == "returned" or (oc["kind"] == "result" and oc["result"]["status"] == 0)


def failure_reported_exactly(op, resp, oc):
    """the property's requirement for an unsuccessful response"""
    want = (resp["status"], resp["reason"], resp["message"])
    if op in IC.PROXY_ONLY:
        return oc["kind"] == "result" and (oc["result"]["status"], oc["result"]["reason"], oc["result"]["message"]) == want
    return oc["kind"] == "raised" and bool(oc.get("failure")) and (oc["status"], oc["reason"], oc["message"]) == want


def view_diff(a, b, path=""):
    """names of the request fields in which two views differ"""
    if isinstance(a, dict) and isinstance(b, dict):
        out = []
        for k in sorted(set(a) | set(b)):
            out += view_diff(a.get(k), b.get(k), path + "/" + k if path else k)
        return out
    return [] if a == b else [path.split("/")[0] if path else "?"]


# ---------------------------------------------------------------------------
# monitors (implementation alone)
# ---------------------------------------------------------------------------
def monitor_case(case, obs, rerun=IC.run_case):
    """-> list of (signature, what).  The executable reading of C19 on one scripted case."""
    fails = []
    op, v, resp = case["op"], case["version"], case["resp"]
    oc = obs["outcome"]
    if obs.get("harness_error") or not obs["emitted"]:
        return fails
    # -- every emitted request is decodable by the server, and says what the caller said ----------
    rq = obs["request"]
    if len(obs["emitted"]) != 1:
        fails.append(("c19:request-count:%s" % op, "%d requests emitted for one call" % len(obs["emitted"])))
    if not rq["decoded"]:
        shape = "uid-omitted" if "uid" not in case["args"] and op not in ("create", "create_key_pair", "register") \
            else rq["error"].split(":")[0]
        fails.append(("c19:request-undecodable:%s:%s" % (op, shape),
                      "%s under KMIP %s emitted a request the server-side decoder rejects: %s" % (op, v, rq["error"])))
    else:
        if rq["version"] != v or rq["batch_count"] != 1 or rq["items"] != 1 or rq["operation"] != IC.OPCODE[op].name:
            fails.append(("c19:request-envelope-wrong:%s" % op, "decoded envelope %s for %s under %s" % (rq, op, v)))
        elif "view_error" in rq:
            fails.append(("c19:request-argument-differs:%s:unreadable" % op, rq["view_error"]))
        else:
            exp = IC.expected_request(op, case["args"], v)
            d = sorted(set(view_diff(exp, rq["view"])))
            if d:
                fails.append(("c19:request-argument-differs:%s:%s" % (op, ",".join(d)),
                              "%s under KMIP %s: the server decodes %s where the caller passed %s"
                              % (op, v, json.dumps({k: rq["view"].get(k) for k in d})[:200],
                                 json.dumps({k: exp.get(k) for k in d})[:200])))
    # -- the response ---------------------------------------------------------------------------
    complete = stream_complete(obs)
    if not complete:
        if oc["kind"] != "raised" or oc.get("failure"):
            fails.append(("c19:outcome-from-truncated-stream:%s" % op,
                          "%s reported %s although the response stream ended early" % (op, outcome_class(oc))))
        elif (case.get("chunk") or {}).get("raise_after") is not None:
            pass        # the transport itself failed: its exception (time-out, reset) is what the caller must see
        elif oc["exc"] not in ("EOFError", "RequestLengthMismatch"):
            fails.append(("c19:truncated-stream-wrong-error:%s" % oc["exc"],
                          "stream ended early; the client raised %s: %s" % (oc["exc"], oc.get("text"))))
        return fails
    if resp.get("corrupt"):
        if independently_undecodable(case, obs) and (oc["kind"] != "raised" or oc.get("failure")):
            fails.append(("c19:outcome-from-undecodable-response:%s:%s" % (op, resp["corrupt"]),
                          "%s reported %s for a response the codec cannot decode" % (op, outcome_class(oc))))
        return fails
    if resp.get("items", 1) != 1 or resp.get("echo") == "other":
        # illegal but decodable (generic path only): must not be taken for data
        if reports_success(oc) and op in IC.GENERIC_OPS:
            fails.append(("c19:data-from-mismatched-response:%s" % op, "%s returned data for %s" % (op, resp)))
        return fails
    if resp["status"] != 0:
        if reports_success(oc):
            fails.append(("c19:success-on-failure:%s" % op,
                          "%s reported success for a response with status %s" % (op, resp["status"])))
        elif not failure_reported_exactly(op, resp, oc):
            if oc.get("failure") or oc["kind"] == "result":
                fails.append(("c19:failure-fields-differ:%s" % op,
                              "server said (%s, %s, %r); client reported %s"
                              % (resp["status"], resp["reason"], resp["message"], json.dumps(oc)[:200])))
            else:
                # which deviation?  re-run the same case with a Result Message added
                sig = "c19:failure-not-reported:%s:%s" % (op, oc["exc"])
                if resp["message"] is None:
                    c2 = copy.deepcopy(case)
                    c2["resp"]["message"] = "added by the harness"
                    o2 = rerun(c2)
                    if failure_reported_exactly(op, c2["resp"], o2["outcome"]):
                        sig = "c19:failure-without-message:%s" % oc["exc"]
                fails.append((sig, "%s under KMIP %s: server answered (%s, %s, %r); the client raised %s at %s: %s"
                              % (op, v, resp["status"], resp["reason"], resp["message"], oc["exc"], oc.get("site"),
                                 oc.get("text"))))
        return fails
    # success
    exp = IC.expected_data(op, resp["payload"], v)
    if op in IC.PROXY_ONLY:
        ok = oc["kind"] == "result" and oc["result"]["status"] == 0 and oc["result"]["data"] == exp
    else:
        ok = oc["kind"] == "returned" and oc["value"] == exp
    if not ok:
        what = "%s under KMIP %s: server sent %s; client gave %s" % (op, v, json.dumps(exp)[:200], json.dumps(oc)[:200])
        if oc["kind"] == "raised":
            fails.append(("c19:success-raised:%s:%s" % (op, oc["exc"]), what))
        else:
            fails.append(("c19:success-data-differs:%s" % op, what))
    return fails


def monitor_engine_step(version, st):
    """one step of a conversation with the real engine: the client says what the engine answered"""
    fails = []
    op, oc, sv = st["op"], st["outcome"], st.get("server")
    if sv is None:
        return fails                                   # refused by the client before emitting
    if not sv["decoded"]:
        return [("c19:request-undecodable:%s:%s" % (op, sv["error"].split(":")[0]),
                 "%s under KMIP %s: the server-side decoder rejects the request: %s" % (op, version, sv["error"]))]
    cv = st.get("client_version")
    if cv is not None and sv.get("header_version") is not None and sv["header_version"] != "%d.%d" % (cv // 10, cv % 10):
        fails.append(("c19:request-announces-other-version:%s" % op,
                      "%s sent by a client whose kmip_version is %s announces protocol version %s in its header"
                      % (op, cv, sv["header_version"])))
    if "engine_error" in sv:
        return fails + [("c19:harness:engine-error", "%s: %s" % (op, sv["engine_error"]))]
    it = sv["item"]
    if "data_error" in it:
        return [("c19:harness:engine-data", it["data_error"])]
    if it["status"] != 0:
        resp = {"status": it["status"], "reason": it["reason"], "message": it["message"]}
        if reports_success(oc):
            fails.append(("c19:success-on-failure:%s" % op, "engine refused %s (%s); client reported success" % (op, resp)))
        elif not failure_reported_exactly(op, resp, oc):
            if oc.get("failure") or oc["kind"] == "result":
                fails.append(("c19:failure-fields-differ:%s" % op, "engine said %s; client reported %s" % (resp, oc)))
            else:
                fails.append(("c19:failure-not-reported:%s:%s" % (op, oc["exc"]),
                              "%s under KMIP %s against the real engine: server answered (%s, %s, %r); the client raised "
                              "%s at %s: %s" % (op, version, it["status"], it["reason"], it["message"], oc["exc"],
                                                oc.get("site"), oc.get("text"))))
        return fails
    if op in IC.PROXY_ONLY:
        ok = oc["kind"] == "result" and oc["result"]["status"] == 0 and oc["result"]["data"] == it["data"]
    else:
        ok = oc["kind"] == "returned" and oc["value"] == it["data"]
    if not ok:
        fails.append(("c19:success-data-differs:%s" % op if oc["kind"] != "raised" else
                      "c19:success-raised:%s:%s" % (op, oc["exc"]),
                      "%s under KMIP %s: engine sent %s; client gave %s"
                      % (op, version, json.dumps(it["data"])[:200], json.dumps(oc)[:200])))
    return fails


# ---------------------------------------------------------------------------
# pure framing cases: several messages on one connection, k+1 reads
# ---------------------------------------------------------------------------
def gen_frames_case(rng):
    msgs = []
    for _ in range(rng.randrange(1, 4)):
        n = rng.choice([0, 1, 7, 8, 9, 100, 255, 256, 300, 1024, 1016, 1025, 1032, 1500, 2048, 2049, 4097, 9000, 66000])
        body = bytes(rng.getrandbits(8) for _ in range(n))
        msgs.append((bytes.fromhex("42007b01") + n.to_bytes(4, "big") + body).hex())
    cls = rng.choice(["whole", "whole", "truncated", "early-close"])
    ch = G.gen_chunk(rng, cls)
    if "raise_after" in ch:                 # pure framing cases keep the modelled ways a stream ends
        ch["empty_after"] = ch.pop("raise_after")
        ch.pop("raise", None)
    return {"frames": True, "messages": msgs, "chunk": ch, "reads": len(msgs) + 1}


def run_frames_case(case):
    stream = b"".join(bytes.fromhex(m) for m in case["messages"])
    chunks = IC.chunked(stream, case["chunk"])
    sock = IC.ScriptedSocket(lambda d: [])
    sock.chunks = list(chunks)
    proto = KMIPProtocol(sock)
    out = []
    for _ in range(case["reads"]):
        try:
            out.append({"ok": bytes(proto.read().buffer).hex()})
        except Exception as ex:
            d = {"err": type(ex).__name__}
            if hasattr(ex, "expected"):
                d.update(expected=ex.expected, received=ex.received)
            out.append(d)
    return {"chunks": [c.hex() for c in chunks], "frames": out}


def monitor_frames(case, obs):
    """each message is delivered intact and in order; a stream that ends early gives an error, never a frame"""
    delivered = b""
    for c in obs["chunks"]:
        if c == "":
            break
        delivered += bytes.fromhex(c)
    want = []
    rest = delivered
    for m in case["messages"]:
        mb = bytes.fromhex(m)
        if rest[:len(mb)] == mb:
            want.append(m)
            rest = rest[len(mb):]
        else:
            break
    # a client stops at the first error (a closed connection stays closed); look at the reads up to there
    got = []
    first_error = None
    for f in obs["frames"]:
        if "ok" not in f:
            first_error = f
            break
        got.append(f["ok"])
    fails = []
    if got != want:
        fails.append(("c19:frame-not-intact" if len(got) <= len(want) else "c19:frame-from-truncated-stream",
                      "the stream holds the complete messages %s; read() delivered %s" % (want, got)))
    elif first_error is None or first_error["err"] not in ("EOFError", "RequestLengthMismatch"):
        fails.append(("c19:truncated-stream-wrong-error", "after %d complete messages read() gave %s"
                      % (len(want), first_error)))
    elif (first_error["err"] == "EOFError") != (len(rest) == 0):
        fails.append(("c19:truncated-stream-wrong-error", "%d bytes of an incomplete message arrived; read() gave %s"
                      % (len(rest), first_error)))
    return fails


# ---------------------------------------------------------------------------
# model correspondence
# ---------------------------------------------------------------------------
def model_line(case, obs):
    """the `call` line for the Lean driver, or None when the case is outside the modelled domain"""
    resp = case["resp"]
    if obs.get("harness_error") or not obs["emitted"] or resp.get("items", 1) != 1:
        return None
    if (case.get("chunk") or {}).get("raise_after") is not None:
        return None             # a recv() that raises is outside the receive-loop model (which knows pieces and end of stream)
    if resp.get("corrupt"):
        if not independently_undecodable(case, obs):
            return None
        dec = None
    else:
        dec = {"echo": resp["echo"], "status": resp["status"], "reason": resp["reason"], "message": resp["message"],
               "payload": "P" if (resp.get("payload") is not None and resp["echo"] == "same") else None}
    if dec is not None and dec["echo"] == "other":
        if not stream_complete(obs):
            return None
        return {"cmd": "handle", "op": case["op"], "item": dec}
    return {"cmd": "call", "op": case["op"], "chunks": obs["chunks"], "decoded": dec}


def impl_abstract(case, obs, line):
    """the implementation's behaviour in the vocabulary of the model's answer"""
    op, v, resp, oc = case["op"], case["version"], case["resp"], obs["outcome"]
    pre = {} if line["cmd"] == "handle" else {"call": "handled"}
    if oc["kind"] == "raised":
        if oc["exc"] == "EOFError":
            return {"call": "frameError", "err": "EOFError"}
        if oc["exc"] == "RequestLengthMismatch":
            return {"call": "frameError", "err": "RequestLengthMismatch", "expected": oc["expected"],
                    "received": oc["received"]}
        if line.get("decoded", 0) is None:
            return {"call": "decodeError"}
        if oc.get("failure"):
            return dict(pre, out="failure", cls=oc["failure"], status=oc["status"], reason=oc["reason"],
                        message=oc["message"])
        return dict(pre, out="raised", exc=oc["exc"])
    has_payload = resp.get("payload") is not None and resp["echo"] == "same"
    exp = IC.expected_data(op, resp["payload"], v) if has_payload else None
    if oc["kind"] == "returned":
        val = oc["value"]
        if op in IC.UNIT_OPS and val is None:
            data = {"k": "unit"}
        elif has_payload and val == exp:
            data = {"k": "proj", "p": "P"}
        elif val is None or (isinstance(val, list) and all(x is None for x in val)):
            data = {"k": "none"}
        else:
            data = {"k": "other", "value": val}
        return dict(pre, out="returned", data=data)
    r = oc["result"]
    empty = r["data"] in (None, [], [None, None], {"operations": [], "object_types": [], "vendor": None, "namespaces": []})
    return dict(pre, out="result", cls=r["cls"], status=r["status"], reason=r["reason"], message=r["message"],
                payload=("P" if has_payload and r["data"] == exp else None if empty else "other"))


# ---------------------------------------------------------------------------
# case sets
# ---------------------------------------------------------------------------
def matrix_cases(seed, per_cell, ops=None, classes=None, versions=None):
    rng = random.Random("c19-%s" % seed)
    out = []
    for v in versions or VERSIONS:
        for op in ops or IC.OPS:
            for cls in classes or CLASSES:
                for _ in range(per_cell):
                    out.append(G.gen_case(rng, op, v, cls))
            if op in IC.GENERIC_OPS:
                for cls in ("wrong-operation", "two-items"):
                    out.append(G.gen_case(rng, op, v, cls))
    return out


def corpus_cases():
    out = []
    d = os.path.join(os.path.dirname(os.path.abspath(__file__)), "..", "..", "corpus", "C19")
    for p in sorted(glob.glob(os.path.join(d, "*.json"))):
        j = json.load(open(p))
        out += j if isinstance(j, list) else [j.get("replay", j)]
    return out


class _Null(object):
    pass


def run_any(case):
    """run a case of any kind under its monitor -> (observation, fails)"""
    if case.get("logging"):
        # the same case under another LOGGING configuration of the process (what the client reports must not depend
        # on whether somebody turned the wire logger up): the named logger(s) at the given level, records discarded
        import logging
        saved = logging.root.manager.disable
        names = case["logging"]["loggers"]
        olds = [(logging.getLogger(n), logging.getLogger(n).level, logging.getLogger(n).propagate) for n in names]
        h = logging.NullHandler()
        try:
            logging.disable(logging.NOTSET)
            IC.KEEP_LOGGING[0] = True
            for lg, _, _ in olds:
                lg.setLevel(case["logging"]["level"])
                lg.propagate = False
                lg.addHandler(h)
            c2 = dict(case)
            c2.pop("logging")
            obs, fails = run_any(c2)
            return obs, [(sg + ":logging-%s" % case["logging"]["level"], "with logger(s) %s at level %s: %s"
                          % (names, case["logging"]["level"], wh)) for sg, wh in fails]
        finally:
            IC.KEEP_LOGGING[0] = False
            for lg, lvl, prop in olds:
                lg.removeHandler(h)
                lg.setLevel(lvl)
                lg.propagate = prop
            logging.disable(saved)
    if case.get("engine"):
        steps = IC.run_engine_script(case)
        fails = []
        for st in steps:
            fails += monitor_engine_step(case["version"], st)
        return steps, fails
    if case.get("frames"):
        obs = run_frames_case(case)
        return obs, monitor_frames(case, obs)
    obs = IC.run_case(case)
    return obs, monitor_case(case, obs)


def report(ctx, sig, what, case):
    ctx.report(sig, what, {"case": case})


def execute(ctx, cases, cov, with_model=True):
    """run scripted cases: monitors, then the model on the same cases"""
    lines, refs = [], []
    for case in cases:
        obs = IC.run_case(case)
        cov["evaluations"] += 1
        op, v, cls = case["op"], case["version"], case.get("cls", "?")
        if obs.get("harness_error"):
            cov["harness_could_not_build_response"] += 1
            continue
        oc = obs["outcome"]
        if not obs["emitted"]:
            cov["client_refused_arguments"]["%s:%s" % (op, oc["exc"])] += 1
            continue
        cov["by_class"][cls] += 1
        cov["by_outcome"][outcome_class(oc)] += 1
        cov["by_chunking"][chunk_class(case.get("chunk"))] += 1
        cov["recv_calls"] += obs["recv_calls"]
        cov["distinct"].add((op, v, cls, chunk_class(case.get("chunk")), outcome_class(oc)))
        if obs["request"]["decoded"]:
            cov["requests_decoded_by_server_decoder"] += 1
        if len(cov["samples"]) < 6 and cov["evaluations"] % 97 == 1:
            cov["samples"].append({"case": case, "outcome": oc})
        for sig, what in monitor_case(case, obs):
            report(ctx, sig, what, case)
        if with_model:
            ln = model_line(case, obs)
            if ln is not None:
                lines.append(json.dumps(ln))
                refs.append((case, obs, ln))
    divergences = []
    if with_model and lines:
        outs = ctx.run_model("Client", lines)
        for (case, obs, ln), o in zip(refs, outs):
            cov["traces_validated_against_impl"] += 1
            try:
                m = json.loads(o)
            except ValueError:
                m = {"bad": o}
            a = impl_abstract(case, obs, ln)
            if m != a:
                divergences.append({"case": case, "model": m, "impl": a})
    return divergences


def new_cov():
    return {"evaluations": 0, "by_class": collections.Counter(), "by_outcome": collections.Counter(),
            "by_chunking": collections.Counter(), "client_refused_arguments": collections.Counter(),
            "harness_could_not_build_response": 0, "requests_decoded_by_server_decoder": 0, "recv_calls": 0,
            "traces_validated_against_impl": 0, "distinct": set(), "samples": [], "engine_steps": 0,
            "engine_by_outcome": collections.Counter(), "frames_cases": 0}


def with_version_switches(rng, case):
    """the same conversation by ONE client object whose version is changed through the kmip_version setter every few
    steps (the identifiers returned so far stay valid: "$k" counts script entries, so the switches are appended to the
    entries they follow)"""
    out, k = [], 0
    vs = [v for v in VERSIONS if v != case["version"]]
    script = []
    idx = {}
    for i, step in enumerate(case["script"]):
        idx[i] = len(script)
        script.append(step)
        if rng.random() < 0.25:
            script.append(["set_version", {"version": rng.choice(vs + [case["version"]])}])

    def remap(a):
        if isinstance(a, str) and a.startswith("$") and a[1:].isdigit():
            return "$%d" % idx[int(a[1:])]
        if isinstance(a, list):
            return [remap(x) for x in a]
        if isinstance(a, dict):
            return {kk: remap(vv) for kk, vv in a.items()}
        return a
    return dict(case, script=[[op, remap(args)] for op, args in script], switches=True)


def run_engine_cases(ctx, cov, seed, rounds):
    rng = random.Random("c19-engine-%s" % seed)
    for _ in range(rounds):
        for v in VERSIONS:
            case = G.gen_engine_script(rng, v)
            if rng.random() < 0.5:
                case = with_version_switches(rng, case)
            steps, fails = run_any(case)
            for st in steps:
                cov["engine_steps"] += 1
                cov["evaluations"] += 1
                cov["engine_by_outcome"]["%s:%s" % (st["op"], outcome_class(st["outcome"]))] += 1
                cov["distinct"].add((st["op"], v, "engine", chunk_class(case["chunk"]), outcome_class(st["outcome"])))
            for sig, what in fails:
                report(ctx, sig, what, case)


def run_frames_cases(ctx, cov, seed, n):
    rng = random.Random("c19-frames-%s" % seed)
    lines, refs = [], []
    for _ in range(n):
        case = gen_frames_case(rng)
        obs, fails = run_any(case)
        cov["frames_cases"] += 1
        cov["evaluations"] += 1
        for sig, what in fails:
            report(ctx, sig, what, case)
        lines.append(json.dumps({"cmd": "frames", "reads": case["reads"], "chunks": obs["chunks"]}))
        refs.append((case, obs))
    div = []
    for (case, obs), o in zip(refs, ctx.run_model("Client", lines)):
        cov["traces_validated_against_impl"] += 1
        try:
            m = json.loads(o).get("frames")
        except ValueError:
            m = o
        if m != obs["frames"]:
            div.append({"case": case, "model": m, "impl": obs["frames"]})
    return div


def finish_cov(ctx, cov):
    c = dict(cov)
    c["distinct_nontrivial"] = len(cov["distinct"])
    del c["distinct"]
    for k in ("by_class", "by_outcome", "by_chunking", "client_refused_arguments", "engine_by_outcome"):
        c[k] = dict(sorted(cov[k].items()))
    c["rule"] = RULE
    c["operations"] = IC.OPS
    c["versions"] = VERSIONS
    ctx.coverage.update(c)


def neighbourhood(ctx, div, cov, n):
    """a model/implementation divergence: look for a concrete failing input near it, under the monitors"""
    seen = set()
    for d in div[:10]:
        case = d["case"]
        if case.get("frames"):
            continue
        key = (case["op"], case["version"], case.get("cls"))
        if key in seen:
            continue
        seen.add(key)
        extra = matrix_cases("nb-%s-%s" % (ctx.seed, key), n, ops=[case["op"]], versions=[case["version"]],
                             classes=[case["cls"]] if case.get("cls") in CLASSES else None)
        execute(ctx, extra, cov, with_model=False)


def run(ctx):
    cov = new_cov()
    quick = ctx.tier == "quick"
    # corpus first
    for case in corpus_cases():
        _, fails = run_any(case)
        cov["evaluations"] += 1
        for sig, what in fails:
            report(ctx, sig, what, case)
    div = execute(ctx, matrix_cases(ctx.seed, 6 if quick else 150), cov)
    # a slice of the matrix again with the wire / client loggers turned up to DEBUG (implementation monitors only)
    import logging as _lg
    dbg = matrix_cases(ctx.seed + 1, 1 if quick else 12)
    for k, case in enumerate(dbg):
        case["logging"] = {"loggers": [["kmip.services.kmip_protocol"], ["kmip.services.kmip_client", "kmip.pie.client"],
                                       ["kmip", "kmip.services.kmip_protocol"]][k % 3], "level": _lg.DEBUG}
    for case in dbg:
        _obs, fails = run_any(case)
        cov["evaluations"] += 1
        for sig, what in fails:
            report(ctx, sig, what, case)
    cov["cases_with_debug_logging"] = len(dbg)
    run_engine_cases(ctx, cov, ctx.seed, 3 if quick else 40)
    fdiv = run_frames_cases(ctx, cov, ctx.seed, 600 if quick else 20000)
    if div or fdiv:
        n0 = len(ctx.violations)
        neighbourhood(ctx, div, cov, 30 if quick else 200)
        if len(ctx.violations) == n0:
            d = (div or fdiv)[0]
            ctx.report("correspondence:client-model",
                       "model M8 and the real client disagree (%d scripted cases, %d framing cases); first: model %s, "
                       "implementation %s" % (len(div), len(fdiv), json.dumps(d["model"])[:200], json.dumps(d["impl"])[:200]),
                       {"broken": "correspondence Drivers/Client.lean vs ProxyKmipClient/KMIPProxy/KMIPProtocol",
                        "case": d["case"], "model": d["model"], "impl": d["impl"]}, no_input=True)
    cov["model_divergences"] = len(div) + len(fdiv)
    finish_cov(ctx, cov)
    # M16: the request ENCODER model: bytes of every generated request == RequestMessage.write; the model's bytes are read
    # back by the real decoder; frames of the real client decode alike under the real decoder and M14
    import encode_request_check
    er = encode_request_check.run(ctx, random.Random("c19-encreq-%s" % ctx.seed))
    ctx.coverage["request_encoder"] = er
    ctx.coverage["evaluations"] = ctx.coverage.get("evaluations", 0) + int(er.get("requests", 0) or er.get("evaluations", 0) or 0)


def search(ctx, broken):
    """the Lean side broke: look for a concrete failing input on the implementation alone (more cases than run)"""
    cov = new_cov()
    execute(ctx, matrix_cases("search-%s" % ctx.seed, 10 if ctx.tier == "quick" else 80), cov, with_model=False)
    run_engine_cases(ctx, cov, "search-%s" % ctx.seed, 4)
    rng = random.Random("c19-search-frames-%s" % ctx.seed)
    for _ in range(1500):
        case = gen_frames_case(rng)
        _, fails = run_any(case)
        cov["evaluations"] += 1
        for sig, what in fails:
            report(ctx, sig, what, case)
    finish_cov(ctx, cov)


def replay(ctx, rep):
    case = rep.get("replay", rep)
    case = case.get("case", case)
    if not isinstance(case, dict) or not ("op" in case or case.get("engine") or case.get("frames")):
        print("replay: no re-runnable case in this file (%s)" % (rep.get("what", "")[:200]))
        return True
    _, fails = run_any(case)
    for sig, what in fails:
        print("  %s: %s" % (sig, what[:300]))
    return not fails
