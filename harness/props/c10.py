"""C10 — concurrent sessions behave as if served one request at a time (threads on one real engine)."""
import itertools
import json
import os
import random
import sys
import threading

sys.path.insert(0, os.path.join(os.path.dirname(os.path.abspath(__file__)), "..", "lib"))
import diff_engine  # noqa: E402
import uidcanon  # noqa: E402
from gen_engine import dumps  # noqa: E402

LEAN_MODULES = ["KmipModel.Props.C10", "KmipModel.Props.C10Engine"]
RULE = ("workloads of 2-4 session threads with different identities and protocol versions, 2-3 requests each, all "
        "sharing ONE real KmipEngine; context switches are forced (tiny switch interval) and additionally injected at "
        "the lock, the access-control choke point, every commit and the protocol-version switch (seeded yields); the "
        "order in which requests obtained the engine lock is recorded; responses per thread and the final store must "
        "equal the serial execution of that order computed by the Lean model, and (when no lock order is observable) "
        "of SOME merge of the per-thread sequences; in half of the workloads one more session is busy answering "
        "undecodable / refused frames: it calls the engine's other session-facing entry point (build_error_response, "
        "as session.py does outside process_request) in a loop while the others are being served - its answers must be "
        "error responses and must not disturb the serial reading of the others; real KmipSession threads with their own "
        "certificates and the SLUGS plug-in enabled (a slow directory, so identity establishment overlaps): every "
        "request is processed under the identity of the session that sent it; "
        "non-trivial = a schedule in which at least two threads overlapped "
        "(a thread waited for the lock); distinct = distinct (workload, acquisition order)")
ASSUMPTIONS = ["CPython thread scheduling and SQLite/SQLAlchemy thread-safety with check_same_thread=False are "
               "exercised, not modelled", "cryptography backend scripted"]


def make_workload(seed):
    import gen_engine
    g = gen_engine.Gen(seed, {"groups": 0.0, "no_internal_script": True,
                              "ops": {"create": 8, "register": 4, "get": 5, "getAttributes": 5, "getAttributeList": 3,
                                      "activate": 4, "revoke": 2, "destroy": 2, "locate": 4, "modifyAttribute": 3,
                                      "setAttribute": 2, "deleteAttribute": 2, "query": 1, "discoverVersions": 1}})
    nthreads = g.ch([2, 2, 3, 3, 4])
    users = ["alice", "bob", "carol", "dave"]
    # a common prefix so that threads have objects to fight over
    prefix = []
    for k in range(3):
        ln = g.line(nitems=1, ops=["create"])
        ln["id"] = {"user": users[k % nthreads], "groups": None}
        prefix.append(ln)
    g.live = {str(i + 1): {"otype": 2, "owner": users[i % nthreads], "state": 1} for i in range(3)}
    g.created = 3
    threads = []
    for t in range(nthreads):
        reqs = []
        ver = g.ch([10, 12, 13, 14, 20])
        for _ in range(g.ch([2, 2, 3])):
            ln = g.line(nitems=1, version=ver)
            ln["id"] = {"user": users[t], "groups": None}
            ln["now"] = 1000
            reqs.append(ln)
        threads.append(reqs)
    for ln in prefix:
        ln["now"] = 1000
    return prefix, threads


class RecordingLock(object):
    """RLock replacement that records which thread obtained the lock (outermost acquisition only)"""

    def __init__(self, log, rnd):
        self._l = threading.RLock()
        self.log = log
        self.depth = {}
        self.rnd = rnd
        self.waited = 0

    def __enter__(self):
        me = threading.current_thread().name
        if not self._l.acquire(blocking=False):
            self.waited += 1
            self._l.acquire()
        d = self.depth.get(me, 0)
        if d == 0:
            self.log.append(me)
        self.depth[me] = d + 1
        return self

    def __exit__(self, *a):
        me = threading.current_thread().name
        self.depth[me] -= 1
        self._l.release()

    def acquire(self, *a, **k):
        return self.__enter__()

    def release(self):
        return self.__exit__()


def run_threads(seed):
    """one threaded execution on the real engine; returns (prefix, threads, per-thread outputs, order, dump, waited)"""
    import time
    import impl_engine
    prefix, threads = make_workload(seed)
    E = impl_engine.ImplEngine()
    rnd = random.Random(seed * 7 + 1)
    try:
        for ln in prefix:
            E.handle(ln)
        eng = E.engine
        order = []
        lock = RecordingLock(order, rnd)
        eng._lock = lock
        # the scripted backend is per-request state of the wrapper: make it thread-local
        tl = threading.local()
        E.current_script = lambda: getattr(tl, "script", None)
        inner = eng._process_operation

        def yield_point():
            if rnd.random() < 0.6:
                time.sleep(0)
            if rnd.random() < 0.15:
                time.sleep(0.0005)
        orig_get = eng._get_object_with_access_controls
        orig_set = eng._set_protocol_version

        def g2(uid, op):
            yield_point()
            r = orig_get(uid, op)
            yield_point()
            return r

        def s2(v):
            yield_point()
            orig_set(v)
            yield_point()
        eng._get_object_with_access_controls = g2
        eng._set_protocol_version = s2
        outs = [[None] * len(t) for t in threads]
        errs = []
        old = sys.getswitchinterval()
        sys.setswitchinterval(1e-6)
        barrier = threading.Barrier(len(threads))

        def worker(ti):
            try:
                barrier.wait()
                for k, ln in enumerate(threads[ti]):
                    tl.script = ln["req"]["items"][0].get("crypto")
                    msg = impl_engine.build_request(ln["req"])
                    cred = (ln["id"]["user"], None)
                    try:
                        resp, _, ver = eng.process_request(msg, cred)
                        res = []
                        for bi in resp.batch_items:
                            r = {"op": bi.operation.value.value, "bid": None if bi.unique_batch_item_id is None
                                 else bi.unique_batch_item_id.value.decode()}
                            if bi.result_status.value == impl_engine.enums.ResultStatus.SUCCESS:
                                r["status"] = "ok"
                                r["data"] = impl_engine.data_of(bi.operation.value, bi.response_payload)
                            else:
                                r["status"] = "fail"
                                r["reason"] = bi.result_reason.value.value if bi.result_reason else None
                                r["msg"] = bi.result_message.value if bi.result_message else None
                            res.append(r)
                        outs[ti][k] = {"results": res, "_version": resp.response_header.protocol_version.major * 10
                                       + resp.response_header.protocol_version.minor}
                    except impl_engine.exceptions.KmipError as e:
                        outs[ti][k] = {"rejected": e.reason.value}
                    except Exception as e:
                        outs[ti][k] = {"exception": "%s: %s" % (type(e).__name__, str(e)[:200])}
                    yield_point()
            except Exception as e:
                errs.append(repr(e))
        ths = [threading.Thread(target=worker, args=(i,), name="T%d" % i) for i in range(len(threads))]
        # a session that only ever gets error responses (malformed frames, refused versions): session.py builds
        # them through engine.build_error_response, outside process_request
        stop_noise = threading.Event()
        noise_stats = {"calls": 0, "bad": 0}

        def noise():
            from kmip.core.messages import contents
            barrier.wait()
            while not stop_noise.is_set():
                try:
                    r = eng.build_error_response(contents.ProtocolVersion(1, rnd.choice([0, 1, 2, 3, 4])),
                                                 impl_engine.enums.ResultReason.INVALID_MESSAGE,
                                                 "Error parsing request message. See server logs for more information.")
                    noise_stats["calls"] += 1
                    bi = r.batch_items[0]
                    if len(r.batch_items) != 1 or bi.result_status.value != impl_engine.enums.ResultStatus.OPERATION_FAILED:
                        noise_stats["bad"] += 1
                except Exception as e:
                    noise_stats["bad"] += 1
                    errs.append("noise: " + repr(e))
                time.sleep(0)
        with_noise = (seed % 2 == 1)
        if with_noise:
            barrier = threading.Barrier(len(threads) + 1)
            nt = threading.Thread(target=noise, name="N")
            nt.start()
        for t in ths:
            t.start()
        for t in ths:
            t.join(60)
        if with_noise:
            stop_noise.set()
            nt.join(10)
            if noise_stats["bad"]:
                errs.append("noise session: %d answers were not one-item error responses" % noise_stats["bad"])
        sys.setswitchinterval(old)
        dump = E.dump()
        return prefix, threads, outs, [int(n[1:]) for n in order], dump, lock.waited, errs
    finally:
        E.close()


def case(seed):
    try:
        return run_threads(seed)
    except Exception as e:
        import traceback
        return ("error", traceback.format_exc()[-1500:])


def serial_lines(prefix, threads, order):
    lines = list(prefix)
    idx = [0] * len(threads)
    for t in order:
        lines.append(threads[t][idx[t]])
        idx[t] += 1
    return lines + [{"cmd": "dump"}]


def merges(counts):
    """all interleavings of threads with the given numbers of requests"""
    seq = []
    for t, c in enumerate(counts):
        seq += [t] * c
    return sorted(set(itertools.permutations(seq)))


def run(ctx):
    import multiprocessing
    n = 240 if ctx.tier == "quick" else 4000
    seeds = [ctx.seed * 100003 + i for i in range(n)]
    with multiprocessing.get_context("fork").Pool(8) as pool:
        res = pool.map(case, seeds, chunksize=2)
    hist, meta = [], []
    overlapped = 0
    unobservable = 0
    distinct = set()
    for sd, r in zip(seeds, res):
        if r[0] == "error":
            raise RuntimeError("threaded run failed: %s" % r[1])
        prefix, threads, outs, order, dump, waited, errs = r
        if errs:
            raise RuntimeError("worker error: %s" % errs)
        counts = [len(t) for t in threads]
        if waited:
            overlapped += 1
        observable = sorted(order) == sorted(t for t, c in enumerate(counts) for _ in range(c))
        if observable:
            cand = [tuple(order)]
        else:
            # no lock order to go by: try every merge, for small workloads only (bounded work)
            if sum(counts) > 7 or unobservable >= 25:
                continue
            unobservable += 1
            cand = merges(counts)
        meta.append((sd, prefix, threads, outs, order, dump, observable, cand))
        distinct.add((sd, tuple(order)))
        for c in cand:
            hist.append(serial_lines(prefix, threads, c))
    model = diff_engine.run_model_many(ctx, hist)
    k = 0
    for sd, prefix, threads, outs, order, dump, observable, cand in meta:
        ok = False
        first_bad = None
        for c in cand:
            mo = model[k]
            k += 1
            idx = [0] * len(threads)
            good = True
            pos = len(prefix)
            for t in c:
                a = uidcanon.canon_out(threads[t][idx[t]], outs[t][idx[t]])    # echoed identifier spellings
                idx[t] += 1
                b = mo[pos]
                pos += 1
                if "exception" in (a or {}) or diff_engine.obs_out(a) != diff_engine.obs_out(b):
                    good = False
                    first_bad = first_bad or (t, a, b)
                    break
                if "results" in a and a.get("_version") != threads[t][idx[t] - 1]["req"]["version"]:
                    good = False
                    first_bad = first_bad or (t, a, "answered under version %s" % a.get("_version"))
                    break
            if good and mo[-1].get("objs") != dump.get("objs"):
                good = False
                first_bad = first_bad or ("final-store", dump.get("objs"), mo[-1].get("objs"))
            if good:
                ok = True
        if not ok:
            what = "responses / final store of a threaded run equal no serial execution (%s)" % (
                "recorded lock order %s" % order if observable else "lock order not observable: all merges tried")
            ctx.report("c10:not-serializable" if observable else "c10:not-serializable:no-lock-order",
                       what + "; first difference: %s" % str(first_bad)[:400],
                       {"kind": "threads", "seed": sd, "prefix": prefix, "threads": threads, "observed": outs,
                        "lock_order": order, "final_store": dump.get("objs")})
    ctx.coverage.update({
        "evaluations": len(meta), "distinct_nontrivial": len(distinct), "rule": RULE,
        "samples": [{"seed": meta[0][0], "threads": [[ln["req"]["items"][0]["op"] for ln in t] for t in meta[0][2]],
                     "lock_order": meta[0][4]}],
        "schedules_with_lock_contention": overlapped, "serial_candidates_evaluated": len(hist),
        "traces_validated_against_impl": len(meta)})
    session_threads_part(ctx)
    handoff_part(ctx)


def session_threads_case(seed):
    """2-3 REAL KmipSession threads (own fake TLS connection and client certificate each) on ONE real engine, with the
    SLUGS plug-in enabled and a directory that answers slowly: identity establishment of the sessions overlaps.
    -> list of (signature, what): every request must be processed under the identity of the session that sent it"""
    import time
    import impl_session as S
    import gen_session as G
    from kmip.services.server import session as session_mod
    rnd = random.Random(seed)
    users = ["alice", "bob", "carol"][:rnd.choice([2, 2, 3])]
    groups = {"alice": ["ga", "shared"], "bob": ["gb"], "carol": []}
    url = "http://slugs0.example"

    class SlowSlugs(object):
        def get(self, u, timeout=None, **kw):
            time.sleep(rnd.choice([0, 0.0005, 0.002]))
            i = u.find("/users/")
            rest = u[i + 7:]
            user = rest.split("/")[0]
            if user not in groups:
                return S.FakeHttpResponse(404, "invalid")
            time.sleep(rnd.choice([0, 0.001]))
            return S.FakeHttpResponse(200, {"groups": list(groups[user])})
    rig = S.Rig()
    fails = []
    saved = S.slugs_mod.requests
    S.slugs_mod.requests = S._RequestsShim(SlowSlugs())
    old = sys.getswitchinterval()
    try:
        log = []
        orig = rig.engine.process_request

        def recording(request, credential=None):
            bid = None
            try:
                bid = request.batch_items[0].unique_batch_item_id.value.decode()
            except Exception:
                pass
            log.append((bid, credential))
            return orig(request, credential)
        rig.engine.process_request = recording
        nreq = rnd.choice([2, 3, 4])
        same_serial = (770000 + seed % 1000) if seed % 2 == 0 else None
        conns = {}
        for u in users:
            frames = [G.encode_request(G.mkreq(12, [{"op": "query", "bid": "%s-%d" % (u, k), "crypto": None,
                                                      "functions": [1]}])) for k in range(nreq)]
            # every other workload: the sessions' certificates carry the SAME serial number (serial numbers are
            # unique per issuer only: two authorities, or test authorities that count from 1)
            conns[u] = S.FakeConn([b"".join(frames)], S.make_cert((u,), "client", serial=same_serial))
        sys.setswitchinterval(1e-6)
        barrier = threading.Barrier(len(users))

        # ONE settings object for all sessions, as KmipServer hands its auth_settings to every session it starts
        settings = [("auth:slugs", {"enabled": "True", "url": url})]

        def serve(u):
            sess = session_mod.KmipSession(rig.engine, conns[u], ("192.0.2.9", 40001), name="s-" + u,
                                           enable_tls_client_auth=True, auth_settings=settings)
            barrier.wait()
            sess.run()
        ths = [threading.Thread(target=serve, args=(u,), name="S-" + u) for u in users]
        for t in ths:
            t.start()
        for t in ths:
            t.join(60)
        for bid, cred in log:
            u = (bid or "?").split("-")[0]
            want = (u, groups.get(u))
            got = (cred[0], None if cred[1] is None else list(cred[1])) if cred else None
            if got != want:
                fails.append(("c10:session-identity-of-another-session",
                              "the request %s sent on %s's connection was processed under identity %r (established for that "
                              "session: %r)" % (bid, u, got, want)))
        if len(log) != nreq * len(users):
            fails.append(("c10:session-requests-not-all-served", "%d requests were sent on %d connections, %d reached the engine"
                          % (nreq * len(users), len(users), len(log))))
    finally:
        sys.setswitchinterval(old)
        S.slugs_mod.requests = saved
        rig.close()
    return fails


def session_threads_part(ctx):
    n = 24 if ctx.tier == "quick" else 400
    import multiprocessing
    seeds = [ctx.seed * 7919 + 1000 + i for i in range(n)]
    with multiprocessing.get_context("fork").Pool(6) as pool:
        res = pool.map(session_threads_case, seeds)
    for sd, fails in zip(seeds, res):
        for sig, what in fails:
            ctx.report(sig, what, {"kind": "session-threads", "seed": sd})
    ctx.coverage["session_thread_workloads"] = n
    ctx.coverage["evaluations"] = ctx.coverage.get("evaluations", 0) + n


# ------------------------------------------------------------------ strict hand-offs between session threads
def handoff_case(seed):
    """Two (or three) client threads on ONE engine take turns in a fixed global order: a thread READS an object, another
    thread CHANGES it (Activate, Revoke, ModifyAttribute, Destroy), the first thread looks again and acts on what it
    sees.  Every answer and the final store must be exactly those of the same requests served from a single thread in
    that global order on a fresh engine (whatever a thread keeps between its requests - a session of its own, cached
    rows - must not show).  Implementation against implementation; no model involved."""
    import impl_engine
    from gen_engine import hexof
    r = random.Random(seed)
    nthreads = r.choice([2, 2, 3])

    def ln(item, ver=14):
        item = dict({"bid": None, "crypto": None}, **item)
        return {"cmd": "req", "now": 1000, "id": {"user": "alice", "groups": None},
                "req": {"version": ver, "ts": None, "async": None, "bopt": None, "maxsize": None, "items": [item]}}

    def A(name, kind, v, index=None, **kw):
        d = {"k": kind, "v": v}
        d.update(kw)
        return {"name": name, "index": index, "value": d}
    attrs = [A("Cryptographic Algorithm", "enum", 3), A("Cryptographic Length", "int", 128),
             A("Cryptographic Usage Mask", "int", 12), A("Name", "name", "k0", 0, t=1)]
    prefix = [ln({"op": "create", "otype": 2, "tmpl": {"tnames": 0, "attrs": attrs}, "crypto": {"k": "ok", "t": hexof(16, rnd=r)}})
              for _ in range(3)]
    reads = [lambda u: {"op": "getAttributes", "uid": u, "names": []},
             lambda u: {"op": "get", "uid": u, "format": None, "compression": False, "wrap": None},
             lambda u: {"op": "getAttributeList", "uid": u},
             lambda u: {"op": "locate", "max": None, "offset": None, "attrs": [A("State", "enum", 1)]}]
    writes = [lambda u: {"op": "activate", "uid": u},
              lambda u: {"op": "revoke", "uid": u, "code": r.choice([1, 2])},
              lambda u: {"op": "modifyAttribute", "uid": u, "attr": A("Name", "name", "renamed%d" % r.randrange(99), 0, t=1),
                         "current": None, "new": None},
              lambda u: {"op": "destroy", "uid": u}]
    order = []          # [(thread, line)]
    for _ in range(r.choice([4, 5, 6])):
        u = str(r.choice([1, 2, 3]))
        a, b = r.sample(range(nthreads), 2)
        order.append((a, ln(r.choice(reads)(u))))
        order.append((b, ln(r.choice(writes)(u))))
        order.append((a, ln(r.choice(reads)(u))))
        order.append((a, ln(r.choice(writes + reads)(u))))

    def serve(eng, line):
        msg = impl_engine.build_request(line["req"])
        try:
            resp, _, ver = eng.process_request(msg, (line["id"]["user"], None))
        except impl_engine.exceptions.KmipError as e:
            return {"rejected": e.reason.value}
        except Exception as e:
            return {"exception": "%s: %s" % (type(e).__name__, str(e)[:200])}
        res = []
        for bi in resp.batch_items:
            x = {"op": bi.operation.value.value}
            if bi.result_status.value == impl_engine.enums.ResultStatus.SUCCESS:
                x["status"] = "ok"
                x["data"] = impl_engine.data_of(bi.operation.value, bi.response_payload)
            else:
                x["status"] = "fail"
                x["reason"] = bi.result_reason.value.value if bi.result_reason else None
                x["msg"] = bi.result_message.value if bi.result_message else None
            res.append(x)
        return {"results": res}

    def run(threaded):
        E = impl_engine.ImplEngine()
        try:
            for p in prefix:
                E.handle(p)
            eng = E.engine
            outs = [None] * len(order)
            if not threaded:
                for k, (t, line) in enumerate(order):
                    outs[k] = serve(eng, line)
            else:
                turn = [0]
                cv = threading.Condition()
                errs = []

                def worker(ti):
                    try:
                        for k, (t, line) in enumerate(order):
                            if t != ti:
                                continue
                            with cv:
                                while turn[0] != k:
                                    cv.wait(10)
                                    if errs:
                                        return
                            outs[k] = serve(eng, line)
                            with cv:
                                turn[0] = k + 1
                                cv.notify_all()
                    except Exception as e:
                        errs.append(repr(e))
                        with cv:
                            cv.notify_all()
                ths = [threading.Thread(target=worker, args=(i,), name="H%d" % i) for i in range(nthreads)]
                for th in ths:
                    th.start()
                for th in ths:
                    th.join(60)
                if errs or any(th.is_alive() for th in ths):
                    return None, None, errs or ["a thread did not finish"]
            return outs, E.dump(), []
        finally:
            E.close()
    s_outs, s_dump, _ = run(False)
    t_outs, t_dump, errs = run(True)
    fails = []
    if errs:
        return [("c10:handoff-thread-error", "threads did not finish: %s" % errs[:2])], len(order)
    for k, ((t, line), a, b) in enumerate(zip(order, t_outs, s_outs)):
        if diff_engine.obs_out(a) != diff_engine.obs_out(b):
            it = line["req"]["items"][0]
            fails.append(("c10:answer-differs-from-serial-order:%s" % it["op"],
                          "step %d (thread %d, %s %s): served by its own thread in turn it is answered %s; the same global "
                          "order from ONE thread gives %s; the steps before it: %s"
                          % (k, t, it["op"], it.get("uid"), json.dumps(diff_engine.obs_out(a))[:300],
                             json.dumps(diff_engine.obs_out(b))[:300],
                             [(tt, l["req"]["items"][0]["op"], l["req"]["items"][0].get("uid")) for tt, l in order[max(0, k - 4):k]])))
            break
    if not fails and (t_dump or {}).get("objs") != (s_dump or {}).get("objs"):
        fails.append(("c10:final-store-differs-from-serial-order", "the final store of the threaded run differs from the serial one"))
    return fails, len(order)


def slow_request_case(args):
    """ONE request stays inside the engine for `stall` seconds (its key generation blocks - an entropy-starved host, a
    hardware module, a huge key) while another session's request arrives and has to WAIT, however long that takes:
    both are answered as in the serial order [slow, waiting], each object belongs to the session that asked for it, each
    is evaluated under its own protocol version.  Implementation alone."""
    import time
    import impl_engine
    from gen_engine import hexof
    seed, stall = args
    r = random.Random(seed)
    va, vb = r.choice([(20, 12), (12, 20), (14, 10), (20, 14)])
    attrs = lambda name: [{"name": "Cryptographic Algorithm", "index": None, "value": {"k": "enum", "v": 3}},
                          {"name": "Cryptographic Length", "index": None, "value": {"k": "int", "v": 128}},
                          {"name": "Cryptographic Usage Mask", "index": None, "value": {"k": "int", "v": 12}},
                          {"name": "Name", "index": 0, "value": {"k": "name", "v": name, "t": 1}}]
    E = impl_engine.ImplEngine()
    fails = []
    try:
        eng = E.engine
        ce = eng._cryptography_engine
        inside, go = threading.Event(), threading.Event()
        orig = ce.create_symmetric_key
        first = [True]

        def slow_create(*a, **kw):
            if first[0]:
                first[0] = False
                inside.set()
                go.wait(stall + 60)
            return {"value": bytes.fromhex(hexof(16, rnd=r)), "format": impl_engine.enums.KeyFormatType.RAW}
        ce.create_symmetric_key = slow_create
        res = {}

        def client(user, ver, name):
            rq = {"version": ver, "ts": None, "async": None, "bopt": None, "maxsize": None,
                  "items": [{"op": "create", "bid": None, "crypto": None, "otype": 2, "tmpl": {"tnames": 0, "attrs": attrs(name)}}]}
            t0 = time.time()
            try:
                resp, _, pv = eng.process_request(impl_engine.build_request(rq), (user, None))
                bi = resp.batch_items[0]
                ok = bi.result_status.value == impl_engine.enums.ResultStatus.SUCCESS
                res[user] = {"ok": ok, "uid": getattr(bi.response_payload.unique_identifier, "value", bi.response_payload.unique_identifier) if ok else None,
                             "reason": None if ok else bi.result_reason.value.name, "version": [pv.major, pv.minor],
                             "wall": round(time.time() - t0, 1)}
            except Exception as e:
                res[user] = {"ok": False, "exception": "%s: %s" % (type(e).__name__, str(e)[:160]), "wall": round(time.time() - t0, 1)}
        ta = threading.Thread(target=client, args=("alice", va, "alices-key"))
        tb = threading.Thread(target=client, args=("bob", vb, "bobs-key"))
        ta.start()
        if not inside.wait(30):
            return [("c10:slow-request-harness", "the slow request never reached the backend")], 0
        tb.start()
        tb.join(stall)            # bob has to wait all this time
        bob_early = dict(res.get("bob") or {}) if "bob" in res else None
        go.set()
        ta.join(60)
        tb.join(60)
        ce.create_symmetric_key = orig
        if ta.is_alive() or tb.is_alive():
            return [("c10:slow-request-never-finished", "a client thread did not finish: %s" % res)], 2
        what = "alice (KMIP %d) stays %ds in the engine, bob (KMIP %d) arrives meanwhile: %s" % (va, stall, vb, json.dumps(res, sort_keys=True))
        if bob_early is not None:
            fails.append(("c10:waiting-request-answered-before-its-turn", "bob was answered while alice's request was still inside "
                          "the engine (%s): %s" % (json.dumps(bob_early), what)))
        for u, v in (("alice", va), ("bob", vb)):
            if not res.get(u, {}).get("ok"):
                fails.append(("c10:slow-request-failed:%s" % u, "%s's Create did not succeed: %s" % (u, what)))
            elif res[u]["version"] != [v // 10, v % 10]:
                fails.append(("c10:slow-request-version:%s" % u, "%s was answered under version %s: %s" % (u, res[u]["version"], what)))
        dump = E.dump()
        owners = dict((str(o["uid"]), o["owner"]) for o in dump["objs"])
        names = dict((str(o["uid"]), o["names"]) for o in dump["objs"])
        for u in ("alice", "bob"):
            uid = res.get(u, {}).get("uid")
            if uid is not None and owners.get(str(uid)) != u:
                fails.append(("c10:object-stored-under-other-identity", "%s's object %s belongs to %r: %s" % (u, uid, owners.get(str(uid)), what)))
        if sorted(owners.values(), key=str) != ["alice", "bob"][:len(owners)] and len(owners) == 2:
            fails.append(("c10:object-stored-under-other-identity", "two Creates by alice and bob left owners %s: %s" % (sorted(owners.values(), key=str), what)))
        if len(owners) != sum(1 for u in ("alice", "bob") if res.get(u, {}).get("ok")):
            fails.append(("c10:stored-objects-differ-from-answers", "%d objects stored, answers: %s" % (len(owners), what)))
    finally:
        E.close()
    return fails, 2


def _pool_case(a):
    return slow_request_case(a[1]) if a[0] == "slow" else handoff_case(a[1])


def handoff_part(ctx):
    import multiprocessing
    n = 40 if ctx.tier == "quick" else 800
    seeds = [ctx.seed * 6007 + 5000 + i for i in range(n)]
    # slow requests first (they take their stall time whatever else happens): 12 s at quick, up to 45 s at thorough
    slow = [(ctx.seed * 31 + k, st) for k, st in enumerate([12, 12] if ctx.tier == "quick" else [12, 20, 31, 45, 12, 20])]
    with multiprocessing.get_context("fork").Pool(8) as pool:
        allres = pool.map(_pool_case, [("slow", a) for a in slow] + [("handoff", sd) for sd in seeds], chunksize=1)
    sres, res = allres[:len(slow)], allres[len(slow):]
    steps = 0
    for a, (fails, k) in zip(slow, sres):
        steps += k
        for sig, what in fails:
            ctx.report(sig, what, {"kind": "slow-request", "seed": a[0], "stall": a[1]})
    ctx.coverage["slow_request_schedules"] = [list(a) for a in slow]
    for sd, (fails, k) in zip(seeds, res):
        steps += k
        for sig, what in fails:
            ctx.report(sig, what, {"kind": "handoff", "seed": sd})
    ctx.coverage["handoff_schedules"] = n
    ctx.coverage["handoff_steps"] = steps
    ctx.coverage["evaluations"] = ctx.coverage.get("evaluations", 0) + steps


def search(ctx, broken):
    ctx.tier = "thorough" if ctx.tier == "thorough" else "quick"
    run(ctx)


def replay(ctx, rep):
    r = rep.get("replay", rep)
    if r.get("kind") == "handoff":
        bad = 0
        for _ in range(5):
            fails, _k = handoff_case(r["seed"])
            for sig, what in fails[:1]:
                print("  %s: %s" % (sig, what[:400]))
            bad += 1 if fails else 0
        return bad == 0
    if r.get("kind") == "slow-request":
        fails, _k = slow_request_case((r["seed"], r["stall"]))
        for sig, what in fails:
            print("  %s: %s" % (sig, what[:500]))
        return not fails
    if r.get("kind") == "session-threads":
        bad = 0
        for _ in range(10):
            fails = session_threads_case(r["seed"])
            bad += 1 if fails else 0
        print("  runs (of 10) in which a request was processed under another session's identity: %d" % bad)
        return bad == 0
    c2 = type(ctx)(ctx.pid, "quick", ctx.seed, None)
    bad = 0
    for _ in range(20):
        res = case(r["seed"])
        prefix, threads, outs, order, dump, waited, errs = res
        counts = [len(t) for t in threads]
        observable = sorted(order) == sorted(t for t, c in enumerate(counts) for _ in range(c))
        cand = [tuple(order)] if observable else merges(counts)
        hist = [serial_lines(prefix, threads, c) for c in cand]
        model = diff_engine.run_model_many(c2, hist)
        ok = False
        for c, mo in zip(cand, model):
            idx = [0] * len(threads)
            pos = len(prefix)
            good = True
            for t in c:
                a = uidcanon.canon_out(threads[t][idx[t]], outs[t][idx[t]])
                idx[t] += 1
                if "exception" in (a or {}) or diff_engine.obs_out(a) != diff_engine.obs_out(mo[pos]):
                    good = False
                    break
                pos += 1
            if good and mo[-1].get("objs") == dump.get("objs"):
                ok = True
        if not ok:
            bad += 1
    print("  non-serializable runs in 20 repetitions: %d" % bad)
    return bad == 0
