"""C01 — TTLV codec round trip for every encodable value and KMIP version."""
import copy
import json
import os
import random
import sys
import time

sys.path.insert(0, os.path.join(os.path.dirname(os.path.abspath(__file__)), "..", "lib"))
IC = CC = None


def _libs():
    """imported lazily: vcheck re-imports kmip from the working tree (gen_tables) after this module is loaded"""
    global IC, CC
    if IC is None:
        import impl_codec
        import codec_check
        IC, CC = impl_codec, codec_check

LEAN_MODULES = ["KmipModel.Props.C01", "KmipModel.Props.C01Schema", "KmipModel.Props.C01Gen"]
RULE = ("primitives: every primitive class on boundary pools (length mod 8 in 0..7; +-2^7..2^64 +-{0,1,2}; "
        "+-2^(64k), +-2^(64k-1), k<=4, +-{0,1,2}; 0/False/empty; non-ASCII text; own enum class at Enumeration.MIN/MAX) "
        "under rotating tags: constructor verdict, write verdict and bytes compared with the Lean model M2, round trip "
        "checked on the implementation; byte-level neighbours of the encodings (header, length field, padding, "
        "truncation, extension, random bytes) decoded by implementation and model, decode-encode-decode on every "
        "accepted one.  Structures: every Struct subclass of kmip.core.* for which an instance can be obtained "
        "(decoding the unit-test fixtures' vectors and all their nested items, real request/response traffic of a "
        "driven KmipEngine, a few hand-made seeds), each seed plus: constructor rebuild, subsets of populated "
        "constructor arguments dropped (exhaustive when <= tier bound), unpopulated arguments filled, leaf values "
        "replaced by boundary values, list elements dropped/duplicated; each instance under KMIP 1.0,1.1,1.2,1.3,1.4,2.0: "
        "encode, decode with a fresh instance, no residue, re-encode == bytes, structural comparison (not __eq__), "
        "and one shared object encoded under the versions up and down against fresh-copy encodings; decoded values "
        "are independent: after further values of the class were decoded with fresh instances, a value decoded "
        "earlier must still re-encode to the same bytes.  Falsy values: "
        "for every class and every constructor argument holding a primitive (raw value, primitive object, or list of "
        "them; unpopulated arguments filled from other examples), a truthy and a falsy sibling (False, 0, '', b'', "
        "[], enum member 0), alone and with the other arguments, under every version: where the truthy sibling's "
        "attribute survives decode(encode(x)) the falsy one's must too (falsy_combinations = distinct (class, field, "
        "falsy value, version) that encoded and decoded).  Field discovery: every constructor argument no example "
        "populates is probed with a typed candidate pool (raw values, a member of every enumeration class, an instance "
        "of every primitive subclass and every structure class, lists of them, ordered by name resemblance); a value "
        "the constructor keeps that is encoded and decoded without complaint and comes back under no version is "
        "c01:field-never-roundtrips (excluded: `tag`; arguments for which no candidate is both accepted and encodable "
        "are listed in fields_unprobed).  Nesting: every structure-valued or list-of-structure argument of every class "
        "receives the rich instances of the nested class (most populated example, remaining arguments filled in; truthy "
        "and falsy variant); where the container delegates to the nested class's writer (its encoding under some "
        "version is a substring of the container's) what comes back inside the container under v must lose nothing the "
        "nested class's own codec keeps under v.  Schema layer "
        "(M3): for every class of the Lean schema table, real encodings and their child-level neighbours (child "
        "dropped / duplicated / moved / re-typed within a layout-compatible type / a foreign primitive child inserted) "
        "are given to the class's reader and to Lean decodeS: same accept/reject and same re-encode stability; the same "
        "for every class of the GENERATED schema tables (translator over read()/write(), ~94 classes), whose read and "
        "write tables must agree (gen_read_write_agree) apart from the listed, witnessed differences.  "
        "distinct_nontrivial = distinct (class, version, presence mask of fields, length mod 8) that encoded, plus "
        "distinct (primitive class, value) that encoded, plus distinct accepted mutated byte strings.")
ASSUMPTIONS = [
    "a value made by REMOVING a field from a decodable value, or by replacing an enumeration that other fields "
    "depend on, may be incomplete/inconsistent (the classes do not validate completeness at construction): for those "
    "the decoder may reject the encoding; everything else is still required",
    "a decoded-vs-original difference that appears exactly for the versions below or above some version is "
    "version gating (the field is not defined there), not a violation; a difference under every version is",
    "leaves named batch_count / major / minor / attribute_name are not replaced (they select classes or counts "
    "elsewhere in the same value)",
]
TRUSTED = ["M3 schema tables: (a) 32 hand-written schemas (KmipModel/Schemas.lean), (b) GENERATED on every run by the "
           "translator harness/gen_schemas.py from the read() and write() methods of every Struct class of /repo (two "
           "independent field tables per class: KmipModel/Gen/SchemasGen.lean); the translator's classification of "
           "statement forms and its live-class tag/kind oracle are trusted and cross-checked by the acceptance of "
           "child-level neighbours of real encodings; classes it does not recognise are listed in the evidence "
           "(schema_gen_unrecognised) and checked on the implementation only (monitors)."]


def classify_unencodable(kind, val):
    if kind == "TextString" and any(ord(c) > 127 for c in val):
        return "c01:unencodable:TextString-non-ascii"
    if kind == "Interval" and val == 2 ** 32:
        return "c01:unencodable:Interval-2^32"
    if kind == "Enumeration" and val.value == 2 ** 32:
        return None   # same off-by-one bound; needs an enum class of the caller's own: noted, not reported
    return "c01:unencodable:%s:%s" % (kind, str(val)[:40])


def prim_fault_signature(kind, val, fault):
    if kind == "TextString" and len(val.encode("utf-8", "surrogatepass")) % 8 == 0 and ("re-encode differs" in fault or "residue" in fault
                                                      or "third encoding" in fault):
        return "c01:reencode-differs:TextString-length-multiple-of-8"
    return "c01:prim-roundtrip:%s:%s" % (kind, fault.split(" (")[0][:40])


def prim_phase(ctx, rng, cov):
    extra = 40 if ctx.tier == "quick" else 600
    cases = CC.prim_cases(rng, extra)
    impl = []
    lines = []
    for c in cases:
        kind, ec, val, tag = c
        r, o = CC.run_prim_impl(c)
        impl.append((r, o))
        lines.append(json.dumps({"op": "enc", "ty": IC.PRIM[kind], "tag": tag.value,
                                 "v": IC.prim_json_value(kind, val)}))
    outs = ctx.run_model("Codec", lines)
    divergences = []
    distinct = set()
    n_ok = 0
    kinds = {}
    for c, (r, o), line, out in zip(cases, impl, lines, outs):
        kind, ec, val, tag = c
        kinds[kind] = kinds.get(kind, 0) + 1
        if out.startswith("bad-"):
            raise RuntimeError("driver: %s on %s" % (out, line))
        m = json.loads(out)
        # monitor (implementation alone)
        if r["ctor"] and r["enc"] is None:
            sig = classify_unencodable(kind, val)
            if sig is None:
                cov["notes"].add("Enumeration(own enum class, value 2^32) constructs and cannot be written "
                                 "(Enumeration.MAX has the same off-by-one as Interval.MAX)")
            else:
                ctx.report(sig, "%s(%r) is accepted by the constructor but write() raises %s"
                           % (kind, val if kind != "Enumeration" else val.value, r["exc"]),
                           {"kind": "prim", "class": kind, "value": IC.prim_json_value(kind, val), "tag": tag.value,
                            "enum": ec.__name__ if ec else None})
        faults = []
        if r["enc"] is not None:
            n_ok += 1
            distinct.add((kind, str(IC.prim_json_value(kind, val))))
            faults = CC.prim_roundtrip_faults(c, o, r["enc"])
            for f in faults:
                ctx.report(prim_fault_signature(kind, val, f), "%s(%r): %s" % (kind, val, f),
                           {"kind": "prim", "class": kind, "value": IC.prim_json_value(kind, val), "tag": tag.value,
                            "enum": ec.__name__ if ec else None})
        # correspondence with M2
        same = (m["constructible"] == r["ctor"])
        if r["ctor"]:
            if r["enc"] is not None:
                same = same and m["py"].get("ok") == r["enc"].hex()
                # what the decoded object writes (M2 pyReencode)
                try:
                    o2 = IC.fresh_prim(kind, tag, ec)
                    o2.read(IC.utils.BytearrayStream(r["enc"]))
                    same = same and m.get("pyre") == IC.enc(o2).hex()
                except Exception:
                    same = False
            else:
                same = same and "err" in m["py"]
        if not same:
            divergences.append({"case": json.loads(line), "impl": {"ctor": r["ctor"], "exc": r["exc"],
                                "enc": r["enc"].hex() if r["enc"] else None}, "model": m,
                                "monitor_failed": bool(r["ctor"] and r["enc"] is None) or bool(r["enc"] and faults)})
    cov["prim_values"] = len(cases)
    cov["prim_encoded"] = n_ok
    cov["prim_by_class"] = kinds
    # decoders on byte-level neighbours
    dec_lines = []
    dec_cases = []
    per_kind = 10 if ctx.tier == "quick" else 80
    by_kind = {}
    for c, (r, o) in zip(cases, impl):
        if r["enc"] is not None:
            by_kind.setdefault(c[0], []).append((c, r["enc"]))
    for kind, lst in sorted(by_kind.items()):
        rng.shuffle(lst)
        for (c, b) in lst[:per_kind]:
            _, ec, val, tag = c
            members = None
            if kind == "Enumeration":
                members = sorted(set(m.value for m in ec if isinstance(m.value, int) and m.value >= 0))
            for mb in [b] + IC.mutate_bytes(b, rng, 6 if ctx.tier == "quick" else 40):
                dec_cases.append((kind, ec, tag, mb))
                dec_lines.append(json.dumps({"op": "dec", "ty": IC.PRIM[kind], "tag": tag.value, "members": members,
                                             "hex": mb.hex()}))
    douts = ctx.run_model("Codec", dec_lines)
    n_acc = 0
    for (kind, ec, tag, mb), line, out in zip(dec_cases, dec_lines, douts):
        if out.startswith("bad-"):
            raise RuntimeError("driver: %s on %s" % (out, line))
        m = json.loads(out)
        obs, o = CC.prim_decode_impl(kind, ec, tag, mb)
        if obs["ok"]:
            n_acc += 1
            distinct.add(("dec", kind, mb))
            for f in CC.prim_ded_faults(kind, ec, tag, o):
                ctx.report(prim_fault_signature(kind, o.value, f) if kind == "TextString"
                           else "c01:prim-decode-encode-decode:%s" % kind, "%s accepts %s but %s" % (kind, mb.hex(), f),
                           {"kind": "prim-bytes", "class": kind, "hex": mb.hex(), "tag": tag.value,
                            "enum": ec.__name__ if ec else None})
        same = obs["ok"] == m["ok"] and (not obs["ok"] or (obs["v"] == m["v"] and obs["rest"] == m["rest"]))
        if not same:
            divergences.append({"case": json.loads(line), "impl": obs, "model": m, "monitor_failed": False})
    cov["prim_decodes"] = len(dec_cases)
    cov["prim_decodes_accepted"] = n_acc
    return divergences, distinct


def struct_phase(ctx, cov):
    run = CC.StructRun(ctx.seed, ctx.tier).run()
    for f in run.findings:
        ctx.report(f.signature, f.what, f.replay)
    classes = run.lib.classes
    covered = [k for k in sorted(classes) if run.per_class.get(k, {}).get("stats", {}).get("encoded")]
    own = [k for k in sorted(classes) if classes[k][1]]
    cov["struct_classes_total"] = len(classes)
    cov["struct_classes_with_own_read_write"] = len(own)
    cov["struct_classes_encoded"] = len(covered)
    cov["struct_classes_uncovered"] = [k.replace("kmip.core.", "") for k in sorted(classes) if k not in covered]
    cov["struct_instances"] = run.evaluations
    cov["nested_pairs_fully_populated"] = len(getattr(run, "nested_pairs_full", []))
    cov["nested_pairs_partially_populated"] = len(getattr(run, "nested_pairs_partial", []))
    cov["nested_pairs"] = ["%s<-%s" % p for p in getattr(run, "nested_pairs_full", [])]
    cov["nested_pairs_partial"] = ["%s<-%s" % p for p in getattr(run, "nested_pairs_partial", [])]
    cov["fields_excluded_from_never_roundtrips"] = getattr(run, "excluded_fields", {})
    cov["fields_unprobed"] = {k.replace("kmip.core.", ""): v["fields_unprobed"] for k, v in sorted(run.per_class.items())
                              if v.get("fields_unprobed")}
    cov["falsy_combinations"] = getattr(run, "falsy_combinations", 0)
    cov["falsy_per_class"] = getattr(run, "falsy_per_class", {})
    cov["struct_stats"] = dict(sorted(run.stats.items()))
    cov["struct_library"] = run.lib.stats
    cov["struct_per_class"] = {k.replace("kmip.core.", ""): {"instances": v.get("instances"),
                                                              "encoded": v.get("stats", {}).get("encoded", 0),
                                                              "roundtrips": v.get("stats", {}).get("roundtrips", 0)}
                               for k, v in sorted(run.per_class.items())}
    return run


def schema_phase(ctx, run_, rng, cov):
    """M3 correspondence: on child-level neighbours of real encodings the reader of /repo and decodeS of the
    schema table must accept exactly the same sequences; what the reader accepts must re-encode to itself"""
    names = json.loads(ctx.run_model("Codec", [json.dumps({"op": "schemas"})])[0])
    cases = CC.schema_cases(run_, names, rng, ctx.tier)
    lines = [json.dumps({"op": "schema", "name": n, "ver": vn, "hex": b.hex()}) for (n, vn, d, b, acc, st) in cases]
    outs = ctx.run_model("Codec", lines) if lines else []
    div = []
    per = {}
    for (n, vn, d, b, acc, st), out in zip(cases, outs):
        if out.startswith("bad-"):
            raise RuntimeError("driver: %s" % out)
        m = json.loads(out)
        pc = per.setdefault(n, {"cases": 0, "accepted": 0})
        pc["cases"] += 1
        pc["accepted"] += 1 if acc else 0
        if acc and st is False and not (n == "ResponseHeader" and m.get("ok") and not m.get("stable")):
            ctx.report("c01:decode-encode-decode-unstable:%s" % n,
                       "%s under KMIP %s accepts a child sequence (%s) and does not write it back" % (n, vn, d),
                       {"kind": "struct-bytes", "class": n, "version": vn, "hex": b.hex()})
        if m.get("why") == "ttlv":
            continue
        if d == "valid" and not acc:
            continue      # the class rejects its own encoding: reported by the structure monitors above
        if bool(m.get("ok")) != acc or (acc and m.get("stable") != st):
            div.append({"class": n, "version": vn, "variant": d, "hex": b.hex(), "impl_accepts": acc,
                        "impl_stable": st, "model": m})
    cov["schema_classes"] = names
    cov["schema_cases"] = len(cases)
    cov["schema_per_class"] = per
    cov["schema_divergences"] = len(div)
    if div:
        ctx.report("correspondence:schema-table", "the M3 schema table and the readers of /repo disagree on %d child "
                   "sequences, e.g. %s" % (len(div), json.dumps(div[0])[:400]),
                   {"broken": "correspondence KmipModel/Schemas.lean vs read()/write() of the class", "cases": div[:5]},
                   no_input=True)
    return len(cases)


def big_value_of(mo):
    """the value bytes of a decoded Opaque Object / Secret Data"""
    if hasattr(mo, "opaque_data_value"):
        return bytes(mo.opaque_data_value.value)
    return bytes(mo.key_block.key_value.key_material.value)


def big_phase(ctx, cov):
    """Values, payloads and whole messages at and beyond 4 KiB / 64 KiB / 128 KiB, up to the megabyte a server accepts
    in one request (a Locate response lists every match, a Get returns the whole object): decode(encode v) == v,
    nothing left over, re-encoding gives the same bytes; under every KMIP version.  Implementation alone (the sizes
    are beyond what is worth sending through the JSON line protocol; M2's round-trip theorem is unbounded)."""
    import impl_engine as IE
    from kmip.core import enums, utils, primitives
    from kmip.core.messages import messages, contents, payloads
    rng = random.Random(ctx.seed * 7 + 5)
    sizes = [4096, 32768, 65519, 65527, 65528, 65529, 65536, 65537, 70000, 131072, 140000]
    if ctx.tier != "quick":
        sizes += [262144, 300001, 524288, (1 << 20) - 64, (1 << 20) + 8]
    n = 0
    for sz in sizes:
        vals = [("ByteString", rng.randbytes(sz)), ("TextString", "t" * sz), ("TextString", "\u00e9" * (sz // 2) + "x" * (sz % 2)),
                ("BigInteger", (1 << (8 * sz - 1)) - 1), ("BigInteger", -(1 << (8 * sz - 9)) - 5)]
        for kind, val in vals:
            tag = IC.TAG_POOL[(sz + len(kind)) % len(IC.TAG_POOL)]
            case = (kind, None, val, tag)
            r, o = CC.run_prim_impl(case)
            n += 1
            if r["enc"] is None:
                ctx.report("c01:big-value-not-encodable:%s" % kind, "%s of %d bytes: %s" % (kind, sz, r["exc"]),
                           {"kind": "big", "what": "prim", "class": kind, "size": sz})
                continue
            for f in CC.prim_roundtrip_faults(case, o, r["enc"]):
                ctx.report("c01:big-value-roundtrip:%s:%s" % (kind, f.split(" ")[0]), "%s of %d bytes: %s" % (kind, sz, f[:200]),
                           {"kind": "big", "what": "prim", "class": kind, "size": sz, "seed": ctx.seed})
    versions = [(1, 0), (1, 2), (1, 4), (2, 0)] if ctx.tier == "quick" else [(1, 0), (1, 1), (1, 2), (1, 3), (1, 4), (2, 0)]

    def kv(v):
        return getattr(enums.KMIPVersion, "KMIP_%d_%d" % v)

    def roundtrip(label, msg, cls, v, probe):
        """encode, decode with a fresh message, re-encode; `probe(decoded)` = the big part as plain data"""
        s = utils.BytearrayStream()
        try:
            msg.write(s, kmip_version=kv(v))
        except Exception as e:
            ctx.report("c01:big-message-not-encodable:%s" % label, "%s under %d.%d: %s: %s" % (label, v[0], v[1], type(e).__name__, str(e)[:120]),
                       {"kind": "big", "what": label, "version": list(v)})
            return
        b = bytes(s.buffer)
        m2 = cls()
        try:
            s2 = utils.BytearrayStream(b)
            m2.read(s2, kmip_version=kv(v))
            left = len(s2.buffer)
            got = probe(m2)
            s3 = utils.BytearrayStream()
            m2.write(s3, kmip_version=kv(v))
            b3 = bytes(s3.buffer)
        except Exception as e:
            ctx.report("c01:big-message-roundtrip:%s:decode-rejects-own-encoding" % label,
                       "%s (%d bytes) under %d.%d: the library cannot decode what it encoded: %s: %s"
                       % (label, len(b), v[0], v[1], type(e).__name__, str(e)[:120]), {"kind": "big", "what": label, "version": list(v)})
            return
        if left:
            ctx.report("c01:big-message-roundtrip:%s:residue" % label, "%s: %d bytes left" % (label, left), {"kind": "big", "what": label, "version": list(v)})
        if got != probe(msg):
            ctx.report("c01:big-message-roundtrip:%s:decoded-differs" % label, "%s (%d bytes) under %d.%d: the decoded message differs from "
                       "the original" % (label, len(b), v[0], v[1]), {"kind": "big", "what": label, "version": list(v)})
        if b3 != b:
            ctx.report("c01:big-message-roundtrip:%s:re-encode-differs" % label, "%s (%d bytes) under %d.%d" % (label, len(b), v[0], v[1]),
                       {"kind": "big", "what": label, "version": list(v)})
    for v in versions:
        ver = v[0] * 10 + v[1]
        # requests: Register of a large opaque object / secret, a batch of many small items
        for sz in (70000 + ver,) if ctx.tier == "quick" else (65528, 70000, 200000, 900000):
            for otype, extra in ((8, {"subtype": 0x80000000}), (7, {"subtype": 1, "format": 2})):
                if ctx.tier == "quick" and (otype == 8) != (ver in (10, 14)):
                    continue
                obj = dict({"otype": otype, "value": rng.randbytes(sz).hex(), "alg": None, "len": None, "format": None, "subtype": None}, **extra)
                req = {"version": ver, "ts": 1000, "async": None, "bopt": None, "maxsize": None,
                       "items": [{"op": "register", "bid": None, "crypto": None, "otype": otype,
                                  "tmpl": {"tnames": 0, "attrs": []}, "obj": obj}]}
                n += 1
                roundtrip("register-%d" % otype, IE.build_request(req), messages.RequestMessage, v,
                          lambda m: [big_value_of(bi.request_payload.managed_object) for bi in m.batch_items])
        items = [{"op": "get", "bid": "b%05d" % i, "uid": str(i), "wrap": None, "format": None, "compression": False} for i in range(2500)]
        req = {"version": ver, "ts": 1000, "async": None, "bopt": None, "maxsize": None, "items": items}
        n += 1
        roundtrip("batch-2500", IE.build_request(req), messages.RequestMessage, v,
                  lambda m: [(bi.unique_batch_item_id.value if bi.unique_batch_item_id else None, bi.request_payload.unique_identifier) for bi in m.batch_items])
        # responses: a Locate answer with many identifiers, a Get answer with a large key
        for count in (1400, 2500) if ctx.tier == "quick" else (1400, 2500, 6000, 20000):
            pl = payloads.LocateResponsePayload(unique_identifiers=[str(i) for i in range(1, count + 1)])
            hdr = messages.ResponseHeader(protocol_version=contents.ProtocolVersion(v[0], v[1]), time_stamp=contents.TimeStamp(1000),
                                          batch_count=contents.BatchCount(1))
            item = messages.ResponseBatchItem(operation=contents.Operation(enums.Operation.LOCATE),
                                              result_status=contents.ResultStatus(enums.ResultStatus.SUCCESS), response_payload=pl)
            n += 1
            roundtrip("locate-response-%d" % count, messages.ResponseMessage(response_header=hdr, batch_items=[item]),
                      messages.ResponseMessage, v, lambda m: [list(bi.response_payload.unique_identifiers) for bi in m.batch_items])
    cov["big_cases"] = n
    cov["big_sizes"] = sizes
    return n


def run_corpus(ctx):
    """minimised past failures first (corpus/C01/*.json): each must hold now; a failure is reported under the
    signature it was found with"""
    import contextlib
    import glob
    import io
    n = 0
    d = os.path.join(os.path.dirname(os.path.abspath(__file__)), "..", "..", "corpus", "C01")
    for f in sorted(glob.glob(os.path.join(d, "*.json"))):
        rep = json.load(open(f))
        buf = io.StringIO()
        with contextlib.redirect_stdout(buf):
            ok = replay(ctx, rep)
        n += 1
        if not ok:
            ctx.report(rep["signature"], "corpus input %s fails again: %s" % (os.path.basename(f), buf.getvalue()[:300]),
                       rep["replay"])
    ctx.coverage["corpus_inputs"] = n


def run(ctx):
    _libs()
    IC.quiet()
    run_corpus(ctx)
    rng = random.Random(ctx.seed * 7919 + 11)
    cov = {"notes": set()}
    t0 = time.time()
    divergences, distinct = prim_phase(ctx, rng, cov)
    cov["prim_wall_s"] = round(time.time() - t0, 1)
    t1 = time.time()
    run_ = struct_phase(ctx, cov)
    cov["struct_wall_s"] = round(time.time() - t1, 1)
    t2 = time.time()
    n_schema = schema_phase(ctx, run_, rng, cov)
    cov["schema_wall_s"] = round(time.time() - t2, 1)
    # the GENERATED schema tables (translator harness/gen_schemas.py): child-level neighbours of real encodings of
    # every translated class through the real reader and through decodeS of the generated schema
    t3 = time.time()
    import schema_gen_check as SG
    sg = SG.run(ctx, run_, rng)
    cov.update(sg)
    n_schema += sg.get("schema_gen_cases", 0)
    cov["schema_gen_wall_s"] = round(time.time() - t3, 1)
    t4 = time.time()
    n_schema += big_phase(ctx, cov)
    cov["big_wall_s"] = round(time.time() - t4, 1)
    ctx.notes += sorted(cov.pop("notes"))
    ctx.coverage.update(cov)
    ctx.coverage["evaluations"] = cov["prim_values"] + cov["prim_decodes"] + run_.evaluations + n_schema
    ctx.coverage["distinct_nontrivial"] = len(distinct) + len(run_.distinct)
    ctx.coverage["rule"] = RULE
    ctx.coverage["samples"] = run_.samples + [
        {"prim": "Integer", "value": -2147483648, "hex": IC.enc(IC.primitives.Integer(-2147483648, IC.enums.Tags.Y)).hex()}]
    ctx.coverage["traces_validated_against_impl"] = cov["prim_values"] + cov["prim_decodes"] + n_schema
    ctx.coverage["model_divergences"] = len(divergences)
    unexplained = [d for d in divergences if not d.get("monitor_failed")]
    if unexplained:
        # the monitors hold on these very inputs (otherwise they were reported above): no failing input
        d = unexplained[0]
        ctx.report("correspondence:prim-codec", "model M2 and primitives.py disagree on %d cases on which the round-trip "
                   "monitors hold, e.g. %s" % (len(unexplained), json.dumps(d)[:300]),
                   {"broken": "correspondence Drivers/Codec.lean (M2) vs kmip/core/primitives.py",
                    "cases": unexplained[:5]}, no_input=True)
    elif divergences:
        ctx.notes.append("model/implementation divergences on inputs the monitors already report: %d" % len(divergences))


def search(ctx, broken):
    """the Lean side broke: look for a failing input with the monitors alone (more cases)"""
    _libs()
    IC.quiet()
    rng = random.Random(ctx.seed * 7919 + 13)
    for c in CC.prim_cases(rng, 400):
        kind, ec, val, tag = c
        r, o = CC.run_prim_impl(c)
        if r["ctor"] and r["enc"] is None:
            sig = classify_unencodable(kind, val)
            if sig:
                ctx.report(sig, "%s(%r) constructs but cannot be written" % (kind, val),
                           {"kind": "prim", "class": kind, "value": IC.prim_json_value(kind, val), "tag": tag.value,
                            "enum": ec.__name__ if ec else None})
        elif r["enc"] is not None:
            for f in CC.prim_roundtrip_faults(c, o, r["enc"]):
                ctx.report(prim_fault_signature(kind, val, f), "%s(%r): %s" % (kind, val, f),
                           {"kind": "prim", "class": kind, "value": IC.prim_json_value(kind, val), "tag": tag.value,
                            "enum": ec.__name__ if ec else None})
    run_ = CC.StructRun(ctx.seed + 1, ctx.tier).run()
    for f in run_.findings:
        ctx.report(f.signature, f.what, f.replay)
    try:
        import schema_gen_check as SG
        SG.search(ctx, run_, rng)
    except Exception as e:      # the generated tables may be what broke: the search must not die with them
        ctx.notes.append("schema_gen_check.search: %s: %s" % (type(e).__name__, str(e)[:200]))
    ctx.coverage["evaluations"] = run_.evaluations
    ctx.coverage["distinct_nontrivial"] = len(run_.distinct)


def _prim_from_replay(r):
    kind = r["class"]
    tag = IC.enums.Tags(r["tag"])
    ec = None
    if kind == "Enumeration":
        ec = IC.BoundaryEnum if r.get("enum") == "BoundaryEnum" else getattr(IC.enums, r["enum"])
    v = r.get("value")
    if kind in ("Integer", "LongInteger", "BigInteger", "DateTime", "Interval"):
        val = int(v)
    elif kind == "Enumeration":
        val = ec(int(v))
    elif kind == "Boolean":
        val = bool(v)
    elif kind == "TextString":
        val = "".join(chr(c) for c in v)
    else:
        val = bytes.fromhex(v)
    return (kind, ec, val, tag)


def replay(ctx, rep):
    _libs()
    IC.quiet()
    r = rep["replay"]
    if r.get("kind") == "purity":
        lib = IC.Library()
        cls = [c for key, (c, own) in lib.classes.items() if c.__name__ == r["class"]][0]
        f, v, b = IC.factory_for_class(cls), IC.vof(r["version"]), bytes.fromhex(r["hex"])
        d1, _ = IC.dec(f, b, v)
        for q in r["poisons"]:
            try:
                IC.dec(f, bytes.fromhex(q), v)
            except BaseException:
                pass
        try:
            d2, _ = IC.dec(f, b, v)
        except Exception as e:
            print("  refused the second time: %s: %s" % (type(e).__name__, e))
            return False
        return not IC.diff(d1, d2)
    if r.get("kind") == "big":
        # the whole big phase again (deterministic in the seed): holds iff it reports nothing
        class _C(object):
            pass
        sub = _C()
        sub.seed, sub.tier, sub.bad = r.get("seed", rep.get("seed", 0)), rep.get("tier", "quick"), []
        sub.report = lambda sig, what, rp=None, **kw: (sub.bad.append(sig), print("  %s: %s" % (sig, what[:200])))
        big_phase(sub, {})
        return not sub.bad
    if r.get("kind") == "prim":
        c = _prim_from_replay(r)
        res, o = CC.run_prim_impl(c)
        if not res["ctor"]:
            return True
        if res["enc"] is None:
            print("constructed, write raised: %s" % res["exc"])
            return False
        faults = CC.prim_roundtrip_faults(c, o, res["enc"])
        print("\n".join(faults))
        return not faults
    if r.get("kind") == "prim-bytes":
        kind = r["class"]
        ec = None
        if kind == "Enumeration":
            ec = IC.BoundaryEnum if r.get("enum") == "BoundaryEnum" else getattr(IC.enums, r["enum"])
        obs, o = CC.prim_decode_impl(kind, ec, IC.enums.Tags(r["tag"]), bytes.fromhex(r["hex"]))
        if not obs["ok"]:
            return True
        faults = CC.prim_ded_faults(kind, ec, IC.enums.Tags(r["tag"]), o)
        print("\n".join(faults))
        return not faults
    if r.get("kind") in ("witness", "struct-bytes"):
        import schema_gen_check as SG
        return SG.replay(r)
    if r.get("kind") == "traffic":
        if "hex" in r and "version" in r:
            c = IC.messages.ResponseMessage if r.get("which") == "response" else IC.messages.RequestMessage
            try:
                y, left = IC.dec(c, bytes.fromhex(r["hex"]), IC.vof(r["version"]))
            except Exception as e:
                print("the library's own encoding is rejected by its decoder: %s: %s" % (type(e).__name__, e))
                return False
            IC.repair_text_padding(y)
            ok = (left == 0 and IC.enc(y, IC.vof(r["version"])) == bytes.fromhex(r["hex"]))
            print("decoded; re-encode identical: %s" % ok)
            return ok
        print("re-run the check with seed %s to regenerate this traffic" % r.get("seed"))
        return True
    if r.get("kind") == "never":
        lib = IC.Library()
        cls = lib.classes[r["class"]][0]
        base = {k: CC.undescribe_value(d) for k, d in r.get("base", {}).items()}
        x = cls(**dict(base, **{r["field"]: CC.undescribe_value(r["value"])}))
        res = [CC.field_survives(x, r["field"], v, [], cls.__name__) for v in IC.VERSIONS]
        print("field survives per version: %s" % res)
        return any(q is True for q in res) or not any(q is False for q in res)
    if r.get("kind") == "nested":
        lib = IC.Library()
        cls = lib.classes[r["class"]][0]
        base = {k: CC.undescribe_value(d) for k, d in r.get("base", {}).items()}
        n = CC.undescribe_value(r["nested"])
        x = cls(**dict(base, **{r["field"]: [n] if r.get("list") else n}))
        v = IC.vof(r["version"])
        y, left = IC.dec(IC.factory_for(x), IC.enc(copy.deepcopy(x), v), v)
        got, orig = getattr(y, r["field"]), getattr(x, r["field"])
        d_in = IC.diff(orig[0], got[0]) if r.get("list") else IC.diff(orig, got)
        n2, _ = IC.dec(IC.factory_for(n), IC.enc(copy.deepcopy(n), v), v)
        extra = sorted(set(d_in) - set(IC.diff(n, n2)))
        print("lost inside the container only: %s" % extra)
        return not extra
    if r.get("kind") == "alias":
        lib = IC.Library()
        cls = lib.classes[r["class"]][0]
        v = IC.vof(r["version"])
        objs = []
        for h in r["encodings"]:
            o, _ = IC.dec(cls, bytes.fromhex(h), v)
            objs.append((o, IC.enc(o, v)))
        for h in r["encodings"]:
            IC.dec(cls, bytes.fromhex(h), v)
        bad = [i for i, (o, e) in enumerate(objs) if IC.enc(o, v) != e]
        print("decoded values that changed after later decodes: %s" % bad)
        return not bad
    if r.get("kind") == "falsy":
        lib = IC.Library()
        cls = lib.classes[r["class"]][0]
        base = {k: CC.undescribe_value(d) for k, d in r.get("base", {}).items()}
        xt = cls(**dict(base, **{r["field"]: CC.undescribe_value(r["truthy"])}))
        xf = cls(**dict(base, **{r["field"]: CC.undescribe_value(r["falsy"])}))
        v = IC.vof(r["version"])
        rt = CC.field_survives(xt, r["field"], v, [], cls.__name__)
        rf = CC.field_survives(xf, r["field"], v, [], cls.__name__)
        print("truthy sibling survives: %s; falsy sibling survives: %s" % (rt, rf))
        return not (rt is True and rf is False)
    if r.get("kind") == "struct":
        got = CC.replay_struct(r)
        if got is None:
            print("replay of this derivation is not supported; re-run the check with the recorded seed")
            return True
        o, strict, name = got
        agg = {}
        fs = CC.check_instance(o, name, strict, r, {}, [], agg)
        for f in fs:
            print("%s: %s" % (f.signature, f.what))
        bad = bool(fs)
        for fld, a in sorted(agg.items()):
            if a["dropped"] and not a["preserved"] and a["all6"]:
                print("c01:field-dropped: %s.%s is not reproduced by decode(encode(x)) under any version" % (name, fld))
                bad = True
        return not bad
    print("unknown replay kind")
    return True
