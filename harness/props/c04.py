"""C04 — lifecycle monotone; state/kind/mask gate every cryptographic use."""
import os
import sys

sys.path.insert(0, os.path.join(os.path.dirname(os.path.abspath(__file__)), "..", "lib"))
import engine_check  # noqa: E402
import monitors_engine as M  # noqa: E402

LEAN_MODULES = ["KmipModel.Props.C04"]
RULE = ("small-scope: every sequence of the lifecycle alphabet up to the tier's depth over two objects (exhaustive); "
        "state x operation matrix: every creating letter x each of its objects x every lifecycle path (Pre-Active, "
        "Active, revoked from either with each reason code, revoked twice) x every letter addressing that object; "
        "use-retire-use: every cryptographic use of a key (incl. as wrapping key and DeriveKey base) succeeding while "
        "Active, then each way of retiring the key, then a use again; "
        "then seeded adaptive histories biased to Create/Register/Activate/Revoke/Destroy and the cryptographic "
        "operations; a line is non-trivial when it targets an existing object with a lifecycle or cryptographic "
        "operation; distinct = distinct (request, identity, outcome shape)")
ASSUMPTIONS = ["cryptography backend scripted (any answer): the guards are checked for every backend outcome"]
PROFILE = {"ops": {"create": 8, "register": 5, "createKeyPair": 4, "deriveKey": 4, "activate": 9, "revoke": 8,
                   "destroy": 4, "encrypt": 5, "decrypt": 5, "sign": 4, "signatureVerify": 4, "mac": 5, "get": 5,
                   "getAttributes": 2, "locate": 1, "modifyAttribute": 1},
           "groups": 0.0, "builtin_policies_only": True, "restart": 0.02, "revoke_date": 0.3}
MONITORS = [M.mon_c04, M.mon_c07]


def alphabet():
    def item(op, **kw):
        d = {"op": op, "bid": None, "crypto": None}
        d.update(kw)
        return d
    tmpl = lambda mask: {"tnames": 0, "attrs": [
        {"name": "Cryptographic Algorithm", "index": None, "value": {"k": "enum", "v": 3}},
        {"name": "Cryptographic Length", "index": None, "value": {"k": "int", "v": 128}},
        {"name": "Cryptographic Usage Mask", "index": None, "value": {"k": "int", "v": mask}}]}
    ok16 = {"k": "ok", "t": "00" * 16}
    A = []
    for mask in (0xFFFFFF, 0x4, 0):
        A.append(item("create", otype=2, tmpl=tmpl(mask), crypto=ok16))
    A.append(item("createKeyPair", common=tmpl(0x3), priv=None, pub=None,
                  crypto={"k": "ok2", "pub": "aa" * 8, "priv": "bb" * 8, "pubfmt": 3, "privfmt": 4}))
    A.append(item("register", otype=8, tmpl=None,
                  obj={"otype": 8, "value": "0102", "alg": None, "len": None, "format": None, "subtype": 0x80000000}))
    for u in ("1", "2"):
        A.append(item("activate", uid=u))
        for code in (1, 2, 3):
            A.append(item("revoke", uid=u, code=code))
        A.append(item("destroy", uid=u))
        A.append(item("encrypt", uid=u, params=True, crypto=ok16))
        A.append(item("decrypt", uid=u, params=True, crypto=ok16))
        A.append(item("sign", uid=u, params=True, crypto=ok16))
        A.append(item("signatureVerify", uid=u, params=True, crypto={"k": "verdict", "v": True}))
        A.append(item("mac", uid=u, alg=8, data=True, crypto=ok16))
        A.append(item("deriveKey", otype=2, uids=[u], tmpl=tmpl(0xC), crypto=ok16))
        A.append(item("get", uid="1" if u == "2" else "2", format=None, compression=False,
                      wrap={"method": 1, "enckey": u, "encparams": True, "mackey": False, "attrnames": 0, "encoding": 1},
                      crypto={"k": "ok", "t": "cc" * 24}))
    return A


def extra_creators():
    """creating letters outside the exhaustive alphabet (they would double it): the other object types that have a state"""
    def reg(otype, **kw):
        obj = dict({"otype": otype, "value": "0102", "alg": None, "len": None, "format": None, "subtype": None}, **kw)
        return {"op": "register", "bid": None, "crypto": None, "otype": otype,
                "tmpl": {"tnames": 0, "attrs": [{"name": "Cryptographic Usage Mask", "index": None, "value": {"k": "int", "v": 0xFFFFFF}}]},
                "obj": obj}
    return [reg(1, value="3003020101", subtype=1), reg(7, subtype=1), reg(5, value="00" * 16, alg=3, len=128, format=1),
            reg(3, alg=4, len=2048, format=3), reg(4, alg=4, len=2048, format=4)]


def exhaustive_builder(g, E, do, depth):
    """all sequences over the alphabet to `depth`, each on a fresh store (one worker = one first letter)"""
    import itertools
    A = alphabet()
    first = A[g.profile["first"]]
    seqs = itertools.product(A, repeat=depth - 1) if depth > 1 else [()]
    k = 0
    part, nparts = g.profile.get("part", 0), g.profile.get("nparts", 1)
    keep = g.profile.get("keep", 1.0)
    for n, rest in enumerate(seqs):
        if n % nparts != part:
            continue
        if keep < 1.0 and g.r.random() >= keep:
            continue
        # only prefixes that start by creating something are interesting
        do({"cmd": "reset"})
        do({"cmd": "dump"})
        for it in (first,) + tuple(rest):
            do({"cmd": "req", "now": 1000 + k % 3, "id": {"user": "alice", "groups": None},
                "req": {"version": 14, "ts": None, "async": None, "bopt": None, "maxsize": None, "items": [it]}})
            do({"cmd": "dump"})
        k += 1


def state_matrix_builder(g, E, do, depth):
    """state x operation matrix: every creating letter, every object of it, every lifecycle path of up to two
    Activate / Revoke steps (plus Deactivated -> Compromised), then every letter addressing that object"""
    import itertools
    A = alphabet()
    first = extra_creators()[g.profile["first_extra"]] if "first_extra" in g.profile else A[g.profile["first"]]
    k = 0
    for u in ("1", "2") if "first_extra" not in g.profile else ("1",):
        steps = [a for a in A if a["op"] in ("activate", "revoke") and a.get("uid") == u]
        finals = [a for a in A if a.get("uid") == u or (a["op"] == "deriveKey" and a.get("uids") == [u])
                  or (a["op"] == "get" and (a.get("wrap") or {}).get("enckey") == u)]
        act = [a for a in steps if a["op"] == "activate"]
        revs = [a for a in steps if a["op"] == "revoke"]
        # Pre-Active; Active; Revoke from Pre-Active; Revoke from Active; a second Revoke after a Revoke from Active
        paths = [(), (act[0],)] + [(r,) for r in revs] + [(act[0], r) for r in revs] + \
                [(act[0], r1, r2) for r1 in revs for r2 in revs if r1 is not r2]
        for path in paths:
            for fin in finals:
                do({"cmd": "reset"})
                do({"cmd": "dump"})
                for it in (first,) + tuple(path) + (fin,):
                    do({"cmd": "req", "now": 1000 + k % 3, "id": {"user": "alice", "groups": None},
                        "req": {"version": 14, "ts": None, "async": None, "bopt": None, "maxsize": None, "items": [it]}})
                    do({"cmd": "dump"})
                k += 1


def use_retire_use_builder(g, E, do, depth):
    """[a cryptographic use of key 1 that succeeds while it is Active; key 1 is retired (deactivated, compromised,
    destroyed after deactivation); the same use again]: whatever the first, successful use left behind (a validated
    key, a derived context, a cache entry) is no licence for the second one"""
    A = alphabet()
    creates = [a for a in A if a["op"] == "create"]
    uses = [a for a in A if (a.get("uid") == "1" and a["op"] in ("encrypt", "decrypt", "sign", "signatureVerify", "mac"))
            or (a["op"] == "deriveKey" and a.get("uids") == ["1"])
            or (a["op"] == "get" and (a.get("wrap") or {}).get("enckey") == "1")]
    revs = [a for a in A if a["op"] == "revoke" and a.get("uid") == "1"]
    destroy = [a for a in A if a["op"] == "destroy" and a.get("uid") == "1"][0]
    act = [a for a in A if a["op"] == "activate" and a.get("uid") == "1"][0]
    retirements = [(r,) for r in revs] + [(revs[0], destroy)]
    k = 0

    def req(it):
        do({"cmd": "req", "now": 1000 + k % 3, "id": {"user": "alice", "groups": None},
            "req": {"version": 14, "ts": None, "async": None, "bopt": None, "maxsize": None, "items": [dict(it)]}})
        do({"cmd": "dump"})
    for use in uses:
        for ret in retirements:
            for again in (use,) + tuple(u for u in uses if u is not use)[:1]:
                do({"cmd": "reset"})
                do({"cmd": "dump"})
                req(creates[0])
                req(creates[0])
                req(act)
                req(use)
                for r_ in ret:
                    req(r_)
                req(again)
                k += 1


def nontrivial(j, o):
    if "results" not in o:
        return False
    return any(it["op"] in ("activate", "revoke", "destroy", "encrypt", "decrypt", "sign", "signatureVerify", "mac",
                            "deriveKey", "get") and r.get("reason") != 1
               for it, r in zip(j["req"]["items"], o["results"]))


# ------------------------------------------------------------------ a state change the database could not take
def locked_db_probe():
    """While ANOTHER connection holds the write lock of the database file (a backup job, a maintenance script) past the
    driver's busy time-out, the server is asked to Revoke and to Activate: whatever it answers, an answer of SUCCESS
    means the new state is in effect (and stays after a restart), anything else leaves the state as it was - an
    acknowledged transition is never one the database did not take.  Implementation only; ~10 s."""
    import sqlite3
    import impl_engine
    from gen_engine import hexof
    import random
    r = random.Random(4)
    E = impl_engine.ImplEngine()
    fails = []

    def line(item):
        item = dict({"bid": None, "crypto": None}, **item)
        return {"cmd": "req", "now": 1000, "id": {"user": "alice", "groups": None},
                "req": {"version": 14, "ts": None, "async": None, "bopt": None, "maxsize": None, "items": [item]}}

    def attr(nm, v):
        return {"name": nm, "index": None, "value": v}
    try:
        uids = []
        for _ in range(2):
            o = E.handle(line({"op": "create", "otype": 2, "crypto": {"k": "ok", "t": hexof(16, rnd=r)}, "tmpl": {"tnames": 0, "attrs": [
                attr("Cryptographic Algorithm", {"k": "enum", "v": 3}), attr("Cryptographic Length", {"k": "int", "v": 128}),
                attr("Cryptographic Usage Mask", {"k": "int", "v": 12})]}}))
            uids.append(o["results"][0]["data"]["uid"])
        A, B = uids
        E.handle(line({"op": "activate", "uid": A}))

        def state(u):
            return {str(x["uid"]): x["state"] for x in E.dump()["objs"]}.get(str(u))
        for what, item, u, want_ok in (("Revoke", {"op": "revoke", "uid": A, "code": 1}, A, 3),
                                       ("Activate", {"op": "activate", "uid": B}, B, 2)):
            before = state(u)
            E.engine._data_store.dispose()
            other = sqlite3.connect(E.db, timeout=0.1, isolation_level=None)
            try:
                other.execute("BEGIN IMMEDIATE")
                o = E.handle(line(item))
            finally:
                try:
                    other.execute("ROLLBACK")
                finally:
                    other.close()
            rs = (o.get("results") or [{}])[0]
            ok = rs.get("status") == "ok"
            after = state(u)
            E.restart()
            after_restart = state(u)
            if ok and (after != want_ok or after_restart != want_ok):
                fails.append(("c04:acknowledged-transition-not-in-effect:%s" % what.lower(),
                              "%s of key %s was answered SUCCESS while another connection held the database's write lock; "
                              "its state was %s, is %s, after a restart %s" % (what, u, before, after, after_restart)))
            if not ok and (after != before or after_restart != before):
                fails.append(("c04:refused-transition-took-effect:%s" % what.lower(),
                              "%s of key %s was answered %s while the database was locked; state %s -> %s (after restart %s)"
                              % (what, u, rs.get("reason", o.get("rejected")), before, after, after_restart)))
    finally:
        E.close()
    return fails


def run(ctx):
    import multiprocessing
    depth = 3 if ctx.tier == "quick" else 4
    A = alphabet()
    creators = [i for i, a in enumerate(A) if a["op"] in ("create", "createKeyPair", "register")]
    # exhaustive part: sequences starting with a creating letter (others act on an empty store)
    nparts = 3
    # depth 4 is sampled (196k sequences otherwise): depth 3 stays exhaustive in both tiers
    args = [(i * nparts + p, 3, {"first": i, "part": p, "nparts": nparts, "builtin_policies_only": True}, True,
             "props.c04.exhaustive_builder") for i in creators for p in range(nparts)]
    if depth == 4:
        args += [(ctx.seed * 131 + 500 + i * nparts + p, 4,
                  {"first": i, "part": p, "nparts": nparts, "keep": 0.12, "builtin_policies_only": True}, True,
                  "props.c04.exhaustive_builder") for i in creators for p in range(nparts)]
    args += [(1000 + i, depth, {"first": i, "builtin_policies_only": True}, True, "props.c04.state_matrix_builder")
             for i in creators]
    args += [(1500 + i, depth, {"first_extra": i, "builtin_policies_only": True}, True, "props.c04.state_matrix_builder")
             for i in range(len(extra_creators()))]
    args += [(2000, depth, {"builtin_policies_only": True}, True, "props.c04.use_retire_use_builder")]
    with multiprocessing.get_context("fork").Pool(min(16, len(args))) as pool:
        exh = pool.map(engine_check.gen_history, args)
    n_seq = len(creators) * (len(A) ** 2)
    engine_check.report_monitor_failures(ctx, exh, MONITORS)
    divs = engine_check.correspondence(ctx, exh)
    stats = engine_check.standard_run(ctx, PROFILE, MONITORS, nontrivial, RULE, n_quick=120, n_thorough=1500, length=40,
                                      extra_cov={"exhaustive_depth": 3, "exhaustive_sequences": n_seq,
                                                 "sampled_depth4_fraction": 0.12 if depth == 4 else 0,
                                                 "alphabet": len(A), "exhaustive": False})
    if divs and not ctx.violations:
        d = divs[0]
        ctx.report("correspondence:engine-model", "model and engine disagree on an exhaustive lifecycle sequence",
                   {"kind": "correspondence", "broken": "correspondence Drivers/Engine.lean vs KmipEngine",
                    "lines": d["history"][-(2 * depth + 2):], "impl": d["impl"], "model": d["model"]}, no_input=True)
    st2 = engine_check.Stats()
    for h, outs in exh:
        st2.add_history(h, outs, nontrivial)
    ctx.coverage["evaluations"] += st2.items
    ctx.coverage["distinct_nontrivial"] += len(st2.distinct)
    ctx.coverage["exhaustive_items"] = st2.items
    # run in the background while nothing else needs the time?  It takes ~10 s of waiting for the driver's busy time-out.
    lf = locked_db_probe()
    for sig, what in lf:
        ctx.report(sig, what, {"kind": "locked-db"})
    ctx.coverage["locked_database_probes"] = 2
    ctx.coverage["evaluations"] += 2


def search(ctx, broken):
    engine_check.standard_search(ctx, PROFILE, MONITORS, 40)


def replay(ctx, rep):
    if (rep.get("replay") or {}).get("kind") == "locked-db":
        lf = locked_db_probe()
        for sig, what in lf:
            print("  %s: %s" % (sig, what))
        return not lf
    return engine_check.standard_replay(ctx, rep, MONITORS)
