"""C08 — batch results complete; failed items leave no trace."""
import os
import sys

sys.path.insert(0, os.path.join(os.path.dirname(os.path.abspath(__file__)), "..", "lib"))
import engine_check  # noqa: E402
import monitors_engine as M  # noqa: E402

LEAN_MODULES = ["KmipModel.Props.C08", "KmipModel.Props.C08Twin", "KmipModel.Props.ServerRun"]
RULE = ("batches of 1..6 items mixing succeeding and failing operations, with/without batch item IDs, "
        "Stop/Continue/Undo, over random stores; templates carry, with probability 0.3, an attribute that is only "
        "refused when it is set on the object (a handler failing late, after it may have touched the session); patterns [fail X on o; succeed Y; read o] arise from the generator's "
        "bias to existing objects; non-trivial = a batch with >= 2 items containing both a success and a failure, or a "
        "rejected request; distinct = distinct (request, identity, outcome shape)")
PROFILE = {"groups": 0.1, "missing_bid": 0.06, "restart": 0.02, "batch": True, "late_fail": 0.3, "revoke_date": 0.3, "header_extras": 0.1,
           "ops": None}
MONITORS = [M.mon_c08, M.mon_c15]


LATE = ["Contact Information", "Activation Date", "State", "Lease Time"]


def late_failure_line(g):
    """[an object-creating item whose template is refused only when its attributes are set on the object;
    then items that commit] under Continue: the failed item must leave nothing behind for the later commit"""
    op = g.ch(["createKeyPair", "createKeyPair", "create", "register", "deriveKey"])
    n = g.ch([2, 2, 3])
    line = g.line(nitems=n, ops=[op] + [g.ch(["create", "register", "activate", "revoke", "createKeyPair"])
                                         for _ in range(n - 1)])
    it = line["req"]["items"][0]
    slot = g.ch(["priv", "priv", "pub", "common"]) if op == "createKeyPair" else "tmpl"
    if it.get(slot) is None:
        it[slot] = {"tnames": 0, "attrs": []}
    it[slot]["attrs"] = [a for a in it[slot]["attrs"] if a["name"] not in LATE] + [g.tattr(g.ch(LATE))]
    if op == "createKeyPair":
        # the other templates must get through: keep them free of late-failing attributes
        for other in ("priv", "pub", "common"):
            if other != slot and it.get(other):
                it[other]["attrs"] = [a for a in it[other]["attrs"] if a["name"] not in LATE]
    line["req"]["bopt"] = 1
    return line


def builder(g, E, do, length):
    for _ in range(length):
        if g.p(0.2):
            do(late_failure_line(g))
            do({"cmd": "dump"})
            continue
        n = g.ch([1, 2, 2, 3, 3, 4, 5, 6])
        line = g.line(nitems=n)
        if n > 1:
            line["req"]["bopt"] = g.ch([None, 1, 1, 1, 2, 2, 3 if g.p(0.15) else 1])
        do(line)
        do({"cmd": "dump"})


def nontrivial(j, o):
    if "rejected" in o:
        return len(j["req"]["items"]) > 1
    rs = o.get("results", [])
    return len(j["req"]["items"]) > 1 and any(r.get("status") == "ok" for r in rs) and any(r.get("status") != "ok" for r in rs)


def run(ctx):
    engine_check.standard_run(ctx, PROFILE, MONITORS, nontrivial, RULE, n_quick=160, n_thorough=3000, length=25,
                              builder="props.c08.builder")
    # scripted batches: [read or refused item on O; item that commits elsewhere] and [attribute operation variant on O;
    # commit elsewhere; read]: what a reading or failing item did to the session must not be committed by its successor
    engine_check.scenario_run(ctx, "scen_engine.read_commit_builder", MONITORS + [M.mon_c05], nontrivial, RULE, 16, 300, 16,
                              "read_then_commit_part", seed_base=810000)
    engine_check.scenario_run(ctx, "scen_engine.attr_commit_builder", MONITORS, nontrivial, RULE, 16, 300, 14,
                              "attribute_op_then_commit_part", seed_base=820000)
    engine_check.scenario_run(ctx, "scen_engine.placeholder_follow_builder", MONITORS, nontrivial, RULE, 16, 300, 12,
                              "placeholder_follower_part", seed_base=830000)
    engine_check.scenario_run(ctx, "scen_engine.version_mix_attr_builder", MONITORS, nontrivial, RULE, 24, 400, 5,
                              "attributes_under_other_versions_part", seed_base=890000)
    twin_pass(ctx)
    real_backend_pass(ctx)
    # M17: whole connections (several requests each, header options that differ from request to request - Maximum
    # Response Size, batch options) through the real KmipSession + engine, byte for byte against the composed model;
    # its implementation monitors on results (complete, none withheld behind a limit the request did not state)
    import e2e_hook
    e2e_hook.run(ctx, ["c08"])


# ------------------------------------------------------------------ a Continue batch = its items sent one by one
def twin_case(args):
    """Two real engines in lockstep on the same history.  Engine A receives every request as it is; engine B receives
    each multi-item CONTINUE batch as single-item requests, one per item, in order (an item that names no identifier
    gets the identifier the most recent successful creating item of the batch reported - what the ID placeholder
    stands for).  "A batch item that reports failure does not disturb later items" and "the result of the batch is
    the list of the results of its items": every item must be answered the same on both, and the stores must agree
    after every request.  Implementation only."""
    seed, length = args
    import copy
    import gen_engine
    import impl_engine
    from scen_engine import _A
    from gen_engine import hexof
    g = gen_engine.Gen(seed, dict(PROFILE, groups=0.0, missing_bid=0.0, restart=0.0))
    A = impl_engine.ImplEngine()
    B = impl_engine.ImplEngine()
    fails = []
    nb = ni = 0
    rich = [None]
    nm = lambda v: {"k": "name", "v": v, "t": 1}

    def both(line):
        oa = A.handle(copy.deepcopy(line))
        B.handle(copy.deepcopy(line))
        g.observe(line, oa)
        return oa

    def attr_batch(ver):
        """[an attribute operation on the rich object: rename to a sibling's value, far index, delete...; a Create;
        a GetAttributes of the rich object]"""
        R = rich[0]
        if ver < 20:
            first = g.ch([
                {"op": "modifyAttribute", "uid": R, "attr": {"name": "Name", "index": 1, "value": nm("alpha")}, "current": None, "new": None},
                {"op": "modifyAttribute", "uid": R, "attr": {"name": "Name", "index": 0, "value": nm("beta")}, "current": None, "new": None},
                {"op": "modifyAttribute", "uid": R, "attr": {"name": "Name", "index": 7, "value": nm("far")}, "current": None, "new": None},
                {"op": "deleteAttribute", "uid": R, "name": "Name", "index": 9, "current": None, "reference": None},
                {"op": "modifyAttribute", "uid": R, "attr": {"name": "Object Group", "index": 1, "value": {"k": "text", "v": "grpA"}}, "current": None, "new": None},
            ])
        else:
            cur = lambda n, v: {"name": n, "index": None, "value": v}
            first = g.ch([
                {"op": "modifyAttribute", "uid": R, "attr": None, "current": cur("Name", nm("beta")), "new": cur("Name", nm("alpha"))},
                {"op": "modifyAttribute", "uid": R, "attr": None, "current": cur("Name", nm("nosuch")), "new": cur("Name", nm("x"))},
                {"op": "deleteAttribute", "uid": R, "name": None, "index": None, "current": cur("Name", nm("nosuch")), "reference": None},
            ])
        items = [dict(first, bid="a0", crypto=None),
                 {"op": "create", "bid": "a1", "otype": 2, "crypto": {"k": "ok", "t": hexof(16, rnd=g.r)},
                  "tmpl": {"tnames": 0, "attrs": [_A("Cryptographic Algorithm", "enum", 3), _A("Cryptographic Length", "int", 128),
                                                   _A("Cryptographic Usage Mask", "int", 12)]}},
                 {"op": "getAttributes", "bid": "a2", "crypto": None, "uid": R, "names": []},
                 {"op": "activate", "bid": "a3", "crypto": None, "uid": None}]
        return {"cmd": "req", "now": g.now, "id": {"user": "alice", "groups": None},
                "req": {"version": ver, "ts": None, "async": None, "bopt": 1, "maxsize": None, "items": items}}
    try:
        for step in range(length):
            ver = g.ch([12, 13, 14, 14, 20])
            if step % 4 == 1:
                if rich[0] is None:
                    attrs = [_A("Cryptographic Algorithm", "enum", 3), _A("Cryptographic Length", "int", 128),
                             _A("Cryptographic Usage Mask", "int", 12)]
                    attrs += [_A("Name", "name", n, k, t=1) for k, n in enumerate(["alpha", "beta", "gamma"])]
                    attrs += [_A("Object Group", "text", x, k) for k, x in enumerate(["grpA", "grpB"])]
                    o = both({"cmd": "req", "now": g.now, "id": {"user": "alice", "groups": None},
                              "req": {"version": 14, "ts": None, "async": None, "bopt": None, "maxsize": None,
                                      "items": [{"op": "create", "bid": None, "otype": 2,
                                                 "crypto": {"k": "ok", "t": hexof(16, rnd=g.r)},
                                                 "tmpl": {"tnames": 0, "attrs": attrs}}]}})
                    try:
                        rich[0] = o["results"][0]["data"]["uid"]
                    except Exception:
                        rich[0] = None
                if rich[0] is None:
                    continue
                line = attr_batch(ver)
            else:
                n = g.ch([1, 2, 3, 3, 4, 5])
                line = g.line(nitems=n)
                if n > 1:
                    line["req"]["bopt"] = 1
                if line["req"]["version"] not in (12, 13, 14, 20):
                    line["req"]["version"] = ver
            items = line["req"]["items"]
            multi = len(items) > 1 and line["req"].get("bopt") == 1
            try:
                oa = A.handle(copy.deepcopy(line))
            except impl_engine.BuildRefused:
                continue
            g.observe(line, oa)
            if not multi or "results" not in oa:
                try:
                    ob = B.handle(copy.deepcopy(line))
                except impl_engine.BuildRefused:
                    ob = None
                if ob is not None and obs_results(oa) != obs_results(ob):
                    fails.append(("c08:twin-engines-differ", "the same request is answered differently by two engines with "
                                  "the same history: %s vs %s" % (obs_results(oa), obs_results(ob)), line))
                    break
                continue
            nb += 1
            ph = None
            for k, it in enumerate(items):
                single = copy.deepcopy(it)
                # an item that names no identifier works on the batch's ID placeholder; sent alone it has to name it.  An
                # EMPTY identifier counts as none for the operations that test the identifier's text (all but Activate /
                # Revoke / Destroy / MAC, which look the empty identifier up): engine model `uidOr` vs `uidOrObj`, tied by
                # the engine correspondence.  (Thorough-tier false alarm of round 12: three batches with an empty identifier.)
                unnamed = single.get("uid", "absent") is None or \
                    (single.get("uid") == "" and it["op"] not in ("activate", "revoke", "destroy", "mac"))
                if unnamed and it["op"] in M.PLACEHOLDER_USERS and ph is not None:
                    single["uid"] = ph
                one = {"cmd": "req", "now": line["now"], "id": line["id"], "req": dict(line["req"], items=[single], bopt=None)}
                try:
                    ob = B.handle(one)
                except impl_engine.BuildRefused:
                    ob = None
                ni += 1
                ra = oa["results"][k] if k < len(oa["results"]) else None
                rb = ob["results"][0] if ob and ob.get("results") else None
                if rb is not None and rb.get("status") == "ok":
                    d = rb.get("data") or {}
                    if it["op"] in ("create", "register", "deriveKey"):
                        ph = d.get("uid")
                    elif it["op"] == "createKeyPair":
                        ph = d.get("priv")
                if ra is None or rb is None:
                    continue
                va, vb = (ra.get("status"), ra.get("reason")), (rb.get("status"), rb.get("reason"))
                if va != vb:
                    fails.append(("c08:batch-item-answered-differently-than-alone:%s" % it["op"],
                                  "item %d (%s) of a Continue batch of %d was answered %s/%s (%s); sent alone after its "
                                  "predecessors it is answered %s/%s (%s) - earlier items of the batch: %s"
                                  % (k, it["op"], len(items), va[0], va[1], (ra.get("msg") or "")[:80], vb[0], vb[1],
                                     (rb.get("msg") or "")[:80],
                                     [(x["op"], r.get("status"), r.get("reason")) for x, r in zip(items[:k], oa["results"])]),
                                  line))
                    break
            if fails:
                break
            if strip_dump(A.dump()) != strip_dump(B.dump()):
                fails.append(("c08:batch-leaves-another-store-than-its-items",
                              "after a Continue batch the store differs from the store after its items sent one by one", line))
                break
    finally:
        A.close()
        B.close()
    return {"fails": fails[:3], "batches": nb, "items": ni}


def obs_results(o):
    if not isinstance(o, dict):
        return o
    if "rejected" in o:
        return ("rejected", o["rejected"])
    return [(r.get("status"), r.get("reason")) for r in o.get("results", [])]


def strip_dump(d):
    return [{k: v for k, v in ob.items() if k not in ("value",)} for ob in (d or {}).get("objs", [])]


def twin_pass(ctx):
    import multiprocessing
    n = 48 if ctx.tier == "quick" else 1200
    args = [(ctx.seed * 1000003 + 870000 + i, 12) for i in range(n)]
    with multiprocessing.get_context("fork").Pool(16) as pool:
        res = pool.map(twin_case, args, chunksize=2)
    nb = sum(r["batches"] for r in res)
    ni = sum(r["items"] for r in res)
    for a, r in zip(args, res):
        for sig, what, line in r["fails"]:
            ctx.report(sig, what, {"kind": "twin", "args": list(a), "line": line})
    ctx.coverage["continue_batches_replayed_item_by_item"] = nb
    ctx.coverage["items_compared_batch_vs_alone"] = ni
    ctx.coverage["evaluations"] = (ctx.coverage.get("evaluations") or 0) + ni


# ------------------------------------------------------------------ batches against the REAL cryptography backend
def real_backend_case(seed):
    """Batches whose items fail INSIDE the real cryptography engine (wrong GCM tag, key of the wrong length for the
    cipher, undecryptable padding ...) behind items that change the store, answered by the engine and then ENCODED as the
    session encodes its answer: every item has its result in the response that can actually be sent - a failure the
    backend reports with an unusual message must not cost the client the results of the items before it."""
    import random
    import impl_engine
    r = random.Random(seed)
    E = impl_engine.ImplEngine(scripted_crypto=False)
    fails = []
    n = 0

    def line(items, v=14, bopt=1):
        for k, it in enumerate(items):
            it.setdefault("bid", "x%d" % k)
            it.setdefault("crypto", None)
        return {"cmd": "req", "now": 1000, "id": {"user": "alice", "groups": None},
                "req": {"version": v, "ts": None, "async": None, "bopt": bopt, "maxsize": None, "items": items}}

    def attr(nm, v):
        return {"name": nm, "index": None, "value": v}
    try:
        key = bytes(r.randrange(256) for _ in range(16))
        o = E.handle(line([{"op": "register", "otype": 2, "tmpl": {"tnames": 0, "attrs": [attr("Cryptographic Usage Mask", {"k": "int", "v": 12})]},
                            "obj": {"otype": 2, "value": key.hex(), "alg": 3, "len": 128, "format": 1, "subtype": None}}], bopt=None))
        K = o["results"][0]["data"]["uid"]
        E.handle(line([{"op": "activate", "uid": K}], bopt=None))
        gcp = {"mode": 9, "padding": None, "alg": 3, "taglen": 16}
        enc = E.handle(line([{"op": "encrypt", "uid": K, "params": True, "cp": gcp, "data_hex": "11" * 24, "iv_hex": "22" * 12}], bopt=None))
        e0 = enc["results"][0]
        create = lambda: {"op": "create", "otype": 2, "tmpl": {"tnames": 0, "attrs": [
            attr("Cryptographic Algorithm", {"k": "enum", "v": 3}), attr("Cryptographic Length", {"k": "int", "v": 128}),
            attr("Cryptographic Usage Mask", {"k": "int", "v": 12})]}}
        bads = []
        if e0.get("status") == "ok" and e0.get("_tag"):
            bads.append({"op": "decrypt", "uid": K, "params": True, "cp": gcp, "data_hex": e0["data"]["c"], "iv_hex": "22" * 12,
                         "tag_hex": "00" * 16})
            bads.append({"op": "decrypt", "uid": K, "params": True, "cp": gcp, "data_hex": "ff" + e0["data"]["c"][2:],
                         "iv_hex": "22" * 12, "tag_hex": e0["_tag"]})
        bads.append({"op": "decrypt", "uid": K, "params": True, "cp": {"mode": 1, "padding": 3, "alg": 3}, "data_hex": "ab" * 16,
                     "iv_hex": "22" * 16})
        bads.append({"op": "encrypt", "uid": K, "params": True, "cp": {"mode": 1, "padding": 3, "alg": 2}, "data_hex": "ab" * 16,
                     "iv_hex": "22" * 8})
        for bad in bads:
            for v in (14, 20):
                items = [create(), {"op": "activate", "uid": None}, dict(bad), {"op": "getAttributeList", "uid": K}]
                o = E.handle(line(items, v=v))
                n += 1
                rs = o.get("results")
                if rs is None:
                    fails.append(("c08:real-backend-batch-rejected", "batch [Create; Activate; %s %s; GetAttributeList] was "
                                  "answered as a whole: %s" % (bad["op"], bad["cp"], str(o)[:200])))
                    continue
                if len(rs) != 4:
                    fails.append(("c08:continue-skipped-items", "%d results for 4 items" % len(rs)))
                if o.get("_encode_error"):
                    fails.append(("c08:results-lost-response-unencodable",
                                  "the engine's answer to [Create; Activate; %s with %s (fails in the backend); GetAttributeList] "
                                  "cannot be encoded (%s at %s, items %s): the session answers ONE General Failure and the "
                                  "client never learns the results %s of the items that took effect"
                                  % (bad["op"], bad["cp"], o["_encode_error"].get("exc"), o["_encode_error"].get("site"),
                                     o["_encode_error"].get("items"), [(x.get("status"), x.get("reason")) for x in rs])))
                    break
            if fails:
                break
    finally:
        E.close()
    return fails, n


def real_backend_pass(ctx):
    import multiprocessing
    k = 6 if ctx.tier == "quick" else 80
    seeds = [ctx.seed * 2003 + 660 + i for i in range(k)]
    with multiprocessing.get_context("fork").Pool(6) as pool:
        res = pool.map(real_backend_case, seeds)
    tot = 0
    for sd, (fails, n) in zip(seeds, res):
        tot += n
        for sig, what in fails:
            ctx.report(sig, what, {"kind": "real-backend", "seed": sd})
    ctx.coverage["real_backend_batches"] = tot
    ctx.coverage["evaluations"] = (ctx.coverage.get("evaluations") or 0) + tot


def search(ctx, broken):
    engine_check.standard_search(ctx, PROFILE, MONITORS, 25, builder="props.c08.builder")
    ev = ctx.coverage.get("evaluations", 0)
    # the scripted scenarios too (implementation monitors only)
    for b, ln in (("scen_engine.version_mix_attr_builder", 5), ("scen_engine.read_commit_builder", 16),
                  ("scen_engine.attr_commit_builder", 14), ("scen_engine.placeholder_follow_builder", 12)):
        engine_check.standard_search(ctx, {"builtin_policies_only": True}, MONITORS, ln, builder=b, n=24)
        ev += ctx.coverage.get("evaluations", 0)
    ctx.coverage["evaluations"] = ev


def replay(ctx, rep):
    if (rep.get("replay") or {}).get("kind") == "server-e2e":
        import e2e_hook
        return e2e_hook.replay(ctx, rep)
    if (rep.get("replay") or {}).get("kind") == "real-backend":
        fails, _n = real_backend_case(rep["replay"]["seed"])
        for sig, what in fails:
            print("  %s: %s" % (sig, what))
        return not fails
    if (rep.get("replay") or {}).get("kind") == "twin":
        r = twin_case(tuple(rep["replay"]["args"]))
        for sig, what, line in r["fails"]:
            print("  %s: %s" % (sig, what))
        return not r["fails"]
    return engine_check.standard_replay(ctx, rep, MONITORS)
