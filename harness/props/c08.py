"""C08 — batch results complete; failed items leave no trace."""
import os
import sys

sys.path.insert(0, os.path.join(os.path.dirname(os.path.abspath(__file__)), "..", "lib"))
import engine_check  # noqa: E402
import monitors_engine as M  # noqa: E402

LEAN_MODULES = ["KmipModel.Props.C08"]
RULE = ("batches of 1..6 items mixing succeeding and failing operations, with/without batch item IDs, "
        "Stop/Continue/Undo, over random stores; patterns [fail X on o; succeed Y; read o] arise from the generator's "
        "bias to existing objects; non-trivial = a batch with >= 2 items containing both a success and a failure, or a "
        "rejected request; distinct = distinct (request, identity, outcome shape)")
PROFILE = {"groups": 0.1, "missing_bid": 0.06, "restart": 0.02, "batch": True}
MONITORS = [M.mon_c08, M.mon_c15]


def builder(g, E, do, length):
    for _ in range(length):
        n = g.ch([1, 2, 2, 3, 3, 4, 5, 6])
        line = g.line(nitems=n)
        if n > 1:
            line["req"]["bopt"] = g.ch([None, 1, 1, 1, 2, 2, 3 if g.p(0.15) else 1])
        do(line)
        do({"cmd": "dump"})


def nontrivial(j, o):
    if "rejected" in o:
        return len(j["req"]["items"]) > 1
    rs = o.get("results", [])
    return len(j["req"]["items"]) > 1 and any(r.get("status") == "ok" for r in rs) and any(r.get("status") != "ok" for r in rs)


def run(ctx):
    engine_check.standard_run(ctx, PROFILE, MONITORS, nontrivial, RULE, n_quick=160, n_thorough=3000, length=25,
                              builder="props.c08.builder")


def search(ctx, broken):
    engine_check.standard_search(ctx, PROFILE, MONITORS, 25, builder="props.c08.builder")


def replay(ctx, rep):
    return engine_check.standard_replay(ctx, rep, MONITORS)
