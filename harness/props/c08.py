"""C08 — batch results complete; failed items leave no trace."""
import os
import sys

sys.path.insert(0, os.path.join(os.path.dirname(os.path.abspath(__file__)), "..", "lib"))
import engine_check  # noqa: E402
import monitors_engine as M  # noqa: E402

LEAN_MODULES = ["KmipModel.Props.C08"]
RULE = ("batches of 1..6 items mixing succeeding and failing operations, with/without batch item IDs, "
        "Stop/Continue/Undo, over random stores; templates carry, with probability 0.3, an attribute that is only "
        "refused when it is set on the object (a handler failing late, after it may have touched the session); patterns [fail X on o; succeed Y; read o] arise from the generator's "
        "bias to existing objects; non-trivial = a batch with >= 2 items containing both a success and a failure, or a "
        "rejected request; distinct = distinct (request, identity, outcome shape)")
PROFILE = {"groups": 0.1, "missing_bid": 0.06, "restart": 0.02, "batch": True, "late_fail": 0.3, "revoke_date": 0.3,
           "ops": None}
MONITORS = [M.mon_c08, M.mon_c15]


LATE = ["Contact Information", "Activation Date", "State", "Lease Time"]


def late_failure_line(g):
    """[an object-creating item whose template is refused only when its attributes are set on the object;
    then items that commit] under Continue: the failed item must leave nothing behind for the later commit"""
    op = g.ch(["createKeyPair", "createKeyPair", "create", "register", "deriveKey"])
    n = g.ch([2, 2, 3])
    line = g.line(nitems=n, ops=[op] + [g.ch(["create", "register", "activate", "revoke", "createKeyPair"])
                                         for _ in range(n - 1)])
    it = line["req"]["items"][0]
    slot = g.ch(["priv", "priv", "pub", "common"]) if op == "createKeyPair" else "tmpl"
    if it.get(slot) is None:
        it[slot] = {"tnames": 0, "attrs": []}
    it[slot]["attrs"] = [a for a in it[slot]["attrs"] if a["name"] not in LATE] + [g.tattr(g.ch(LATE))]
    if op == "createKeyPair":
        # the other templates must get through: keep them free of late-failing attributes
        for other in ("priv", "pub", "common"):
            if other != slot and it.get(other):
                it[other]["attrs"] = [a for a in it[other]["attrs"] if a["name"] not in LATE]
    line["req"]["bopt"] = 1
    return line


def builder(g, E, do, length):
    for _ in range(length):
        if g.p(0.2):
            do(late_failure_line(g))
            do({"cmd": "dump"})
            continue
        n = g.ch([1, 2, 2, 3, 3, 4, 5, 6])
        line = g.line(nitems=n)
        if n > 1:
            line["req"]["bopt"] = g.ch([None, 1, 1, 1, 2, 2, 3 if g.p(0.15) else 1])
        do(line)
        do({"cmd": "dump"})


def nontrivial(j, o):
    if "rejected" in o:
        return len(j["req"]["items"]) > 1
    rs = o.get("results", [])
    return len(j["req"]["items"]) > 1 and any(r.get("status") == "ok" for r in rs) and any(r.get("status") != "ok" for r in rs)


def run(ctx):
    engine_check.standard_run(ctx, PROFILE, MONITORS, nontrivial, RULE, n_quick=160, n_thorough=3000, length=25,
                              builder="props.c08.builder")
    # scripted batches: [read or refused item on O; item that commits elsewhere] and [attribute operation variant on O;
    # commit elsewhere; read]: what a reading or failing item did to the session must not be committed by its successor
    engine_check.scenario_run(ctx, "scen_engine.read_commit_builder", MONITORS + [M.mon_c05], nontrivial, RULE, 16, 300, 16,
                              "read_then_commit_part", seed_base=810000)
    engine_check.scenario_run(ctx, "scen_engine.attr_commit_builder", MONITORS, nontrivial, RULE, 16, 300, 14,
                              "attribute_op_then_commit_part", seed_base=820000)
    engine_check.scenario_run(ctx, "scen_engine.placeholder_follow_builder", MONITORS, nontrivial, RULE, 16, 300, 12,
                              "placeholder_follower_part", seed_base=830000)


def search(ctx, broken):
    engine_check.standard_search(ctx, PROFILE, MONITORS, 25, builder="props.c08.builder")


def replay(ctx, rep):
    return engine_check.standard_replay(ctx, rep, MONITORS)
