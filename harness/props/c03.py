"""C03 — access control: decision table (exhaustive) + history correspondence + monitors."""
import itertools
import json
import os
import sys

sys.path.insert(0, os.path.join(os.path.dirname(os.path.abspath(__file__)), "..", "lib"))
import engine_check  # noqa: E402
import monitors_engine as M  # noqa: E402
from gen_engine import dumps  # noqa: E402

LEAN_MODULES = ["KmipModel.Props.C03", "KmipModel.Props.C03Engine", "KmipModel.Props.C20Engine"]
RULE = ("decision table: every cell of permission x owner/other x groups x section presence x entry presence is "
        "evaluated on the real _is_allowed_by_operation_policy, on the Lean model and on an independent reading of "
        "the property text; histories: seeded adaptive generation (identities, built-in + generated policies, all "
        "operations); a history line is non-trivial when it addresses an existing object (granted or denied) or "
        "creates one; distinct = distinct (request, identity, outcome shape)")
ASSUMPTIONS = ["identities with an empty-string group name are outside the explored domain",
               "policy dictionaries have unique keys"]
PROFILE = {"ops": {"create": 6, "register": 6, "createKeyPair": 2, "deriveKey": 3, "locate": 6, "get": 8,
                   "getAttributes": 5, "getAttributeList": 3, "activate": 4, "revoke": 3, "destroy": 3,
                   "encrypt": 2, "decrypt": 1, "sign": 1, "signatureVerify": 1, "mac": 2,
                   "setAttribute": 2, "modifyAttribute": 3, "deleteAttribute": 3, "query": 1},
           "groups": 0.45}
MONITORS = [M.mon_c03]


def decision_cells():
    """exhaustive decision table (≈6k cells)"""
    perms = ["ALLOW_ALL", "ALLOW_OWNER", "DISALLOW_ALL", None, "JUNK"]
    groupsets = [None, [], ["g1"], ["g1", "g2"], ["g2", "g1"], ["g3"]]
    shapes = ["preset", "groups", "both", "neither", "group-missing", "empty-preset", "empty-groups", "absent-policy"]
    cells = []
    for p_pre, p_g1, p_g2 in itertools.product(perms, perms, ["ALLOW_ALL", "DISALLOW_ALL", None]):
        for shape in shapes:
            def tbl(p):
                if p is None:
                    return [[2, [[8, "ALLOW_ALL"]]]]       # entry for another operation only
                return [[2, [[10, p], [8, "ALLOW_ALL"]]]]
            if shape == "preset":
                b = {"preset": tbl(p_pre), "groups": None}
            elif shape == "groups":
                b = {"preset": None, "groups": [["g1", tbl(p_g1)], ["g2", tbl(p_g2)]]}
            elif shape == "both":
                b = {"preset": tbl(p_pre), "groups": [["g1", tbl(p_g1)], ["g2", tbl(p_g2)]]}
            elif shape == "neither":
                b = {"preset": None, "groups": None}
            elif shape == "group-missing":
                b = {"preset": tbl(p_pre), "groups": [["g2", tbl(p_g2)]]}
            elif shape == "empty-preset":
                b = {"preset": [], "groups": [["g1", tbl(p_g1)]]}
            elif shape == "empty-groups":
                b = {"preset": tbl(p_pre), "groups": []}
            else:
                b = None
            pol = [["other", {"preset": tbl("ALLOW_ALL"), "groups": None}]] + ([["p", b]] if b is not None else [])
            for gs in groupsets:
                for user, owner in (("alice", "alice"), ("bob", "alice"), (None, None)):
                    for otype in (2, 7):
                        cells.append({"cmd": "allowed", "policies": pol, "policy": "p",
                                      "id": {"user": user, "groups": gs}, "owner": owner, "otype": otype, "op": 10})
    return cells


def run_decision_table(ctx):
    import impl_engine
    cells = decision_cells()
    seen = set()
    uniq = []
    for c in cells:
        k = dumps(c)
        if k not in seen:
            seen.add(k)
            uniq.append(c)
    cells = uniq
    E = impl_engine.ImplEngine()
    try:
        impl = [E.handle(c) for c in cells]
    finally:
        E.close()
    model = [json.loads(x) for x in ctx.run_model("Engine", [dumps(c) for c in cells])]
    n_true = 0
    for c, a, b in zip(cells, impl, model):
        text = M.text_grant(c["policies"], c["policy"], c["id"]["user"], c["id"]["groups"], c["owner"], c["otype"], c["op"])
        n_true += 1 if a else 0
        if a and not text:
            ctx.report("c03:decision-allows-without-grant",
                       "is_allowed grants although the property's grant condition is false",
                       {"kind": "decision-cell", "cell": c, "impl": a, "text": text})
        if a != b:
            if not ctx.violations:
                ctx.report("correspondence:decision", "decision model and _is_allowed_by_operation_policy disagree",
                           {"kind": "decision-cell", "broken": "correspondence of allowedByPolicy", "cell": c,
                            "impl": a, "model": b}, no_input=not (a and not text))
    return len(cells), n_true


def nontrivial(j, o):
    if "results" not in o:
        return False
    return any(it.get("uid") or it["op"] in ("create", "register", "createKeyPair", "deriveKey", "locate")
               for it in j["req"]["items"])


def run(ctx):
    ncell, ntrue = run_decision_table(ctx)
    stats = engine_check.standard_run(
        ctx, PROFILE, MONITORS, nontrivial, RULE, n_quick=160, n_thorough=2500, length=30,
        extra_cov={"decision_cells": ncell, "decision_cells_allowed": ntrue, "decision_table_exhaustive": True})
    ctx.coverage["evaluations"] = ctx.coverage["evaluations"] + ncell


def search(ctx, broken):
    run_decision_table(ctx)
    engine_check.standard_search(ctx, PROFILE, MONITORS, 30)


def replay(ctx, rep):
    r = rep.get("replay", rep)
    if r.get("kind") == "decision-cell":
        import impl_engine
        E = impl_engine.ImplEngine()
        try:
            a = E.handle(r["cell"])
        finally:
            E.close()
        c = r["cell"]
        text = M.text_grant(c["policies"], c["policy"], c["id"]["user"], c["id"]["groups"], c["owner"], c["otype"], c["op"])
        print("  impl=%s property-text=%s" % (a, text))
        return not (a and not text)
    return engine_check.standard_replay(ctx, rep, MONITORS)
