"""C03 — access control: decision table (exhaustive) + history correspondence + monitors."""
import itertools
import json
import os
import sys

sys.path.insert(0, os.path.join(os.path.dirname(os.path.abspath(__file__)), "..", "lib"))
import engine_check  # noqa: E402
import monitors_engine as M  # noqa: E402
from gen_engine import dumps  # noqa: E402

LEAN_MODULES = ["KmipModel.Props.C03", "KmipModel.Props.C03Engine", "KmipModel.Props.C20Engine"]
RULE = ("decision table: every cell of permission x owner/other x groups x section presence x entry presence is "
        "evaluated on the real _is_allowed_by_operation_policy, on the Lean model and on an independent reading of "
        "the property text; policy FILES: documents mixing sectioned and legacy policies loaded with the real "
        "read_policy_from_file, the real decision under the parsed policies against the property text read on the "
        "document; histories: seeded adaptive generation (identities, built-in + generated policies, all "
        "operations); a history line is non-trivial when it addresses an existing object (granted or denied) or "
        "creates one; distinct = distinct (request, identity, outcome shape)")
ASSUMPTIONS = ["identities with an empty-string group name are outside the explored domain",
               "policy dictionaries have unique keys"]
PROFILE = {"ops": {"create": 6, "register": 6, "createKeyPair": 2, "deriveKey": 3, "locate": 6, "get": 8,
                   "getAttributes": 5, "getAttributeList": 3, "activate": 4, "revoke": 3, "destroy": 3,
                   "encrypt": 2, "decrypt": 1, "sign": 1, "signatureVerify": 1, "mac": 2,
                   "setAttribute": 2, "modifyAttribute": 3, "deleteAttribute": 3, "query": 1},
           "groups": 0.45, "header_extras": 0.1, "long_users": 0.12, "twins": 0.15}
MONITORS = [M.mon_c03]


def decision_cells():
    """exhaustive decision table (≈6k cells)"""
    perms = ["ALLOW_ALL", "ALLOW_OWNER", "DISALLOW_ALL", None, "JUNK"]
    groupsets = [None, [], ["g1"], ["g1", "g2"], ["g2", "g1"], ["g3"]]
    shapes = ["preset", "groups", "both", "neither", "group-missing", "empty-preset", "empty-groups", "absent-policy"]
    cells = []
    for p_pre, p_g1, p_g2 in itertools.product(perms, perms, ["ALLOW_ALL", "DISALLOW_ALL", None]):
        for shape in shapes:
            def tbl(p):
                if p is None:
                    return [[2, [[8, "ALLOW_ALL"]]]]       # entry for another operation only
                return [[2, [[10, p], [8, "ALLOW_ALL"]]]]
            if shape == "preset":
                b = {"preset": tbl(p_pre), "groups": None}
            elif shape == "groups":
                b = {"preset": None, "groups": [["g1", tbl(p_g1)], ["g2", tbl(p_g2)]]}
            elif shape == "both":
                b = {"preset": tbl(p_pre), "groups": [["g1", tbl(p_g1)], ["g2", tbl(p_g2)]]}
            elif shape == "neither":
                b = {"preset": None, "groups": None}
            elif shape == "group-missing":
                b = {"preset": tbl(p_pre), "groups": [["g2", tbl(p_g2)]]}
            elif shape == "empty-preset":
                b = {"preset": [], "groups": [["g1", tbl(p_g1)]]}
            elif shape == "empty-groups":
                b = {"preset": tbl(p_pre), "groups": []}
            else:
                b = None
            pol = [["other", {"preset": tbl("ALLOW_ALL"), "groups": None}]] + ([["p", b]] if b is not None else [])
            for gs in groupsets:
                for user, owner in (("alice", "alice"), ("bob", "alice"), (None, None)):
                    for otype in (2, 7):
                        cells.append({"cmd": "allowed", "policies": pol, "policy": "p",
                                      "id": {"user": user, "groups": gs}, "owner": owner, "otype": otype, "op": 10})
    return cells


def run_decision_table(ctx):
    import impl_engine
    cells = decision_cells()
    seen = set()
    uniq = []
    for c in cells:
        k = dumps(c)
        if k not in seen:
            seen.add(k)
            uniq.append(c)
    cells = uniq
    E = impl_engine.ImplEngine()
    try:
        impl = [E.handle(c) for c in cells]
    finally:
        E.close()
    model = [json.loads(x) for x in ctx.run_model("Engine", [dumps(c) for c in cells])]
    n_true = 0
    for c, a, b in zip(cells, impl, model):
        text = M.text_grant(c["policies"], c["policy"], c["id"]["user"], c["id"]["groups"], c["owner"], c["otype"], c["op"])
        n_true += 1 if a else 0
        if a and not text:
            ctx.report("c03:decision-allows-without-grant",
                       "is_allowed grants although the property's grant condition is false",
                       {"kind": "decision-cell", "cell": c, "impl": a, "text": text})
        if a != b:
            if not ctx.violations:
                ctx.report("correspondence:decision", "decision model and _is_allowed_by_operation_policy disagree",
                           {"kind": "decision-cell", "broken": "correspondence of allowedByPolicy", "cell": c,
                            "impl": a, "model": b}, no_input=not (a and not text))
    return len(cells), n_true


def file_phase(ctx):
    """the policies in force come from policy FILES: documents mixing the sectioned and the legacy (flat) format are
    loaded with the real read_policy_from_file; what the real decision function then grants under the parsed policies
    must be granted by the property text read on the DOCUMENT (converted independently of the parser)"""
    import json as _json
    import random
    import tempfile
    import impl_engine
    from kmip.core import enums, policy as core_policy
    rnd = random.Random(ctx.seed * 7919 + 303)
    perms = ["ALLOW_ALL", "ALLOW_OWNER", "DISALLOW_ALL"]
    OTS, OPS = ["SYMMETRIC_KEY", "SECRET_DATA"], ["GET", "LOCATE", "DESTROY"]

    def table():
        t = {}
        for ot in OTS:
            if rnd.random() < 0.85:
                t[ot] = {op: rnd.choice(perms) for op in OPS if rnd.random() < 0.85}
        return t

    def conv(t):
        return [[enums.ObjectType[ot].value, [[enums.Operation[op].value, p] for op, p in ops.items()]] for ot, ops in t.items()]
    n = 40 if ctx.tier == "quick" else 600
    cells = granted = 0
    E = impl_engine.ImplEngine()
    wd = tempfile.mkdtemp(prefix="c03pol")
    try:
        eng = E.engine
        for k in range(n):
            doc, spec = {}, []
            for i in range(rnd.choice([2, 3, 3, 4])):
                name = "pol%d" % i
                kind = rnd.choice(["sectioned", "sectioned", "legacy", "legacy", "preset-only", "groups-only"])
                if kind == "legacy":
                    t = table()
                    doc[name] = t
                    spec.append([name, {"preset": conv(t), "groups": None}])
                else:
                    d, b = {}, {"preset": None, "groups": None}
                    if kind in ("sectioned", "preset-only"):
                        t = table()
                        d["preset"] = t
                        b["preset"] = conv(t)
                    if kind in ("sectioned", "groups-only"):
                        gs = {g: table() for g in rnd.sample(["g1", "g2", "g3"], rnd.choice([1, 2]))}
                        d["groups"] = gs
                        b["groups"] = [[g, conv(t)] for g, t in gs.items()]
                    doc[name] = d
                    spec.append([name, b])
            path = os.path.join(wd, "p%d.json" % k)
            with open(path, "w") as f:
                _json.dump(doc, f)
            try:
                parsed = core_policy.read_policy_from_file(path)
            except Exception:
                continue                    # a document the parser refuses puts no policy in force
            eng._operation_policies = parsed
            for name in doc:
                for user in ("alice", "bob"):
                    for groups in (None, ["g1"], ["g2"], ["g3"], ["g1", "g2"]):
                        for ot in OTS:
                            for op in OPS:
                                cells += 1
                                a = bool(eng._is_allowed_by_operation_policy(
                                    name, (user, groups), "alice", enums.ObjectType[ot], enums.Operation[op]))
                                t = M.text_grant(spec, name, user, groups, "alice", enums.ObjectType[ot].value,
                                                 enums.Operation[op].value)
                                granted += 1 if a else 0
                                if a and not t:
                                    ctx.report("c03:file-policy-allows-without-grant",
                                               "under the policies loaded from a policy file, %s is granted to (%s, %s) on "
                                               "alice's %s by policy %s although the document grants nothing of the kind"
                                               % (op, user, groups, ot, name),
                                               {"kind": "policy-file", "document": doc, "policy": name, "user": user,
                                                "groups": groups, "otype": ot, "op": op})
    finally:
        E.close()
        import shutil
        shutil.rmtree(wd, ignore_errors=True)
    return cells, granted


def nontrivial(j, o):
    if "results" not in o:
        return False
    return any(it.get("uid") or it["op"] in ("create", "register", "createKeyPair", "deriveKey", "locate")
               for it in j["req"]["items"])


def run(ctx):
    ncell, ntrue = run_decision_table(ctx)
    stats = engine_check.standard_run(
        ctx, PROFILE, MONITORS, nontrivial, RULE, n_quick=160, n_thorough=2500, length=30,
        extra_cov={"decision_cells": ncell, "decision_cells_allowed": ntrue, "decision_table_exhaustive": True})
    # two requesters whose objects carry EQUAL attribute values; one changes / deletes / destroys his own
    engine_check.scenario_run(ctx, "scen_engine.same_values_builder", MONITORS + [M.mon_c15], nontrivial, RULE, 24, 400, 5,
                              "equal_values_two_owners_part", seed_base=830000)
    engine_check.scenario_run(ctx, "scen_engine.twin_builder", MONITORS + [M.mon_c15], nontrivial, RULE, 24, 400, 5,
                              "twin_users_groups_names_part", seed_base=880000)
    # a requester whose GROUP membership changes between the requests of one connection (SLUGS plug-in): the grant of a
    # policy's group section follows the directory as it is at each request (the used-vs-fresh-connection part of C11)
    import props.c11 as c11
    c11.changing_directory_part(ctx, prefix="c03")
    fcells, fgranted = file_phase(ctx)
    ctx.coverage["policy_file_decision_cells"] = fcells
    ctx.coverage["policy_file_decision_cells_allowed"] = fgranted
    ctx.coverage["evaluations"] = ctx.coverage["evaluations"] + ncell + fcells


def search(ctx, broken):
    run_decision_table(ctx)
    engine_check.standard_search(ctx, PROFILE, MONITORS, 30)


def replay(ctx, rep):
    r = rep.get("replay", rep)
    if r.get("kind") == "changing-directory":
        import props.c11 as c11
        fails, _k = c11.changing_directory_case(r["seed"])
        for sig, what in fails:
            print("  %s: %s" % (sig, what[:600]))
        return not fails
    if r.get("kind") == "policy-file":
        import tempfile
        import json as _json
        import impl_engine
        from kmip.core import enums, policy as core_policy
        wd = tempfile.mkdtemp(prefix="c03pol")
        E = impl_engine.ImplEngine()
        try:
            path = os.path.join(wd, "p.json")
            with open(path, "w") as f:
                _json.dump(r["document"], f)
            E.engine._operation_policies = core_policy.read_policy_from_file(path)
            a = bool(E.engine._is_allowed_by_operation_policy(r["policy"], (r["user"], r["groups"]), "alice",
                                                              enums.ObjectType[r["otype"]], enums.Operation[r["op"]]))
            print("  granted now: %s (the document grants nothing of the kind)" % a)
            return not a
        finally:
            E.close()
            import shutil
            shutil.rmtree(wd, ignore_errors=True)
    if r.get("kind") == "decision-cell":
        import impl_engine
        E = impl_engine.ImplEngine()
        try:
            a = E.handle(r["cell"])
        finally:
            E.close()
        c = r["cell"]
        text = M.text_grant(c["policies"], c["policy"], c["id"]["user"], c["id"]["groups"], c["owner"], c["otype"], c["op"])
        print("  impl=%s property-text=%s" % (a, text))
        return not (a and not text)
    return engine_check.standard_replay(ctx, rep, MONITORS)
