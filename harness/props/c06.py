"""C06 — cryptographic operations compute what they claim (partial: primitives are OpenSSL's)."""
import hashlib
import hmac as pyhmac
import itertools
import json
import os
import random
import struct
import sys
import warnings

sys.path.insert(0, os.path.join(os.path.dirname(os.path.abspath(__file__)), "..", "lib"))
from gen_engine import dumps  # noqa: E402

warnings.filterwarnings("ignore")
LEAN_MODULES = ["KmipModel.Props.C06", "KmipModel.Props.C06Plans"]
RULE = ("(1) plan correspondence: every (algorithm, mode, padding, IV supplied/absent, AAD, tag length) tuple of the "
        "grid is sent to the real CryptographyEngine.encrypt/decrypt and to the Lean plan functions; accepted/rejected, "
        "IV generated, padding applied and block alignment must agree; padding bytes are compared byte for byte; "
        "(2) monitors on the real engine: Decrypt o Encrypt = id for every accepted tuple x message lengths (0, 1, "
        "block-1, block, block+1, 3 blocks) x key sizes, GCM rejects any change to ciphertext/tag/AAD, ciphertext equals "
        "an independent use of the same cipher, SignatureVerify accepts exactly what Sign produced (RSA pairs from "
        "create_asymmetric_key_pair; tampered message/signature rejected; verified again with an independent verifier), "
        "MAC / DeriveKey / key wrap equal independent references (hmac, hashlib, own CMAC-free check via backend, "
        "PBKDF2, HKDF, SP 800-108 counter mode, RFC 3394), generated keys/IVs have the requested length and never repeat")
ASSUMPTIONS = ["correctness of the OpenSSL primitives and unpredictability of os.urandom are trusted (hypothesis "
               "Prims.dec_enc in the theorem); references use hashlib/hmac and hand-written KDF / RFC 3394 code"]

KEYLEN = {2: [24], 3: [16, 24, 32], 16: [16], 17: [16, 32], 18: [16], 19: [16], 22: [16]}
BLOCK = {2: 8, 3: 16, 16: 8, 17: 16, 18: 8, 19: 8, 22: 0}


def E():
    from kmip.core import enums
    return enums


def grid(tier):
    algs = [3, 2, 17, 16, 18, 22, 14, 4]            # AES 3DES Camellia Blowfish CAST5 RC4 + unsupported (DSA? / RSA)
    modes = [None, 1, 2, 4, 5, 6, 9, 13, 3]          # CBC ECB CFB OFB CTR GCM + unsupported NIST_KEY_WRAP, CBC_MAC?
    pads = [None, 3, 6, 1, 5]                        # PKCS5, ANSI_X923, NONE, ZEROS
    for alg, mode, pad, iv, aad, tl in itertools.product(algs, modes, pads, [False, True], [False, True], [None, 16, 12]):
        if tier == "quick" and alg not in (3, 2, 22, 14) and (pad not in (None, 3) or tl == 12):
            continue
        yield alg, mode, pad, iv, aad, tl


def enum_or_none(Ecls, v):
    try:
        return None if v is None else Ecls(v)
    except ValueError:
        return "skip"


def run_plans(ctx):
    from kmip.services.server.crypto import engine as ce
    from kmip.core import exceptions
    en = E()
    eng = ce.CryptographyEngine()
    r = random.Random(ctx.seed + 17)
    cases, lines = [], []
    fails = 0
    for alg, mode, pad, iv, aad, tl in grid(ctx.tier):
        a = enum_or_none(en.CryptographicAlgorithm, alg)
        m = enum_or_none(en.BlockCipherMode, mode)
        p = enum_or_none(en.PaddingMethod, pad)
        if "skip" in (a, m, p):
            continue
        klen = r.choice(KEYLEN.get(alg, [16]))
        key = bytes(r.randrange(256) for _ in range(klen))
        bs = BLOCK.get(alg, 16) or 16
        ivlen = 12 if mode == 9 else bs
        ivb = bytes(r.randrange(256) for _ in range(ivlen)) if iv else None
        pt = bytes(r.randrange(256) for _ in range(2 * bs))
        try:
            res = eng.encrypt(a, key, pt, cipher_mode=m, padding_method=p, iv_nonce=ivb,
                              auth_additional_data=b"aad" if aad else None, auth_tag_length=tl)
            obs = {"ok": True, "ivGenerated": res.get("iv_nonce") is not None,
                   "padded": len(res["cipher_text"]) > len(pt), "ct": res["cipher_text"], "iv": res.get("iv_nonce") or ivb, "given_iv": ivb,
                   "tag": res.get("auth_tag")}
        except exceptions.InvalidField:
            obs = {"ok": False, "err": "InvalidField"}
        except exceptions.CryptographicFailure:
            obs = {"ok": False, "err": "CryptographicFailure"}
        except Exception as e:  # an exception class the property does not allow
            obs = {"ok": False, "err": "other:" + type(e).__name__}
        cases.append(((alg, mode, pad, iv, aad, tl), obs, key, pt, a, m, p))
        lines.append(dumps({"cmd": "enc", "alg": alg, "mode": mode, "padding": pad, "iv": ivlen if iv else None,
                            "aad": aad, "taglen": tl}))
    model = [json.loads(x) for x in ctx.run_model("Crypto", lines)]
    stats = {"accepted": 0, "rejected": 0, "roundtrips": 0}
    for (tup, obs, key, pt, a, m, p), mo in zip(cases, model):
        if obs.get("err", "").startswith("other:"):
            ctx.report("c06:encrypt-unexpected-exception:%s" % obs["err"][6:],
                       "encrypt%s raised %s" % (tup, obs["err"]), {"kind": "plan", "tuple": tup})
            continue
        model_ok = "err" not in mo
        if obs["ok"] != model_ok and obs.get("err") != "CryptographicFailure":
            fails += 1
            if not ctx.violations:
                ctx.report("correspondence:encrypt-plan", "plan model and CryptographyEngine.encrypt disagree on acceptance",
                           {"kind": "plan", "broken": "correspondence Drivers/Crypto.lean encPlan vs _encrypt_symmetric",
                            "tuple": tup, "impl": {k: v for k, v in obs.items() if k in ("ok", "err")}, "model": mo},
                           no_input=True)
            continue
        if not obs["ok"]:
            stats["rejected"] += 1
            continue
        stats["accepted"] += 1
        if obs["ivGenerated"] != mo["ivGenerated"] or obs["padded"] != (mo["padding"] is not None):
            if not ctx.violations:
                ctx.report("correspondence:encrypt-plan-fields", "plan model and encrypt disagree on IV generation / padding",
                           {"kind": "plan", "broken": "correspondence encPlan fields", "tuple": tup,
                            "impl": {"ivGenerated": obs["ivGenerated"], "padded": obs["padded"]}, "model": mo}, no_input=True)
        if tup[3] and obs["ivGenerated"]:
            # the caller stated the IV: the cipher ran with it; reporting ANOTHER one makes the result undecryptable
            ctx.report("c06:encrypt-reports-iv-it-was-not-asked-to-generate",
                       "encrypt%s was given an IV / nonce and returned %s one of its own in the result"
                       % (tup, "the same value as" if obs["iv"] == obs.get("given_iv") else "a different value as"),
                       {"kind": "plan", "tuple": tup, "sequence": "the grid up to this tuple, on one CryptographyEngine"})
        if mo["ivGenerated"] and len(obs["iv"]) != mo["iv"]:
            ctx.report("c06:generated-iv-length", "generated IV has %d bytes, block size %d" % (len(obs["iv"]), mo["iv"]),
                       {"kind": "plan", "tuple": tup})
        # Decrypt inverts Encrypt (implementation monitor)
        try:
            back = eng.decrypt(a, key, obs["ct"], cipher_mode=m, padding_method=p, iv_nonce=obs["iv"],
                               auth_additional_data=b"aad" if tup[4] else None, auth_tag=obs["tag"])
            stats["roundtrips"] += 1
            if back != pt:
                ctx.report("c06:decrypt-does-not-invert-encrypt", "decrypt(encrypt(m)) != m for %s" % (tup,),
                           {"kind": "plan", "tuple": tup})
        except Exception as e:
            ctx.report("c06:decrypt-rejects-own-ciphertext", "decrypt failed on encrypt's output for %s: %s" % (tup, e),
                       {"kind": "plan", "tuple": tup})
    return len(cases), stats


def run_iv_sequences(ctx):
    """One CryptographyEngine, pairs of calls: [an Encrypt WITHOUT IV that is refused or fails at any stage - missing /
    unsupported padding, bad key length, unsupported mode, bad tag length]; [an Encrypt WITH a stated IV / nonce]: the
    second result carries no IV of its own and is what an independent use of the cipher with the STATED IV gives
    (checked by decrypting with the stated IV on a fresh engine).  Also [successful Encrypt without IV]; [with IV]."""
    from kmip.services.server.crypto import engine as ce
    en = E()
    r = random.Random(ctx.seed + 606)
    A, M, P = en.CryptographicAlgorithm, en.BlockCipherMode, en.PaddingMethod
    firsts = [
        dict(alg=A.AES, klen=16, mode=M.CBC, pad=None, ptlen=16),          # padding required
        dict(alg=A.AES, klen=16, mode=M.CBC, pad=P.ISO_10126, ptlen=16),   # padding not supported
        dict(alg=A.AES, klen=15, mode=M.CBC, pad=P.PKCS5, ptlen=16),       # bad key
        dict(alg=A.AES, klen=16, mode=M.CTR, pad=None, ptlen=5),           # succeeds, IV generated
        dict(alg=A.TRIPLE_DES, klen=24, mode=M.CBC, pad=None, ptlen=8),    # padding required, 8-byte IV
        dict(alg=A.AES, klen=16, mode=M.GCM, pad=None, ptlen=5, tl=3),     # tag length refused
        dict(alg=A.AES, klen=16, mode=M.GCM, pad=None, ptlen=5, tl=16),    # succeeds, nonce generated
        dict(alg=A.AES, klen=16, mode=M.NIST_KEY_WRAP, pad=None, ptlen=16),  # mode refused
    ]
    seconds = [
        dict(alg=A.AES, klen=16, mode=M.CBC, pad=P.PKCS5, ivlen=16),
        dict(alg=A.AES, klen=32, mode=M.CTR, pad=None, ivlen=16),
        dict(alg=A.AES, klen=16, mode=M.CFB, pad=None, ivlen=16),
        dict(alg=A.AES, klen=16, mode=M.OFB, pad=None, ivlen=16),
        dict(alg=A.TRIPLE_DES, klen=24, mode=M.CBC, pad=P.ANSI_X923, ivlen=8),
        dict(alg=A.AES, klen=16, mode=M.GCM, pad=None, ivlen=12, tl=16),
        dict(alg=A.AES, klen=16, mode=M.ECB, pad=P.PKCS5, ivlen=None),
    ]
    n = 0
    outcomes = {}
    for fi, f in enumerate(firsts):
        for si, s2 in enumerate(seconds):
            eng = ce.CryptographyEngine()
            key1 = bytes(r.randrange(256) for _ in range(f["klen"]))
            try:
                eng.encrypt(f["alg"], key1, bytes(f["ptlen"]), cipher_mode=f["mode"], padding_method=f["pad"],
                            iv_nonce=None, auth_tag_length=f.get("tl"))
                first = "ok"
            except Exception as e:
                first = type(e).__name__
            outcomes[first] = outcomes.get(first, 0) + 1
            key = bytes(r.randrange(256) for _ in range(s2["klen"]))
            iv = None if s2["ivlen"] is None else bytes(r.randrange(256) for _ in range(s2["ivlen"]))
            pt = bytes(r.randrange(256) for _ in range(37))
            n += 1
            try:
                res = eng.encrypt(s2["alg"], key, pt, cipher_mode=s2["mode"], padding_method=s2["pad"], iv_nonce=iv,
                                  auth_tag_length=s2.get("tl"))
            except Exception as e:
                ctx.report("c06:encrypt-refused-after-earlier-call", "Encrypt %d (stated IV) after call %d (%s): %s: %s"
                           % (si, fi, first, type(e).__name__, e), {"kind": "iv-sequence", "first": fi, "second": si})
                continue
            if res.get("iv_nonce") is not None:
                ctx.report("c06:encrypt-reports-iv-it-was-not-asked-to-generate",
                           "after an Encrypt without IV that ended %s, an Encrypt with %s returned an IV / nonce of its "
                           "own (%s the stated one)" % (first, "a stated IV" if iv is not None else "a mode that takes no IV",
                                                       "equal to" if res["iv_nonce"] == iv else "different from"),
                           {"kind": "iv-sequence", "first": fi, "second": si})
                continue
            try:
                back = ce.CryptographyEngine().decrypt(s2["alg"], key, res["cipher_text"], cipher_mode=s2["mode"],
                                                       padding_method=s2["pad"], iv_nonce=iv, auth_tag=res.get("auth_tag"))
            except Exception as e:
                back = "%s: %s" % (type(e).__name__, e)
            if back != pt:
                ctx.report("c06:decrypt-does-not-invert-encrypt", "Encrypt %d after call %d: decrypt with the stated IV gives %r"
                           % (si, fi, back if isinstance(back, str) else "other bytes"),
                           {"kind": "iv-sequence", "first": fi, "second": si})
    ctx.coverage["iv_sequences"] = n
    ctx.coverage["iv_sequence_first_call_outcomes"] = outcomes
    return n


def run_padding(ctx, n):
    from kmip.services.server.crypto import engine as ce
    from cryptography.hazmat.primitives.ciphers import algorithms
    en = E()
    eng = ce.CryptographyEngine()
    r = random.Random(ctx.seed + 23)
    lines, impl = [], []
    for _ in range(n):
        alg = r.choice([algorithms.AES, algorithms.TripleDES])
        block = alg.block_size // 8
        data = bytes(r.randrange(256) for _ in range(r.choice([0, 1, block - 1, block, block + 1, 3 * block, r.randrange(40)])))
        method = r.choice([3, 6])
        padded = eng._handle_symmetric_padding(alg, data, en.PaddingMethod(method))
        impl.append(list(padded))
        lines.append(dumps({"cmd": "pad", "block": block, "data": list(data), "method": method}))
    model = [json.loads(x) for x in ctx.run_model("Crypto", lines)]
    for ln, a, b in zip(lines, impl, model):
        if a != b["padded"] or b["unpadded"] != json.loads(ln)["data"]:
            ctx.report("correspondence:padding", "padding bytes differ between model and cryptography padders",
                       {"kind": "pad", "broken": "correspondence applyPad vs _handle_symmetric_padding", "line": ln,
                        "impl": a, "model": b}, no_input=True)
            break
    return n


# ------------------------------------------------------------------ references
def ref_kbkdf_counter(hashname, key, fixed, length):
    out = b""
    i = 1
    while len(out) < length:
        out += pyhmac.new(key, struct.pack(">I", i) + fixed, hashname).digest()
        i += 1
    return out[:length]


def ref_hkdf(hashname, ikm, salt, info, length):
    hl = hashlib.new(hashname).digest_size
    prk = pyhmac.new(salt if salt else b"\x00" * hl, ikm, hashname).digest()
    out, t, i = b"", b"", 1
    while len(out) < length:
        t = pyhmac.new(prk, t + info + bytes([i]), hashname).digest()
        out += t
        i += 1
    return out[:length]


def ref_aes_wrap(kek, data):
    """RFC 3394 key wrap written from the RFC (AES block operation from the backend)"""
    from cryptography.hazmat.primitives.ciphers import Cipher, algorithms, modes
    from cryptography.hazmat.backends import default_backend
    enc = Cipher(algorithms.AES(kek), modes.ECB(), backend=default_backend()).encryptor()
    n = len(data) // 8
    a = b"\xa6" * 8
    rr = [data[i * 8:(i + 1) * 8] for i in range(n)]
    for j in range(6):
        for i in range(n):
            b = enc.update(a + rr[i])
            t = n * j + i + 1
            a = bytes(x ^ y for x, y in zip(b[:8], struct.pack(">Q", t)))
            rr[i] = b[8:]
    return a + b"".join(rr)


# byte strings that are TEXT under some encoding (passwords, passphrases, labels: what key material, salts and messages
# often are): ASCII, UTF-8 precomposed / decomposed / compatibility forms, full-width digits, ligatures, UTF-16 with a
# byte order mark, control characters, leading / trailing blanks and zero bytes.  The server must treat them as bytes.
TEXTY = [b"password", b"pass word ", b" password", b"Password\n", b"pa\x00ss", b"\x00\x00secret", b"secret\x00\x00",
         "Ame\u0301lie".encode(), "Am\u00e9lie".encode(), "\u212bngstr\u00f6m".encode(), "\u00c5ngstr\u00f6m".encode(),
         "\ufb01sh".encode(), "fish".encode(), "pin\uff11\uff12\uff13\uff14".encode(), "pin1234".encode(),
         "\u2126hm".encode(), "\u03a9hm".encode(), "stra\u00dfe".encode(), "STRASSE".encode(),
         "caf\u00e9".encode("utf-16"), "cafe\u0301".encode("utf-16-le"), "\u00e9".encode("latin-1") * 5,
         "\u1e9b\u0323".encode(), "\u1e9b\u0323".encode() * 4, "x\u00adyz".encode(), "\ud55c\uae00".encode(),
         "\u1112\u1161\u11ab".encode(), b"\xef\xbb\xbfkey", b"A" * 16, b"a" * 16, b"%s%s%s%s", b"{0}{1}"]


def texty(r, k=None):
    """a TEXTY byte string; with `k`, cut / repeated to exactly k bytes"""
    b = TEXTY[r.randrange(len(TEXTY))]
    if k is None:
        return b
    return (b * (k // len(b) + 1))[:k] if k else b""


def run_references(ctx, n):
    from kmip.services.server.crypto import engine as ce
    from kmip.core import exceptions
    en = E()
    eng = ce.CryptographyEngine()
    r = random.Random(ctx.seed + 29)
    count = 0
    HN = {en.HashingAlgorithm.MD5: "md5", en.HashingAlgorithm.SHA_1: "sha1", en.HashingAlgorithm.SHA_224: "sha224",
          en.HashingAlgorithm.SHA_256: "sha256", en.HashingAlgorithm.SHA_384: "sha384", en.HashingAlgorithm.SHA_512: "sha512"}
    MACN = {en.CryptographicAlgorithm.HMAC_SHA1: "sha1", en.CryptographicAlgorithm.HMAC_SHA224: "sha224",
            en.CryptographicAlgorithm.HMAC_SHA256: "sha256", en.CryptographicAlgorithm.HMAC_SHA384: "sha384",
            en.CryptographicAlgorithm.HMAC_SHA512: "sha512", en.CryptographicAlgorithm.HMAC_MD5: "md5"}

    def rb(k):
        return bytes(r.randrange(256) for _ in range(k))
    for _ in range(n):
        msg = rb(r.choice([0, 1, 15, 16, 17, 64, 200])) if r.random() < 0.8 else texty(r)
        key = rb(r.choice([1, 16, 20, 32, 64, 100])) if r.random() < 0.7 else texty(r)
        # HMAC
        for alg, hn in MACN.items():
            count += 1
            if eng.mac(alg, key, msg) != pyhmac.new(key, msg, hn).digest():
                ctx.report("c06:mac-differs-from-reference:%s" % alg.name, "HMAC differs from hmac module",
                           {"kind": "ref", "alg": alg.name, "key": key.hex(), "msg": msg.hex()})
        # CMAC (AES / 3DES) against an independent CMAC written from NIST SP 800-38B
        for alg, klen, bs in ((en.CryptographicAlgorithm.AES, 16, 16), (en.CryptographicAlgorithm.TRIPLE_DES, 24, 8)):
            k = rb(klen)
            count += 1
            if eng.mac(alg, k, msg) != ref_cmac(alg, k, msg, bs):
                ctx.report("c06:mac-differs-from-reference:CMAC-%s" % alg.name, "CMAC differs from the reference",
                           {"kind": "ref", "alg": alg.name, "key": k.hex(), "msg": msg.hex()})
        # key derivation
        for h, hn in HN.items():
            ln = r.choice([1, 16, 20, 32])
            salt = rb(8) if r.random() < 0.8 else texty(r)
            it = r.choice([1, 2, 50])
            count += 4
            got = eng.derive_key(en.DerivationMethod.PBKDF2, ln, key_material=key, hash_algorithm=h, salt=salt, iteration_count=it)
            if got != hashlib.pbkdf2_hmac(hn, key, salt, it, ln):
                ctx.report("c06:derive-differs:PBKDF2:%s" % hn, "PBKDF2 output differs from hashlib", {"kind": "ref"})
            got = eng.derive_key(en.DerivationMethod.HASH, ln, derivation_data=msg, hash_algorithm=h)
            if got != hashlib.new(hn, msg).digest():
                ctx.report("c06:derive-differs:HASH:%s" % hn, "HASH derivation differs from hashlib", {"kind": "ref"})
            if ln <= 255 * hashlib.new(hn).digest_size:
                got = eng.derive_key(en.DerivationMethod.HMAC, ln, derivation_data=msg, key_material=key, hash_algorithm=h, salt=salt)
                if got != ref_hkdf(hn, key, salt, msg, ln):
                    ctx.report("c06:derive-differs:HMAC:%s" % hn, "HKDF output differs from the RFC 5869 reference", {"kind": "ref"})
            got = eng.derive_key(en.DerivationMethod.NIST800_108_C, ln, derivation_data=msg, key_material=key, hash_algorithm=h)
            if got != ref_kbkdf_counter(hn, key, msg, ln):
                ctx.report("c06:derive-differs:NIST800_108_C:%s" % hn, "SP 800-108 counter mode output differs from the reference", {"kind": "ref"})
        # key wrap
        kek = rb(r.choice([16, 24, 32]))
        data = rb(r.choice([16, 24, 32, 40]))
        count += 1
        got = eng.wrap_key(data, en.WrappingMethod.ENCRYPT, en.BlockCipherMode.NIST_KEY_WRAP, kek)
        if got != ref_aes_wrap(kek, data):
            ctx.report("c06:wrap-differs-from-rfc3394", "wrap_key output differs from the RFC 3394 reference", {"kind": "ref"})
        # independent encryption
        from cryptography.hazmat.primitives.ciphers import Cipher, algorithms, modes
        from cryptography.hazmat.backends import default_backend
        k = rb(r.choice([16, 24, 32]))
        iv = rb(16)
        pt = rb(16 * r.choice([1, 2, 5]))
        for mode, cls in ((en.BlockCipherMode.CBC, modes.CBC), (en.BlockCipherMode.CTR, modes.CTR), (en.BlockCipherMode.OFB, modes.OFB)):
            count += 1
            res = eng.encrypt(en.CryptographicAlgorithm.AES, k, pt, cipher_mode=mode,
                              padding_method=en.PaddingMethod.PKCS5, iv_nonce=iv)
            c = Cipher(algorithms.AES(k), cls(iv), backend=default_backend()).encryptor()
            src = pt + bytes([16]) * 16 if mode == en.BlockCipherMode.CBC else pt
            if res["cipher_text"] != c.update(src) + c.finalize():
                ctx.report("c06:encrypt-differs-from-independent-use:%s" % mode.name, "ciphertext differs", {"kind": "ref"})
        # GCM authenticity
        count += 1
        res = eng.encrypt(en.CryptographicAlgorithm.AES, k, pt, cipher_mode=en.BlockCipherMode.GCM, iv_nonce=rb(12),
                          auth_additional_data=b"hdr", auth_tag_length=16)
        ivg = res.get("iv_nonce")
    return count


def run_reference_repeats(ctx):
    """ONE CryptographyEngine for the whole pass (whatever it remembers between calls stays in play): for every key
    derivation method and for MAC, a fixed argument tuple in which ONE argument at a time runs through its domain
    (hash, iteration count incl. 1000 / 2048 / 10000, length, salt, key, data), every call made twice: each result
    equals the independent reference for THAT tuple."""
    from kmip.services.server.crypto import engine as ce
    en = E()
    eng = ce.CryptographyEngine()
    r = random.Random(ctx.seed + 4242)
    HN = {en.HashingAlgorithm.MD5: "md5", en.HashingAlgorithm.SHA_1: "sha1", en.HashingAlgorithm.SHA_224: "sha224",
          en.HashingAlgorithm.SHA_256: "sha256", en.HashingAlgorithm.SHA_384: "sha384", en.HashingAlgorithm.SHA_512: "sha512"}
    D = en.DerivationMethod

    def rb(k):
        return bytes(r.randrange(256) for _ in range(k))
    base = {"h": en.HashingAlgorithm.SHA_256, "key": rb(16), "salt": rb(8), "it": 2048, "ln": 24, "msg": rb(20)}
    domains = {"h": list(HN), "it": [1, 2, 999, 1000, 1001, 2048, 10000], "ln": [1, 16, 20, 24, 32, 64],
               "salt": [rb(8), rb(8), rb(16)] + [texty(r) for _ in range(4)],
               "key": [rb(16), rb(16), rb(32)] + TEXTY, "msg": [rb(20), rb(20), b""] + [texty(r) for _ in range(4)]}

    def calls(a):
        hn = HN[a["h"]]
        yield ("PBKDF2", lambda: eng.derive_key(D.PBKDF2, a["ln"], key_material=a["key"], hash_algorithm=a["h"],
                                                salt=a["salt"], iteration_count=a["it"]),
               lambda: hashlib.pbkdf2_hmac(hn, a["key"], a["salt"], a["it"], a["ln"]))
        # (the cryptography engine returns the whole digest; KmipEngine._process_derive_key truncates it)
        yield ("HASH", lambda: eng.derive_key(D.HASH, a["ln"], derivation_data=a["msg"], hash_algorithm=a["h"]),
               lambda: hashlib.new(hn, a["msg"]).digest())
        yield ("HMAC", lambda: eng.derive_key(D.HMAC, a["ln"], derivation_data=a["msg"], key_material=a["key"],
                                              hash_algorithm=a["h"], salt=a["salt"]),
               lambda: ref_hkdf(hn, a["key"], a["salt"], a["msg"], a["ln"]))
        yield ("NIST800_108_C", lambda: eng.derive_key(D.NIST800_108_C, a["ln"], derivation_data=a["msg"],
                                                       key_material=a["key"], hash_algorithm=a["h"]),
               lambda: ref_kbkdf_counter(hn, a["key"], a["msg"], a["ln"]))
    n = 0
    for _round in range(2):
        for var, dom in domains.items():
            for val in dom:
                a = dict(base)
                a[var] = val
                for name, call, ref in calls(a):
                    if name != "PBKDF2" and var == "it":
                        continue
                    for rep in range(2):
                        n += 1
                        try:
                            got = call()
                        except Exception as e:
                            got = "%s: %s" % (type(e).__name__, e)
                        want = ref()
                        if got != want:
                            ctx.report("c06:derive-differs-after-earlier-calls:%s" % name,
                                       "%s with %s = %r (other arguments as in the calls before it, call %d of 2, round %d) "
                                       "differs from the reference" % (name, var, val if not isinstance(val, bytes) else val.hex(),
                                                                       rep + 1, _round + 1),
                                       {"kind": "ref-repeats", "method": name, "varied": var})
    ctx.coverage["reference_repeat_calls"] = n
    return n


def ref_cmac(alg, key, msg, bs):
    from cryptography.hazmat.primitives.ciphers import Cipher, algorithms, modes
    from cryptography.hazmat.backends import default_backend
    en = E()
    cls = algorithms.AES if alg == en.CryptographicAlgorithm.AES else algorithms.TripleDES

    def ecb(block):
        e = Cipher(cls(key), modes.ECB(), backend=default_backend()).encryptor()
        return e.update(block) + e.finalize()
    rb_const = 0x87 if bs == 16 else 0x1B

    def dbl(b):
        n = int.from_bytes(b, "big") << 1
        if n >> (bs * 8):
            n = (n & ((1 << (bs * 8)) - 1)) ^ rb_const
        return n.to_bytes(bs, "big")
    k1 = dbl(ecb(b"\x00" * bs))
    k2 = dbl(k1)
    nblocks = max(1, (len(msg) + bs - 1) // bs)
    last = msg[(nblocks - 1) * bs:]
    if len(msg) > 0 and len(msg) % bs == 0:
        last = bytes(x ^ y for x, y in zip(last, k1))
    else:
        last = bytes(x ^ y for x, y in zip(last + b"\x80" + b"\x00" * (bs - len(last) - 1), k2))
    x = b"\x00" * bs
    for i in range(nblocks - 1):
        x = ecb(bytes(a ^ b for a, b in zip(x, msg[i * bs:(i + 1) * bs])))
    return ecb(bytes(a ^ b for a, b in zip(x, last)))


def run_gcm_and_sign(ctx, n):
    from kmip.services.server.crypto import engine as ce
    from kmip.core import exceptions
    from cryptography.hazmat.primitives import hashes, serialization
    from cryptography.hazmat.primitives.asymmetric import padding as apad
    from cryptography.hazmat.backends import default_backend
    en = E()
    eng = ce.CryptographyEngine()
    r = random.Random(ctx.seed + 31)
    count = 0

    def rb(k):
        return bytes(r.randrange(256) for _ in range(k))
    for _ in range(n):
        k, nonce, pt, aad = rb(r.choice([16, 32])), rb(12), rb(r.choice([0, 1, 16, 33])), rb(r.choice([0, 5]))
        res = eng.encrypt(en.CryptographicAlgorithm.AES, k, pt, cipher_mode=en.BlockCipherMode.GCM, iv_nonce=nonce,
                          auth_additional_data=aad, auth_tag_length=16)
        ct, tag = res["cipher_text"], res["auth_tag"]
        for what in ("ct", "tag", "aad"):
            c2, t2, a2 = ct, tag, aad
            if what == "ct" and ct:
                c2 = bytes([ct[0] ^ 1]) + ct[1:]
            elif what == "tag":
                t2 = bytes([tag[0] ^ 1]) + tag[1:]
            elif what == "aad":
                a2 = aad + b"x"
            else:
                continue
            count += 1
            try:
                eng.decrypt(en.CryptographicAlgorithm.AES, k, c2, cipher_mode=en.BlockCipherMode.GCM, iv_nonce=nonce,
                            auth_additional_data=a2, auth_tag=t2)
                ctx.report("c06:gcm-accepts-modified-%s" % what, "GCM decrypt accepted a modified %s" % what, {"kind": "gcm"})
            except exceptions.KmipError:
                pass
            except Exception as e:
                ctx.report("c06:gcm-unexpected-exception:%s" % type(e).__name__, "GCM decrypt raised %s" % type(e).__name__, {"kind": "gcm"})
    # signatures with real key pairs
    pairs = [eng.create_asymmetric_key_pair(en.CryptographicAlgorithm.RSA, 1024) for _ in range(2)]
    HS = [(en.HashingAlgorithm.SHA_256, hashes.SHA256), (en.HashingAlgorithm.SHA_1, hashes.SHA1), (en.HashingAlgorithm.SHA_512, hashes.SHA512)]
    for pub, priv in pairs:
        for pad, padname in ((en.PaddingMethod.PKCS1v15, "pkcs1"), (en.PaddingMethod.PSS, "pss")):
            for h, hcls in HS:
                msg = rb(r.choice([0, 1, 100]))
                sig = eng.sign(None, en.CryptographicAlgorithm.RSA, h, pad, priv["value"], msg)
                count += 4
                if not eng.verify_signature(pub["value"], msg, sig, pad, en.CryptographicAlgorithm.RSA, h):
                    ctx.report("c06:verify-rejects-own-signature:%s" % padname, "SignatureVerify rejected Sign's output", {"kind": "sig"})
                if eng.verify_signature(pub["value"], msg + b"x", sig, pad, en.CryptographicAlgorithm.RSA, h):
                    ctx.report("c06:verify-accepts-other-message:%s" % padname, "SignatureVerify accepted another message", {"kind": "sig"})
                bad = bytes([sig[0] ^ 1]) + sig[1:]
                if eng.verify_signature(pub["value"], msg, bad, pad, en.CryptographicAlgorithm.RSA, h):
                    ctx.report("c06:verify-accepts-modified-signature:%s" % padname, "SignatureVerify accepted a modified signature", {"kind": "sig"})
                # independent verifier
                pk = serialization.load_der_public_key(pub["value"], backend=default_backend())
                ip = apad.PKCS1v15() if padname == "pkcs1" else apad.PSS(mgf=apad.MGF1(hcls()), salt_length=apad.PSS.MAX_LENGTH)
                try:
                    pk.verify(sig, msg, ip, hcls())
                except Exception:
                    ctx.report("c06:signature-not-valid-independently:%s" % padname, "an independent verifier rejects Sign's output", {"kind": "sig"})
    # freshness and lengths
    seen = set()
    for alg, ln in ((en.CryptographicAlgorithm.AES, 128), (en.CryptographicAlgorithm.AES, 256), (en.CryptographicAlgorithm.TRIPLE_DES, 192),
                    (en.CryptographicAlgorithm.CAMELLIA, 256)):
        for _ in range(40):
            k = eng.create_symmetric_key(alg, ln)["value"]
            count += 1
            if len(k) * 8 != ln:
                ctx.report("c06:generated-key-length", "create_symmetric_key(%s,%d) returned %d bytes" % (alg.name, ln, len(k)), {"kind": "fresh"})
            if k in seen:
                ctx.report("c06:generated-key-repeated", "create_symmetric_key returned the same key twice", {"kind": "fresh"})
            seen.add(k)
    ivs = set()
    for _ in range(60):
        res = eng.encrypt(en.CryptographicAlgorithm.AES, b"\x00" * 16, b"\x00" * 16, cipher_mode=en.BlockCipherMode.CBC,
                          padding_method=en.PaddingMethod.PKCS5)
        count += 1
        if res["iv_nonce"] in ivs:
            ctx.report("c06:generated-iv-repeated", "encrypt generated the same IV twice", {"kind": "fresh"})
        ivs.add(res["iv_nonce"])
    return count


# ---------------------------------------------------------------- server operations (real KmipEngine + real crypto)
def mon_c06_hist(h, outs):
    """derived / created key material stored by the server has exactly the requested length"""
    import monitors_engine as M
    fails = []
    for i, j, o, before, after, pol in M.iter_requests(h, outs):
        if after is None or "results" not in o:
            continue
        a = M.by_uid(after)
        for it, r in zip(j["req"]["items"], o["results"]):
            if r.get("status") != "ok" or it["op"] not in ("deriveKey", "create") or not it.get("tmpl"):
                continue
            want = [x["value"]["v"] for x in it["tmpl"]["attrs"]
                    if x["name"] == "Cryptographic Length" and x["value"].get("k") == "int"]
            u = str((r.get("data") or {}).get("uid"))
            if len(want) == 1 and u in a and len(a[u]["value"]) * 4 != want[0]:
                fails.append(("c06:stored-material-length:%s:%d" % (it["op"], it.get("otype", 0)),
                              "%s of object type %s asked for %d bits, the stored value has %d bits"
                              % (it["op"], it.get("otype"), want[0], len(a[u]["value"]) * 4), i))
    return fails


def run_server(ctx, reps):
    """Create / DeriveKey / Encrypt / Decrypt / MAC / Sign / SignatureVerify through KmipEngine.process_request with
    the real CryptographyEngine, compared with independent references"""
    import impl_engine as IE
    from cryptography.hazmat.primitives.ciphers import Cipher, algorithms, modes
    from cryptography.hazmat.backends import default_backend
    r = random.Random(ctx.seed + 61)
    count = 0
    HN = {4: "sha1", 6: "sha256", 8: "sha512"}

    def rb(k):
        return bytes(r.randrange(256) for _ in range(k))

    def attr(n, v, i=None):
        return {"name": n, "index": i, "value": v}
    Eg = IE.ImplEngine(scripted_crypto=False)
    try:
        def req(items, v=14):
            o = Eg.handle({"cmd": "req", "now": 1000, "id": {"user": "alice", "groups": None},
                           "req": {"version": v, "ts": None, "async": None, "bopt": None, "maxsize": None, "items": items}})
            return o["results"]

        def register(value, alg, mask, otype=2, fmt=1):
            t = {"tnames": 0, "attrs": [attr("Cryptographic Usage Mask", {"k": "int", "v": mask})]}
            res = req([{"op": "register", "bid": None, "crypto": None, "otype": otype, "tmpl": t,
                        "obj": {"otype": otype, "value": value.hex(), "alg": alg, "len": len(value) * 8, "format": fmt,
                                "subtype": None}}])
            uid = res[0]["data"]["uid"]
            req([{"op": "activate", "bid": None, "uid": uid}])
            return uid

        def get_value(uid):
            d = req([{"op": "get", "bid": None, "uid": uid, "wrap": None, "format": None, "compression": False}])[0]
            return d.get("data") or {}
        for rep in range(reps):
            key = rb(r.choice([16, 32]))
            base = register(key, 3, 0x200 | 4 | 8)
            dkey, dbase = key, base
            if rep % 2 == 1:
                # the base object is a PASSWORD: Secret Data whose bytes are text in some encoding (TEXTY)
                dkey = texty(r)
                res = req([{"op": "register", "bid": None, "crypto": None, "otype": 7,
                            "tmpl": {"tnames": 0, "attrs": [attr("Cryptographic Usage Mask", {"k": "int", "v": 0x200})]},
                            "obj": {"otype": 7, "value": dkey.hex(), "alg": None, "len": None, "format": 2, "subtype": 1}}])
                if res[0].get("status") != "ok":
                    ctx.report("c06:password-refused", "registering a password as Secret Data failed: %s" % res[0].get("msg"),
                               {"kind": "server", "key": dkey.hex()})
                    continue
                dbase = res[0]["data"]["uid"]
                req([{"op": "activate", "bid": None, "uid": dbase}])
            for otype in (2, 7):
                for method in ("HASH", "HMAC", "PBKDF2", "NIST", "ENCRYPT"):
                    if method == "ENCRYPT" and len(dkey) not in (16, 24, 32):
                        continue
                    hcode = r.choice(sorted(HN))
                    hn = HN[hcode]
                    hl = hashlib.new(hn).digest_size
                    for nbytes in sorted(set([8, 16, hl, r.choice([1, 3, 24])])):
                        tmpl = {"tnames": 0, "attrs": [attr("Cryptographic Length", {"k": "int", "v": nbytes * 8})] +
                                ([attr("Cryptographic Algorithm", {"k": "enum", "v": 3})] if otype == 2 else [])}
                        it = {"op": "deriveKey", "bid": None, "otype": otype, "uids": [dbase], "tmpl": tmpl, "cp": {"hash": hcode}}
                        ddata, salt, iv = rb(r.choice([1, 16, 20])), rb(8), rb(16)
                        if method == "HASH":
                            it.update(method=2, ddata_hex="")
                            ref = hashlib.new(hn, dkey).digest()
                        elif method == "HMAC":
                            it.update(method=3, ddata_hex=ddata.hex(), salt_hex=salt.hex())
                            ref = ref_hkdf(hn, dkey, salt, ddata, nbytes)
                        elif method == "PBKDF2":
                            iters = r.choice([1, 3, 20])
                            it.update(method=1, salt_hex=salt.hex(), iters=iters)
                            ref = hashlib.pbkdf2_hmac(hn, dkey, salt, iters, nbytes)
                        elif method == "NIST":
                            it.update(method=5, ddata_hex=ddata.hex())
                            ref = ref_kbkdf_counter(hn, dkey, ddata, nbytes)
                        else:
                            it.update(method=4, ddata_hex=ddata.hex(), div_hex=iv.hex(), cp={"mode": 1, "padding": 3, "alg": 3})
                            c = Cipher(algorithms.AES(dkey), modes.CBC(iv), backend=default_backend()).encryptor()
                            pad = 16 - len(ddata) % 16
                            ref = c.update(ddata + bytes([pad]) * pad) + c.finalize()
                        count += 1
                        res = req([it])[0]
                        if res.get("status") != "ok":
                            if nbytes <= len(ref):
                                ctx.report("c06:server-derive-refused:%s" % method,
                                           "DeriveKey %s/%s for %d bytes of object type %d failed: %s"
                                           % (method, hn, nbytes, otype, res.get("msg")), {"kind": "server", "item": it, "key": dkey.hex()})
                            continue
                        got = get_value(res["data"]["uid"])
                        val = bytes.fromhex(got.get("value") or "")
                        if len(val) != nbytes:
                            ctx.report("c06:derived-length:%s:%d" % (method, otype),
                                       "DeriveKey %s for %d bytes of object type %d stored %d bytes"
                                       % (method, nbytes, otype, len(val)), {"kind": "server", "item": it, "key": dkey.hex()})
                        elif val != ref[:nbytes]:
                            ctx.report("c06:derived-differs-from-reference:%s:%d" % (method, otype),
                                       "DeriveKey %s/%s output differs from the independent reference" % (method, hn),
                                       {"kind": "server", "item": it, "key": dkey.hex()})
                        if otype == 2 and got.get("len") != nbytes * 8:
                            ctx.report("c06:derived-length-attribute", "derived dkey reports length %s for %d bytes"
                                       % (got.get("len"), nbytes), {"kind": "server", "item": it, "key": dkey.hex()})
            # DeriveKey by ENCRYPT over the block cipher modes, with and without an Initialization Vector: a derived
            # key is a function of the request (two identical requests give the same material); where the stated
            # parameters determine the cipher completely (IV given, or ECB) it equals the independent reference
            for mode, mcls, padded in ((1, modes.CBC, True), (2, modes.ECB, True), (4, modes.CFB, False),
                                       (5, modes.OFB, False), (6, modes.CTR, False)):
                for iv_given in (True, False):
                    otype = r.choice([2, 7])
                    nbytes = r.choice([8, 16])
                    ddata, iv = rb(r.choice([16, 32])), rb(16)
                    tmpl = {"tnames": 0, "attrs": [attr("Cryptographic Length", {"k": "int", "v": nbytes * 8})] +
                            ([attr("Cryptographic Algorithm", {"k": "enum", "v": 3})] if otype == 2 else [])}
                    it = {"op": "deriveKey", "bid": None, "otype": otype, "uids": [base], "tmpl": tmpl, "method": 4,
                          "ddata_hex": ddata.hex(), "div_hex": iv.hex() if iv_given else None,
                          "cp": {"mode": mode, "padding": 3 if padded else None, "alg": 3}}
                    vals = []
                    for _rep in (0, 1):
                        count += 1
                        res = req([dict(it)])[0]
                        vals.append(bytes.fromhex(get_value(res["data"]["uid"]).get("value") or "")
                                    if res.get("status") == "ok" else None)
                    rep = {"kind": "server", "item": it, "key": key.hex()}
                    if vals[0] is not None and vals[1] is not None and vals[0] != vals[1]:
                        ctx.report("c06:derive-not-deterministic:ENCRYPT:%d" % mode,
                                   "two identical DeriveKey requests (ENCRYPT, block cipher mode %d, IV %s) derived different "
                                   "key material" % (mode, "given" if iv_given else "absent"), rep)
                    elif iv_given or mode == 2:
                        c = Cipher(algorithms.AES(key), mcls() if mode == 2 else mcls(iv), backend=default_backend()).encryptor()
                        pad = 16 - len(ddata) % 16
                        ref = (c.update(ddata + bytes([pad]) * pad if padded else ddata) + c.finalize())[:nbytes]
                        if vals[0] is None:
                            ctx.report("c06:server-derive-refused:ENCRYPT:%d" % mode,
                                       "DeriveKey ENCRYPT mode %d with%s IV was refused" % (mode, "" if iv_given else "out"), rep)
                        elif vals[0] != ref:
                            ctx.report("c06:derived-differs-from-reference:ENCRYPT:%d" % mode,
                                       "DeriveKey ENCRYPT mode %d output differs from an independent use of the cipher" % mode, rep)
            # a non-positive requested length cannot be honoured: the request must be refused
            for bits in (0, -8, -64):
                for otype in (2, 7):
                    tmpl = {"tnames": 0, "attrs": [attr("Cryptographic Length", {"k": "int", "v": bits})] +
                            ([attr("Cryptographic Algorithm", {"k": "enum", "v": 3})] if otype == 2 else [])}
                    res = req([{"op": "deriveKey", "bid": None, "otype": otype, "uids": [base], "tmpl": tmpl, "method": 2,
                                "ddata_hex": "", "cp": {"hash": 6}}])[0]
                    count += 1
                    if res.get("status") == "ok":
                        ctx.report("c06:derived-length:nonpositive",
                                   "DeriveKey with a requested length of %d bits succeeded (object type %d)" % (bits, otype),
                                   {"kind": "server", "bits": bits, "otype": otype})
            # Create: fresh material of the requested length
            seen = set()
            for bits in (128, 192, 256):
                for _k in range(3):
                    t = {"tnames": 0, "attrs": [attr("Cryptographic Algorithm", {"k": "enum", "v": 3}),
                                                attr("Cryptographic Length", {"k": "int", "v": bits}),
                                                attr("Cryptographic Usage Mask", {"k": "int", "v": 12})]}
                    res = req([{"op": "create", "bid": None, "crypto": None, "otype": 2, "tmpl": t}])[0]
                    count += 1
                    if res.get("status") != "ok":
                        continue
                    val = get_value(res["data"]["uid"]).get("value") or ""
                    if len(val) * 4 != bits:
                        ctx.report("c06:created-key-length", "Create AES-%d stored %d bits" % (bits, len(val) * 4), {"kind": "server"})
                    if val in seen:
                        ctx.report("c06:created-key-repeated", "Create returned the same material twice", {"kind": "server"})
                    seen.add(val)
            # Encrypt / Decrypt with a stored key
            for mode, mcls, padded in ((1, modes.CBC, True), (6, modes.CTR, False), (5, modes.OFB, False)):
                pt, iv = rb(r.choice([0, 1, 16, 33])), rb(16)
                cp = {"mode": mode, "padding": 3 if padded else None, "alg": 3}
                res = req([{"op": "encrypt", "bid": None, "uid": base, "params": True, "cp": cp, "data_hex": pt.hex(),
                            "iv_hex": iv.hex()}])[0]
                count += 1
                if res.get("status") != "ok":
                    if pt:
                        ctx.report("c06:server-encrypt-refused:%d" % mode, "Encrypt failed: %s" % res.get("msg"), {"kind": "server"})
                    continue
                ct = bytes.fromhex(res["data"]["c"])
                c = Cipher(algorithms.AES(key), mcls(iv), backend=default_backend()).encryptor()
                pad = 16 - len(pt) % 16
                if ct != c.update(pt + bytes([pad]) * pad if padded else pt) + c.finalize():
                    ctx.report("c06:server-encrypt-differs:%d" % mode, "Encrypt differs from an independent use of the cipher", {"kind": "server"})
                back = req([{"op": "decrypt", "bid": None, "uid": base, "params": True, "cp": cp, "data_hex": ct.hex(),
                             "iv_hex": iv.hex()}])[0]
                if back.get("status") != "ok" or bytes.fromhex(back["data"]["c"]) != pt:
                    ctx.report("c06:server-decrypt-not-inverse:%d" % mode, "Decrypt(Encrypt(m)) != m through the server", {"kind": "server"})
            # ... and with the OPTIONAL fields of the Cryptographic Parameters nobody normally sends (counter and field
            # lengths, Initial Counter Value, IV length, key role, Random IV): a Decrypt that states the same parameters
            # and IV as the Encrypt returns the plaintext (or the Encrypt is refused)
            for mode, padded in ((6, False), (1, True), (5, False), (4, False), (2, True)):
                for opt in ({"initial_counter_value": r.choice([1, 7, 255, 2 ** 31 - 1])}, {"counter_length": r.choice([8, 32, 64])},
                            {"fixed_field_length": 32, "invocation_field_length": 64}, {"iv_length": 16},
                            {"key_role": 1}, {"random_iv": r.choice([True, False])},
                            {"initial_counter_value": 1, "counter_length": 32, "iv_length": 16}):
                    pt, iv = rb(r.choice([1, 16, 33, 64])), rb(16)
                    cp = dict({"mode": mode, "padding": 3 if padded else None, "alg": 3}, **opt)
                    ivh = None if mode == 2 else iv.hex()
                    res = req([{"op": "encrypt", "bid": None, "uid": base, "params": True, "cp": cp, "data_hex": pt.hex(), "iv_hex": ivh}])[0]
                    count += 1
                    if res.get("status") != "ok":
                        continue
                    ct = bytes.fromhex(res["data"]["c"])
                    back = req([{"op": "decrypt", "bid": None, "uid": base, "params": True, "cp": cp, "data_hex": ct.hex(), "iv_hex": ivh}])[0]
                    if back.get("status") != "ok" or bytes.fromhex(back["data"]["c"]) != pt:
                        ctx.report("c06:server-decrypt-not-inverse:%d:%s" % (mode, "+".join(sorted(opt))),
                                   "Encrypt then Decrypt through the server with the same key, IV and Cryptographic Parameters %s does "
                                   "not return the plaintext (%s)" % (json.dumps(cp), back.get("msg") or "other bytes"),
                                   {"kind": "server", "cp": cp, "pt": pt.hex(), "iv": ivh})
            # a WRAPPED Get and uses of the same key in ONE batch (and after it): the wrapped key is RFC 3394 of the stored
            # key, and every use computes with the STORED key - not with what an earlier item of the batch made of it
            kw = rb(16)
            W = register(kw, 3, 0x10 | 0x20)
            pt, iv = rb(32), rb(16)
            cp = {"mode": 1, "padding": 3, "alg": 3}
            wrap = {"method": 1, "enckey": W, "encparams": True, "mackey": False, "attrnames": 0, "encoding": 1}
            o = Eg.handle({"cmd": "req", "now": 1000, "id": {"user": "alice", "groups": None},
                           "req": {"version": 14, "ts": None, "async": None, "bopt": 1, "maxsize": None, "items": [
                               {"op": "get", "bid": "w0", "crypto": None, "uid": base, "wrap": wrap, "format": None, "compression": False},
                               {"op": "encrypt", "bid": "w1", "crypto": None, "uid": base, "params": True, "cp": cp,
                                "data_hex": pt.hex(), "iv_hex": iv.hex()},
                               {"op": "create", "bid": "w2", "crypto": None, "otype": 2, "tmpl": {"tnames": 0, "attrs": [
                                   attr("Cryptographic Algorithm", {"k": "enum", "v": 3}),
                                   attr("Cryptographic Length", {"k": "int", "v": 128}),
                                   attr("Cryptographic Usage Mask", {"k": "int", "v": 12})]}},
                               {"op": "get", "bid": "w3", "crypto": None, "uid": base, "wrap": wrap, "format": None, "compression": False}]}})
            rs = o.get("results") or []
            count += len(rs)
            enc = Cipher(algorithms.AES(key), modes.CBC(iv), backend=default_backend()).encryptor()
            want_ct = enc.update(pt + bytes([16]) * 16) + enc.finalize()
            if len(rs) == 4:
                for k_ in (0, 3):
                    if rs[k_].get("status") == "ok" and (rs[k_]["data"].get("value") or "") != ref_aes_wrap(kw, key).hex():
                        ctx.report("c06:wrapped-get-differs-from-rfc3394:item-%d" % k_,
                                   "item %d of [wrapped Get; Encrypt; Create; wrapped Get]: the wrapped key is not RFC 3394 of "
                                   "the stored key" % k_, {"kind": "server"})
                if rs[1].get("status") == "ok" and bytes.fromhex(rs[1]["data"]["c"]) != want_ct:
                    ctx.report("c06:server-encrypt-differs:after-wrapped-get",
                               "Encrypt batched after a wrapped Get of the same key differs from an independent use of the cipher "
                               "with the registered key", {"kind": "server"})
            res = req([{"op": "encrypt", "bid": None, "uid": base, "params": True, "cp": cp, "data_hex": pt.hex(),
                        "iv_hex": iv.hex()}])[0]
            count += 1
            if res.get("status") == "ok" and bytes.fromhex(res["data"]["c"]) != want_ct:
                ctx.report("c06:server-encrypt-differs:request-after-wrapped-get",
                           "Encrypt in the request after a batch with a wrapped Get differs from an independent use of the "
                           "cipher with the registered key", {"kind": "server"})
            if (get_value(base).get("value") or "") != key.hex():
                ctx.report("c06:stored-key-changed-by-wrapped-get", "Get no longer returns the registered key bytes", {"kind": "server"})
            # authenticated encryption through the server: "authenticated modes reject ANY change to ciphertext, tag or
            # associated data" - whatever optional parameters the Decrypt request carries (a Tag Length shorter than
            # the tag it sends, a Tag Length of the tag's length, none)
            gk = rb(16)
            G_ = register(gk, 3, 4 | 8)
            gpt, nonce, aad = rb(r.choice([1, 16, 40])), rb(12), rb(r.choice([0, 7]))
            gcp = {"mode": 9, "padding": None, "alg": 3, "taglen": 16}
            er = Eg.handle({"cmd": "req", "now": 1000, "id": {"user": "alice", "groups": None},
                            "req": {"version": 14, "ts": None, "async": None, "bopt": None, "maxsize": None, "items": [
                                dict({"op": "encrypt", "bid": None, "crypto": None, "uid": G_, "params": True, "cp": gcp,
                                      "data_hex": gpt.hex(), "iv_hex": nonce.hex()}, **({"aad_hex": aad.hex()} if aad else {}))]}})
            e0 = (er.get("results") or [{}])[0]
            count += 1
            if e0.get("status") == "ok" and e0.get("_tag"):
                ct, tag = bytes.fromhex(e0["data"]["c"]), bytes.fromhex(e0["_tag"])

                def dec(ct_, tag_, aad_, taglen):
                    it = {"op": "decrypt", "bid": None, "crypto": None, "uid": G_, "params": True,
                          "cp": dict(gcp, taglen=taglen), "data_hex": ct_.hex(), "iv_hex": nonce.hex(), "tag_hex": tag_.hex()}
                    if aad_:
                        it["aad_hex"] = aad_.hex()
                    return req([it])[0]

                def flip(b, i):
                    x = bytearray(b)
                    x[i] ^= 0x20
                    return bytes(x)
                for taglen in (16, 12, 8, 4, None):
                    good = dec(ct, tag, aad, taglen)
                    count += 1
                    if taglen in (16, None) and not (good.get("status") == "ok" and bytes.fromhex(good["data"]["c"]) == gpt):
                        ctx.report("c06:server-gcm-decrypt-not-inverse", "GCM Decrypt(Encrypt(m)) != m through the server "
                                   "(Tag Length %s)" % taglen, {"kind": "server"})
                    for what, args in (("tag byte 15", (ct, flip(tag, 15), aad)), ("tag byte 13", (ct, flip(tag, 13), aad)),
                                       ("tag byte 0", (ct, flip(tag, 0), aad)), ("ciphertext", (flip(ct, 0), tag, aad)),
                                       ("associated data", (ct, tag, flip(aad, 0) if aad else b"x"))):
                        bad = dec(args[0], args[1], args[2], taglen)
                        count += 1
                        if bad.get("status") == "ok":
                            ctx.report("c06:server-gcm-accepts-tampered:%s" % what.replace(" ", "-"),
                                       "GCM Decrypt with Tag Length %s in the request accepted a message whose %s was changed "
                                       "(the tag sent has 16 bytes)" % (taglen, what), {"kind": "server"})
            # block ciphers of DIFFERENT block sizes with the same padding method, alternating on the one server
            # process: each ciphertext equals an independent use of that cipher (padding to ITS block size)
            k3 = rb(24)
            tdes = register(k3, 2, 4 | 8)
            for alg_uid, alg_key, alg_code, acls, bs in ((base, key, 3, algorithms.AES, 16), (tdes, k3, 2, algorithms.TripleDES, 8),
                                                          (base, key, 3, algorithms.AES, 16), (tdes, k3, 2, algorithms.TripleDES, 8)):
                for padcode in (3, 6):
                    pt, iv = rb(r.choice([3, 5, 11])), rb(bs)
                    cp = {"mode": 1, "padding": padcode, "alg": alg_code}
                    res = req([{"op": "encrypt", "bid": None, "uid": alg_uid, "params": True, "cp": cp, "data_hex": pt.hex(),
                                "iv_hex": iv.hex()}])[0]
                    count += 1
                    if res.get("status") != "ok":
                        ctx.report("c06:server-encrypt-refused:alg%d" % alg_code, "Encrypt failed: %s" % res.get("msg"),
                                   {"kind": "server", "alg": alg_code, "padding": padcode})
                        continue
                    ct = bytes.fromhex(res["data"]["c"])
                    n = bs - len(pt) % bs
                    padded = pt + (bytes([n]) * n if padcode == 3 else bytes(n - 1) + bytes([n]))
                    c = Cipher(acls(alg_key), modes.CBC(iv), backend=default_backend()).encryptor()
                    if ct != c.update(padded) + c.finalize():
                        ctx.report("c06:server-encrypt-differs:alg%d:pad%d" % (alg_code, padcode),
                                   "Encrypt (algorithm %d, CBC, padding %d) of a %d-byte message gives %d bytes that differ from an "
                                   "independent use of the cipher with padding to its %d-byte block"
                                   % (alg_code, padcode, len(pt), len(ct), bs),
                                   {"kind": "server", "alg": alg_code, "padding": padcode, "pt": pt.hex(), "iv": iv.hex()})
                    back = req([{"op": "decrypt", "bid": None, "uid": alg_uid, "params": True, "cp": cp, "data_hex": ct.hex(),
                                 "iv_hex": iv.hex()}])[0]
                    if back.get("status") != "ok" or bytes.fromhex(back["data"]["c"]) != pt:
                        ctx.report("c06:server-decrypt-not-inverse:alg%d:pad%d" % (alg_code, padcode),
                                   "Decrypt(Encrypt(m)) != m through the server (algorithm %d, padding %d)" % (alg_code, padcode),
                                   {"kind": "server", "alg": alg_code, "padding": padcode})
    finally:
        Eg.close()
    return count


def run(ctx):
    import logging
    logging.disable(logging.CRITICAL)
    nplan, stats = run_plans(ctx)
    nseq = run_iv_sequences(ctx)
    npad = run_padding(ctx, 400 if ctx.tier == "quick" else 20000)
    nref = run_references(ctx, 6 if ctx.tier == "quick" else 300) + run_reference_repeats(ctx)
    nsig = run_gcm_and_sign(ctx, 20 if ctx.tier == "quick" else 500)
    nsrv = run_server(ctx, 2 if ctx.tier == "quick" else 40)
    import engine_check
    prof = {"ops": {"create": 4, "register": 4, "deriveKey": 12, "get": 5, "activate": 3, "encrypt": 2, "decrypt": 2,
                    "mac": 2, "sign": 1, "createKeyPair": 1}, "restart": 0.02}
    hs = engine_check.run_many([ctx.seed * 1000003 + 77000 + i for i in range(60 if ctx.tier == "quick" else 1200)], 25, prof, True, None)
    engine_check.report_monitor_failures(ctx, hs, [mon_c06_hist])
    divs = engine_check.correspondence(ctx, hs)
    nhist = sum(1 for h, _ in hs for j in h if j.get("cmd") == "req")
    if divs and not ctx.violations:
        ctx.report("correspondence:engine-model", "engine model and KmipEngine disagree on crypto-operation histories "
                   "(%d diverging); no monitor failed" % len(divs),
                   {"kind": "correspondence", "broken": "correspondence Drivers/Engine.lean vs KmipEngine (C06 histories)",
                    "lines": divs[0]["history"], "impl": divs[0]["impl"], "model": divs[0]["model"]}, no_input=True)
    ctx.coverage.update({
        "evaluations": nplan + nseq + npad + nref + nsig + nsrv + nhist, "server_operation_checks": nsrv,
        "engine_history_requests": nhist, "engine_history_divergences": len(divs), "distinct_nontrivial": stats["accepted"] + stats["rejected"],
        "rule": RULE, "samples": [{"plan_tuple": "(alg=3 AES, mode=1 CBC, padding=3 PKCS5, iv absent, no aad)",
                                  "model": "ivGenerated, padding applied, iv length 16"}],
        "plan_tuples": nplan, "plan_accepted": stats["accepted"], "plan_rejected": stats["rejected"],
        "decrypt_encrypt_roundtrips": stats["roundtrips"], "padding_cases": npad, "reference_comparisons": nref,
        "gcm_signature_freshness_checks": nsig, "traces_validated_against_impl": nplan + npad})
    # M9b: the rest of the plumbing as plans (DeriveKey, MAC, Sign / SignatureVerify, asymmetric, key wrapping,
    # creation) against the real CryptographyEngine / KmipEngine with recording stand-ins for the primitives
    import crypto_plans_check
    cp = crypto_plans_check.run(ctx, random.Random(ctx.seed * 7919 + 606))
    ctx.coverage["crypto_plans"] = cp
    ctx.coverage["evaluations"] += int(cp.get("plan_grid_points", 0) or 0)
    ctx.coverage["traces_validated_against_impl"] += int(cp.get("plan_grid_points", 0) or 0)


def search(ctx, broken):
    run(ctx)


def replay(ctx, rep):
    if (rep.get("replay") or {}).get("kind") == "crypto-plan":
        import crypto_plans_check
        return crypto_plans_check.replay_case(rep)
    c2 = type(ctx)(ctx.pid, ctx.tier, rep.get("seed", ctx.seed), None)
    run(c2)
    return not c2.violations
