"""C02 — everything emitted is specification-conformant TTLV; responses follow the envelope."""
import json
import os
import random
import sys
import time

sys.path.insert(0, os.path.join(os.path.dirname(os.path.abspath(__file__)), "..", "lib"))
IC = CC = None

LEAN_MODULES = ["KmipModel.Props.C02", "KmipModel.Props.C02Engine", "KmipModel.Props.C02Encode", "KmipModel.Props.ServerBytes", "KmipModel.Props.ServerWF", "KmipModel.Props.ServerRun"]
RULE = ("(a) every primitive class on the C01 boundary pools: bytes written by /repo compared with the Lean M1 encoder "
        "(written from the specification) of the same value; (b) EVERY byte string /repo's write() produced in this run "
        "— all structure instances of the C01 generation (every Struct class x 6 versions x derived instances), the "
        "generated client requests, the responses of a driven KmipEngine, and every byte string a real KmipSession "
        "handed to sendall — fed to the Lean strict parser: must parse, no residue, canonical re-encoding identical, "
        "Text Strings valid UTF-8; (c) envelope predicate Kmip.Envelope.faults (Lean, on the parsed tree, not on "
        "/repo's own decoder) on every session response: version echoed when the request was decoded, time stamp, "
        "batch count = number of items, result status in every item, reason AND message exactly when not Success; "
        "session scenarios: generated requests of all 21 dispatched operations under all versions (successes and "
        "every error class the engine produces), multi-item batches, unsupported versions, malformed / truncated / "
        "garbage requests, missing or unsuitable client certificates, maximum-response-size replacement, chunked "
        "delivery; (d) response ENCODING: every real engine response of generated histories (all 21 operations x 6 "
        "versions x outcomes, batches, rejected requests) written as the session writes it and compared BYTE FOR BYTE "
        "with the Lean model's responseBytes of the same results (M15, Drivers/Encode.lean), the model's range, "
        "validity, envelope and version-gating predicates evaluated on each.  distinct_nontrivial = distinct byte strings parsed + distinct (scenario, operation, status, reason).")
ASSUMPTIONS = [
    "requests refused before or while parsing (certificate failures, undecodable bytes, unsupported protocol "
    "version) cannot be answered under the request's version: for those the version clause is not applied",
    "UTF-8 validity of Text String content is checked by the harness (Python), not by the Lean WF predicate",
]
TRUSTED = ["the envelope predicate Kmip.Envelope.faults is an executable definition (specification by transcription of "
           "KMIP §6/§7), evaluated by the Lean driver on trees produced by the verified strict parser"]


def _libs():
    global IC, CC
    if IC is None:
        import impl_codec
        import codec_check
        IC, CC = impl_codec, codec_check


# ------------------------------------------------------------------------------------------------ primitives

def prim_phase(ctx, rng, cov):
    extra = 40 if ctx.tier == "quick" else 600
    cases = CC.prim_cases(rng, extra)
    lines, keep = [], []
    for c in cases:
        kind, ec, val, tag = c
        r, o = CC.run_prim_impl(c)
        if r["enc"] is None:
            continue
        keep.append((c, r["enc"]))
        lines.append(json.dumps({"op": "enc", "ty": IC.PRIM[kind], "tag": tag.value, "v": IC.prim_json_value(kind, val)}))
    outs = ctx.run_model("Codec", lines)
    n_same = 0
    for (c, b), line, out in zip(keep, lines, outs):
        kind, ec, val, tag = c
        if out.startswith("bad-"):
            raise RuntimeError("driver: %s on %s" % (out, line))
        m = json.loads(out)
        if m["spec"] is None:
            ctx.report("c02:emitted-value-outside-spec:%s" % kind,
                       "%s(%r) is written by /repo but the specification has no encoding for it" % (kind, val),
                       {"kind": "prim", "class": kind, "value": IC.prim_json_value(kind, val), "tag": tag.value,
                        "enum": ec.__name__ if ec else None})
            continue
        if m["spec"] == b.hex():
            n_same += 1
            continue
        if kind == "BigInteger" and len(b) == len(bytes.fromhex(m["spec"])) + 8 and val < 0 \
                and b[8:16] == b"\xff" * 8 and b[16:] == bytes.fromhex(m["spec"])[8:]:
            ctx.report("c02:biginteger-redundant-sign-bytes",
                       "BigInteger(%d) is written with 8 redundant sign bytes: %s, specification: %s"
                       % (val, b.hex(), m["spec"]),
                       {"kind": "prim", "class": kind, "value": str(val), "tag": tag.value, "enum": None})
        else:
            ctx.report("c02:primitive-differs-from-spec:%s" % kind,
                       "%s(%r): /repo writes %s, the specification encoder %s" % (kind, val, b.hex(), m["spec"]),
                       {"kind": "prim", "class": kind, "value": IC.prim_json_value(kind, val), "tag": tag.value,
                        "enum": ec.__name__ if ec else None})
    cov["prim_compared_with_spec_encoder"] = len(keep)
    cov["prim_identical"] = n_same
    return [b for (c, b) in keep]


# ------------------------------------------------------------------------------------------------ session

def version_of_request(req_json):
    v = req_json["version"]
    return [v // 10, v % 10]


class _Shorter(object):
    """the context of the shorter, debug-logging pass (same seed and tier)"""

    def __init__(self, c):
        self.c = c

    def __getattr__(self, k):
        return getattr(self.c, k)


def session_scenarios(ctx, rng, cov, debug=False):
    """[(scenario, request description, reqver | None, response bytes)] from a real KmipSession.
    `debug`: the same with the server's loggers at DEBUG (a configured logging_level the server offers): what a log
    statement does to the bytes on their way out is part of what the server emits (a shorter run)"""
    import logging
    if debug:
        logging.disable(logging.NOTSET)
        klog = logging.getLogger("kmip")
        saved_level, null = klog.level, logging.NullHandler()
        klog.setLevel(logging.DEBUG)
        klog.addHandler(null)
        try:
            sub = {}
            res = session_scenarios(_Shorter(ctx), rng, sub, debug=None)
            cov["session_counts_debug_logging"] = sub.get("session_counts")
            return [("debug-logging:" + r[0],) + tuple(r[1:]) for r in res]
        finally:
            klog.setLevel(saved_level)
            klog.removeHandler(null)
            logging.disable(logging.CRITICAL)
    import gen_engine
    import impl_engine
    rig = IC.SessionRig()
    res = []
    counts = {}

    def note(k):
        counts[k] = counts.get(k, 0) + 1

    try:
        alice = IC.make_cert(("alice",), "client")
        n_req = (220 if ctx.tier == "quick" else 3000) // (5 if debug is None else 1)
        g = gen_engine.Gen(ctx.seed * 131 + 9)
        reqs = []
        for i in range(n_req):
            rq = g.request()
            ident = g.ident(rq)
            try:
                msg = impl_engine.build_request(rq)
                v = rq["version"]
                supported = v in (10, 11, 12, 13, 14, 20)
                b = IC.enc(msg, IC.vof("%d.%d" % (v // 10, v % 10)) if supported else IC.enums.KMIPVersion.KMIP_1_2)
            except Exception:
                note("request_build_failed")
                continue
            reqs.append((rq, b))
            # 1. well-formed requests, one connection each (the client is the certificate's CN), chunked delivery
            user = ident.get("user") or "alice"
            outs = rig.run(b, IC.make_cert((user,), "client"), chunk=rng.choice([None, None, None, 1, 7, 64]))
            if len(outs) != 1:
                note("response_count_%d" % len(outs))
                continue
            decodable = supported
            if supported:
                try:
                    IC.messages.RequestMessage().read(IC.utils.BytearrayStream(b))
                except Exception:
                    decodable = False
                    note("generated_request_not_decodable")
            res.append(("generated" if supported else "unsupported-version",
                        ",".join(it["op"] for it in rq["items"])[:60],
                        version_of_request(rq) if decodable else None, outs[0], b))
            if supported:
                try:
                    m = IC.messages.ResponseMessage()
                    m.read(IC.utils.BytearrayStream(outs[0]))
                    g.observe({"cmd": "req", "now": 0, "id": ident, "req": rq}, IC.observation_of(m))
                except Exception:
                    note("observe_failed")
        # several requests over one connection
        for k in range(0, min(len(reqs), 60), 6):
            group = reqs[k:k + 6]
            outs = rig.run(b"".join(b for _, b in group), alice)
            if len(outs) != len(group):
                note("pipelined_response_count_mismatch")
                continue
            for (rq, b), o in zip(group, outs):
                supported = rq["version"] in (10, 11, 12, 13, 14, 20)
                if supported:
                    try:
                        IC.messages.RequestMessage().read(IC.utils.BytearrayStream(b))
                    except Exception:
                        supported = False
                res.append(("pipelined", ",".join(it["op"] for it in rq["items"])[:60],
                            version_of_request(rq) if supported else None, o, b))
        def _dec_ok(b):
            try:
                IC.messages.RequestMessage().read(IC.utils.BytearrayStream(b))
                return True
            except Exception:
                return False
        good = [x for x in reqs if x[0]["version"] in (10, 11, 12, 13, 14, 20) and x[0]["items"] and _dec_ok(x[1])]
        # 2. oversize replacement
        for (rq, b) in good[:30 if ctx.tier == "quick" else 300]:
            rq2 = json.loads(json.dumps(rq))
            rq2["maxsize"] = rng.choice([0, 8, 16, 64, 100, 200])
            try:
                b2 = IC.enc(impl_engine.build_request(rq2), IC.vof("%d.%d" % (rq2["version"] // 10, rq2["version"] % 10)))
            except Exception:
                continue
            for o in rig.run(b2, alice):
                res.append(("oversize", ",".join(it["op"] for it in rq2["items"])[:60], version_of_request(rq2), o, b2))
        # 3. malformed requests: one per connection, followed by a good one
        follow = good[0][1] if good else b""
        nbad = (60 if ctx.tier == "quick" else 1500) // (5 if debug is None else 1)
        for (rq, b) in (good * (nbad // max(1, len(good)) + 1))[:nbad]:
            kind = rng.choice(["flip", "flip", "trunc-inner", "garbage", "tag", "type", "length-inner", "empty-struct"])
            mb = bytearray(b)
            if kind == "flip":
                pos = rng.randrange(8, len(mb))
                mb[pos] ^= 1 << rng.randrange(8)
            elif kind == "trunc-inner":
                # keep the outer length honest, cut the content
                cut = rng.randrange(8, len(mb)) // 8 * 8
                mb = mb[:cut]
                mb[4:8] = (len(mb) - 8).to_bytes(4, "big")
            elif kind == "garbage":
                n = rng.randrange(8, 64) // 8 * 8
                mb = bytearray(b[:8]) + bytearray(rng.randrange(256) for _ in range(n))
                mb[4:8] = n.to_bytes(4, "big")
            elif kind == "tag":
                pos = rng.choice([8, 9, 10]) if len(mb) > 16 else 0
                mb[pos] = rng.randrange(256)
            elif kind == "type":
                mb[11 if len(mb) > 16 else 3] = rng.randrange(256)
            elif kind == "length-inner":
                if len(mb) > 16:
                    mb[12:16] = rng.randrange(0, 2 ** 16).to_bytes(4, "big")
            elif kind == "empty-struct":
                mb = bytearray(b[:8])
                mb[4:8] = (0).to_bytes(4, "big")
            outs = rig.run(bytes(mb) + follow, alice)
            decoded = None
            try:
                m = IC.messages.RequestMessage()
                m.read(IC.utils.BytearrayStream(bytes(mb)))
                pv = m.request_header.protocol_version
                decoded = [pv.major, pv.minor] if (pv.major * 10 + pv.minor) in (10, 11, 12, 13, 14, 20) else None
                if len(m.batch_items) == 0:
                    decoded = decoded
            except Exception:
                decoded = None
            for j, o in enumerate(outs[:1]):
                res.append(("malformed:" + kind, "", decoded, o, bytes(mb)))
            for o in outs[1:2]:
                res.append(("after-malformed", "", version_of_request(good[0][0]), o, follow))
        # 5. answers the engine builds and the encoder may refuse (e.g. an attribute listing that comes out empty under a
        # version whose payload insists on content): batches of reads naming attributes the object does not have,
        # alone and in company, every version, both batch options - whatever the session sends instead follows the envelope
        absent = ["Lease Time", "Contact Information", "Digest", "Link", "Process Start Date", "x-custom", "Archive Date"]
        first = None
        for v in (10, 11, 12, 13, 14, 20):
            mk = {"version": v, "ts": None, "async": None, "bopt": None, "maxsize": None,
                  "items": [{"op": "create", "bid": None, "crypto": None, "otype": 2,
                             "tmpl": {"tnames": 0, "attrs": [
                                 {"name": "Cryptographic Algorithm", "index": None, "value": {"k": "enum", "v": 3}},
                                 {"name": "Cryptographic Length", "index": None, "value": {"k": "int", "v": 128}},
                                 {"name": "Cryptographic Usage Mask", "index": None, "value": {"k": "int", "v": 12}}]}}]}
            try:
                o = rig.run(IC.enc(impl_engine.build_request(mk), IC.vof("%d.%d" % (v // 10, v % 10))), alice)
                m = IC.messages.ResponseMessage()
                m.read(IC.utils.BytearrayStream(o[0]), kmip_version=IC.vof("%d.%d" % (v // 10, v % 10)))
                uid = m.batch_items[0].response_payload.unique_identifier
                uid = getattr(uid, "value", uid)
            except Exception:
                note("unencodable_setup_failed")
                continue
            ga = lambda names, bid=None: {"op": "getAttributes", "bid": bid, "crypto": None, "uid": uid, "names": names}
            other = [{"op": "get", "bid": "g", "crypto": None, "uid": uid, "wrap": None, "format": None, "compression": False},
                     {"op": "getAttributeList", "bid": "l", "crypto": None, "uid": uid},
                     {"op": "activate", "bid": "a", "crypto": None, "uid": "no-such"}]
            batches = [[ga([rng.choice(absent)])], [ga(rng.sample(absent, 2))], [ga([absent[0]], "x"), ga([absent[1]], "y")],
                       [other[0], ga([rng.choice(absent)], "x")], [ga([rng.choice(absent)], "x"), other[1]],
                       [other[1], ga([rng.choice(absent)], "x"), other[0]], [other[2], ga([rng.choice(absent)], "x")],
                       [ga([rng.choice(absent)], "x"), other[2], other[0]]]
            for items in batches:
                for bopt in (None, 1, 2) if len(items) > 1 else (None,):
                    rq = {"version": v, "ts": None, "async": None, "bopt": bopt, "maxsize": None, "items": items}
                    try:
                        b = IC.enc(impl_engine.build_request(rq), IC.vof("%d.%d" % (v // 10, v % 10)))
                    except Exception:
                        note("unencodable_request_build_failed")
                        continue
                    outs = rig.run(b, alice)
                    if len(outs) != 1:
                        note("unencodable_response_count_%d" % len(outs))
                        continue
                    note("reads_of_absent_attributes")
                    res.append(("reads-of-absent-attributes", ",".join(it["op"] for it in items)[:60], version_of_request(rq), outs[0], b))
        # 4. authentication failures
        certs = [("no-cert", None), ("eku-absent", IC.make_cert(("alice",), None)),
                 ("eku-server", IC.make_cert(("alice",), "server")), ("two-cns", IC.make_cert(("a", "b"), "client")),
                 ("zero-cns", IC.make_cert((), "client"))]
        for name, der in certs:
            for (rq, b) in good[:6]:
                try:
                    outs = rig.run(b, der)
                except Exception as e:
                    note("auth_scenario_raised:" + name)
                    continue
                for o in outs:
                    res.append(("auth:" + name, "", None, o, b))
        for (rq, b) in good[:6]:
            for o in rig.run(b, alice, auth=[("auth:other", {"enabled": "True"})]):
                res.append(("auth:unsupported-plugin", "", None, o, b))
    finally:
        rig.close()
    cov["session_counts"] = counts
    return res


def utf8_faults(tree, out):
    if "s" in tree:
        for k in tree["s"]:
            utf8_faults(k, out)
    elif tree.get("k") == "text":
        try:
            bytes.fromhex(tree["v"]).decode("utf-8")
        except UnicodeDecodeError:
            out.append(tree["t"])
    return out


def walk_items(tree):
    """(operation, status, reason) of the batch items of a parsed response"""
    res = []
    for k in tree.get("s", [])[1:]:
        d = {}
        for f in k.get("s", []):
            if f["t"] == 0x42005C:
                d["op"] = f.get("v")
            elif f["t"] == 0x42007F:
                d["st"] = f.get("v")
            elif f["t"] == 0x42007E:
                d["rs"] = f.get("v")
        res.append((d.get("op"), d.get("st"), d.get("rs")))
    return res


def run_corpus(ctx):
    """minimised past failures first (corpus/C02/*.json): each must hold now; a failure is reported under the
    signature it was found with"""
    import contextlib
    import glob
    import io
    n = 0
    d = os.path.join(os.path.dirname(os.path.abspath(__file__)), "..", "..", "corpus", "C02")
    for f in sorted(glob.glob(os.path.join(d, "*.json"))):
        rep = json.load(open(f))
        buf = io.StringIO()
        with contextlib.redirect_stdout(buf):
            ok = replay(ctx, rep)
        n += 1
        if not ok:
            ctx.report(rep["signature"], "corpus input %s fails again: %s" % (os.path.basename(f), buf.getvalue()[:300]),
                       rep["replay"])
    ctx.coverage["corpus_inputs"] = n


def run(ctx):
    _libs()
    IC.quiet()
    run_corpus(ctx)
    rng = random.Random(ctx.seed * 104729 + 3)
    cov = {}
    t0 = time.time()
    prim_bytes = prim_phase(ctx, rng, cov)
    # all structure encodings of the C01 generation (same seed => same instances)
    srun = CC.StructRun(ctx.seed, ctx.tier, budget_s=45 if ctx.tier == "quick" else 600).run()
    cov["struct_classes_encoded"] = len([k for k, v in srun.per_class.items() if v.get("stats", {}).get("encoded")])
    cov["struct_classes_uncovered"] = [k.replace("kmip.core.", "") for k in sorted(srun.lib.classes)
                                       if not srun.per_class.get(k, {}).get("stats", {}).get("encoded")]
    cov["struct_encodings"] = len(srun.emitted)
    t1 = time.time()
    sess = session_scenarios(ctx, rng, cov)
    sess += session_scenarios(ctx, random.Random(ctx.seed * 31 + 77), cov, debug=True)
    cov["session_responses"] = len(sess)
    cov["session_wall_s"] = round(time.time() - t1, 1)
    sc = {}
    for s in sess:
        sc[s[0].split(":")[0]] = sc.get(s[0].split(":")[0], 0) + 1
    cov["session_by_scenario"] = sc
    # -- everything emitted goes through the strict parser -------------------------------------------------
    emitted = {}
    for b in prim_bytes:
        emitted.setdefault(b, ("primitive", None))
    for (cls, vn, b) in srun.emitted:
        emitted.setdefault(b, ("struct:%s@%s" % (cls, vn), None))
    for (scn, desc, reqver, o, reqb) in sess:
        if scn in ("generated", "oversize", "unsupported-version"):
            emitted.setdefault(reqb, ("session-request", None))
    ct = client_transport_frames(ctx.tier)
    for what, b in ct:
        emitted.setdefault(b, (what, None))
    cov["client_transport_requests"] = len(ct)
    cov["client_transport_sizes_multiple_of_1024"] = sum(1 for _, b in ct if len(b) % 1024 == 0)
    order = list(emitted.items())
    lines = [json.dumps({"op": "parse", "hex": b.hex()}) for b, _ in order]
    # session responses: always parsed with the envelope predicate (also when the same bytes occur twice)
    for (scn, desc, reqver, o, reqb) in sess:
        lines.append(json.dumps({"op": "parse", "hex": o.hex(), "env": True, "reqver": reqver}))
    outs = ctx.run_model("Codec", lines)
    n_ok = 0
    distinct = set()
    for (b, (what, _)), out in zip(order, outs[:len(order)]):
        if out.startswith("bad-"):
            raise RuntimeError("driver: %s" % out)
        m = json.loads(out)
        check_parsed(ctx, m, b, what)
        n_ok += 1 if m.get("ok") else 0
        distinct.add(b)
    env_ok = 0
    obs = set()
    not_composed = []
    for (scn, desc, reqver, o, reqb), out in zip(sess, outs[len(order):]):
        if out.startswith("bad-"):
            raise RuntimeError("driver: %s" % out)
        m = json.loads(out)
        check_parsed(ctx, m, o, "session-response:" + scn)
        distinct.add(o)
        if not m.get("ok"):
            continue
        faults = m.get("faults", [])
        for it in walk_items(m["tree"]):
            obs.add((scn.split(":")[0],) + it)
        if m.get("composed") is False:
            not_composed.append({"scenario": scn, "response_hex": o.hex()})
        if faults:
            for f in faults:
                ctx.report("c02:envelope:%s" % f,
                           "scenario %s (%s): response violates the envelope: %s; response %s"
                           % (scn, desc, f, o.hex()[:400]),
                           {"kind": "session", "scenario": scn, "request_hex": reqb.hex(), "reqver": reqver,
                            "response_hex": o.hex()})
        else:
            env_ok += 1
    cov["responses_recomposed_by_model"] = len(sess) - len(not_composed)
    # success items without a payload (Activate etc. always carry one) or other shapes the transcription of the
    # response composition does not produce: a correspondence matter, no failing input by itself
    if not_composed and not any(v["signature"].startswith("c02:envelope") for v in ctx.violations):
        ctx.report("correspondence:response-composition",
                   "%d responses are not what Kmip.Envelope.buildResponse composes from their own contents, e.g. %s"
                   % (len(not_composed), json.dumps(not_composed[0])[:300]),
                   {"broken": "correspondence Kmip.Envelope.buildResponse vs engine._process_batch/_build_response",
                    "cases": not_composed[:5]}, no_input=True)
    cov["parsed"] = len(order) + len(sess)
    cov["parsed_ok"] = n_ok
    cov["envelopes_checked"] = len(sess)
    cov["envelopes_ok"] = env_ok
    cov["response_classes_seen"] = sorted("%s/op=%s/status=%s/reason=%s" % x for x in obs)[:200]
    # -- M15: the response ENCODER model: bytes of every real engine response == Lean responseBytes of the same results
    import encode_check
    t2 = time.time()
    enc = encode_check.run(ctx, random.Random("encode-%s" % ctx.seed))
    cov["encode"] = enc
    cov["encode_wall_s"] = round(time.time() - t2, 1)
    ctx.coverage.update(cov)
    ctx.coverage["evaluations"] = len(lines) + cov["prim_compared_with_spec_encoder"] + (enc.get("responses_compared") or enc.get("compared") or 0)
    ctx.coverage["distinct_nontrivial"] = len(distinct) + len(obs)
    ctx.coverage["rule"] = RULE
    ctx.coverage["samples"] = [{"scenario": s[0], "ops": s[1], "reqver": s[2], "response": s[3].hex()[:200]}
                               for s in sess[:3]] + [{"what": w, "hex": b.hex()[:120]} for b, (w, _) in order[:3]]
    ctx.coverage["traces_validated_against_impl"] = len(lines)
    # M17: every response of whole connections (any frames, any chunking) against the bytes of the composed model
    import e2e_hook
    e2e_hook.run(ctx, ["c02"])
    ctx.coverage["wall_total_s"] = round(time.time() - t0, 1)


def client_transport_frames(tier):
    """What the CLIENT puts on the wire, through its real transport (`KMIPProtocol.write` on a recording socket): Register
    requests of opaque objects whose encoded size runs through every multiple of 8 from under 1 KiB to over 4 KiB (so
    through every multiple of the transport's 1024-byte buffer, and its neighbours), under three versions.
    -> [(what, all bytes handed to send/sendall for ONE operation)]"""
    from kmip.pie.client import ProxyKmipClient
    from kmip.pie import objects as po
    from kmip.core import enums
    from kmip.services.kmip_protocol import KMIPProtocol
    import impl_client as ICL

    class RecSock(object):
        def __init__(self):
            self.sent = b""
            self.reply = []

        def _take(self, data):
            self.sent += bytes(data)
            if not self.reply and len(self.sent) >= 8 and len(self.sent) >= 8 + int.from_bytes(self.sent[4:8], "big"):
                self.reply = [self.answer]

        def sendall(self, data):
            self._take(data)

        def send(self, data):
            self._take(data)
            return len(data)

        def recv(self, n):
            if not self.reply:
                return b""
            c = self.reply[0]
            if len(c) <= n:
                self.reply.pop(0)
                return c
            self.reply[0] = c[n:]
            return c[:n]
    out = []
    step = 8 if tier != "quick" else 8
    for version in (12, 14, 20):
        for n in range(840, 4300, step):
            c = ProxyKmipClient(kmip_version=ICL.VERSIONS[version])
            c._is_open = True
            sock = RecSock()
            sock.answer = ICL.encode_response(version, [ICL.build_response_item("register", {
                "echo": "same", "status": 0, "reason": None, "message": None, "payload": {"uid": "7"}}, version)])
            c.proxy.protocol = KMIPProtocol(sock)
            try:
                c.register(po.OpaqueObject(b"\x5a" * n, enums.OpaqueDataType.NONE))
            except Exception:
                pass
            out.append(("client-transport:register@%d:%d" % (version, len(sock.sent)), sock.sent))
    return out


def check_parsed(ctx, m, b, what):
    if not m.get("ok"):
        ctx.report("c02:not-wellformed:%s" % what.split("@")[0].split(":")[0 if not what.startswith("struct:") else 1],
                   "%s: the strict TTLV parser rejects %s" % (what, b.hex()[:600]),
                   {"kind": "bytes", "what": what, "hex": b.hex()})
        return
    if m["residue"]:
        ctx.report("c02:residue:%s" % what.split("@")[0], "%s: %d bytes after the item: %s" % (what, m["residue"], b.hex()[:400]),
                   {"kind": "bytes", "what": what, "hex": b.hex()})
    if not m["canonical"] or m["reencode"] != b.hex():
        if not m["canonical"]:
            ctx.report("c02:biginteger-redundant-sign-bytes",
                       "%s contains a Big Integer with a redundant group of sign bytes: %s" % (what, b.hex()[:300]),
                       {"kind": "bytes", "what": what, "hex": b.hex()})
        else:
            ctx.report("c02:reencode-differs:%s" % what.split("@")[0], "%s: canonical re-encoding differs" % what,
                       {"kind": "bytes", "what": what, "hex": b.hex()})
    bad = utf8_faults(m["tree"], [])
    if bad:
        ctx.report("c02:text-not-utf8", "%s: Text String (tag %x) is not valid UTF-8" % (what, bad[0]),
                   {"kind": "bytes", "what": what, "hex": b.hex()})


def search(ctx, broken):
    _libs()
    IC.quiet()
    # without the Lean side only the implementation-side pieces can run: C01's monitors find codec faults;
    # here: drive the session and apply a Python transcription of the envelope clauses
    rng = random.Random(ctx.seed * 104729 + 5)
    cov = {}
    sess = session_scenarios(ctx, rng, cov)
    sess += session_scenarios(ctx, random.Random(ctx.seed * 31 + 77), cov, debug=True)
    for (scn, desc, reqver, o, reqb) in sess:
        for f in py_envelope_faults(o, reqver):
            ctx.report("c02:envelope:%s" % f, "scenario %s: %s" % (scn, f),
                       {"kind": "session", "scenario": scn, "request_hex": reqb.hex(), "reqver": reqver,
                        "response_hex": o.hex()})
    ctx.coverage["evaluations"] = len(sess)


def py_tree(b, off=0, end=None):
    end = len(b) if end is None else end
    items = []
    while off + 8 <= end:
        tag = int.from_bytes(b[off:off + 3], "big")
        ty = b[off + 3]
        ln = int.from_bytes(b[off + 4:off + 8], "big")
        if ty == 1:
            items.append((tag, ty, py_tree(b, off + 8, off + 8 + ln)))
        else:
            items.append((tag, ty, b[off + 8:off + 8 + ln]))
        off += 8 + ln + ((8 - ln % 8) % 8)
    return items


def py_envelope_faults(b, reqver):
    """fallback (search / replay without Lean): the same clauses as Kmip.Envelope.faults"""
    t = py_tree(b)
    if len(t) != 1 or t[0][0] != 0x42007B or t[0][1] != 1 or not t[0][2]:
        return ["message-shape"]
    kids = t[0][2]
    hdr = kids[0]
    if hdr[0] != 0x42007A or hdr[1] != 1:
        return ["header-tag"]
    f = []
    hk = {k[0]: k for k in hdr[2]}
    pv = hk.get(0x420069)
    if not pv or pv[1] != 1:
        f.append("version-missing")
    else:
        d = {k[0]: int.from_bytes(k[2], "big", signed=True) for k in pv[2]}
        if 0x42006A not in d or 0x42006B not in d:
            f.append("version-missing")
        elif reqver and [d[0x42006A], d[0x42006B]] != list(reqver):
            f.append("version-not-echoed")
    if 0x420092 not in hk or hk[0x420092][1] != 9:
        f.append("timestamp-missing")
    if 0x42000D not in hk:
        f.append("batch-count-missing")
    elif int.from_bytes(hk[0x42000D][2], "big", signed=True) != len(kids) - 1:
        f.append("batch-count-mismatch")
    for it in kids[1:]:
        if it[0] != 0x42000F or it[1] != 1:
            f.append("item-tag")
            continue
        ik = {}
        for k in it[2]:
            ik.setdefault(k[0], k)
        if 0x42007F not in ik:
            f.append("status-missing")
            continue
        st = int.from_bytes(ik[0x42007F][2], "big")
        if st == 0:
            f += ["reason-on-success"] if 0x42007E in ik else []
            f += ["message-on-success"] if 0x42007D in ik else []
        else:
            f += [] if 0x42007E in ik else ["reason-missing"]
            f += [] if 0x42007D in ik else ["message-missing"]
    return f


def replay(ctx, rep):
    _libs()
    IC.quiet()
    r = rep["replay"]
    if r.get("kind") == "server-e2e":
        import e2e_hook
        return e2e_hook.replay(ctx, rep)
    if r.get("kind") == "prim":
        import props.c01 as c01
        c01._libs()
        c = c01._prim_from_replay(r)
        res, o = CC.run_prim_impl(c)
        if res["enc"] is None:
            return True
        out = ctx.run_model("Codec", [json.dumps({"op": "enc", "ty": IC.PRIM[c[0]], "tag": c[3].value,
                                                  "v": IC.prim_json_value(c[0], c[2])})])[0]
        m = json.loads(out)
        print("/repo: %s\nspec : %s" % (res["enc"].hex(), m["spec"]))
        return m["spec"] == res["enc"].hex()
    if r.get("kind") == "encode":
        import encode_check
        return encode_check.replay_case(ctx, rep)
    if r.get("kind") == "bytes":
        # the bytes were produced by /repo in the recorded run; re-judge them with the strict parser
        out = ctx.run_model("Codec", [json.dumps({"op": "parse", "hex": r["hex"]})])[0]
        m = json.loads(out)
        ok = m.get("ok") and m["residue"] == 0 and m["canonical"] and m["reencode"] == r["hex"]
        print("strict parser: %s" % {k: m.get(k) for k in ("ok", "residue", "canonical")})
        return bool(ok)
    if r.get("kind") == "session":
        rig = IC.SessionRig()
        try:
            scn = r["scenario"]
            der = IC.make_cert(("alice",), "client")
            if scn.startswith("auth:"):
                der = {"auth:no-cert": None, "auth:eku-absent": IC.make_cert(("alice",), None),
                       "auth:eku-server": IC.make_cert(("alice",), "server"),
                       "auth:two-cns": IC.make_cert(("a", "b"), "client"),
                       "auth:zero-cns": IC.make_cert((), "client")}.get(scn, der)
            outs = rig.run(bytes.fromhex(r["request_hex"]), der)
        finally:
            rig.close()
        bad = False
        for o in outs[:1]:
            fs = py_envelope_faults(o, r.get("reqver"))
            print("response %s\nfaults: %s" % (o.hex()[:300], fs))
            bad = bad or bool(fs)
        return not bad
    return True
