"""C12 — the session answers any bytes safely, once, and keeps going."""
import collections
import glob
import hashlib
import json
import os
import random
import signal
import sys
import time

sys.path.insert(0, os.path.join(os.path.dirname(os.path.abspath(__file__)), "..", "lib"))
import gen_session as G  # noqa: E402
import impl_session as S  # noqa: E402

LEAN_MODULES = ["KmipModel.Props.C12", "KmipModel.Props.C12Decode", "KmipModel.Props.Server", "KmipModel.Props.ServerBytes", "KmipModel.Props.ServerWF", "KmipModel.Props.ServerRun"]
RULE = ("byte streams = sequences of frames drawn from: valid requests for the 21 dispatched operations x KMIP "
        "1.0-2.0 (built with kmip.core.messages and encoded with .write, incl. frames larger than two receive "
        "buffers, and - implementation monitor only - valid requests of 1-2 MiB followed by an ordinary request), 13 grammar-aware mutation classes of them (truncate, inflate/deflate a length field, flip a type "
        "byte, swap a tag, deep nesting, huge counts / text lengths, unsupported versions with and without batch "
        "items, bit flips, trailing bytes), raw random bytes behind a consistent header; shapes bad*-then-good, "
        "mixed, good-only; every stream is served on a real KmipSession three times from the same database snapshot: "
        "under two different chunkings (1-byte, header-split, random, > 4096) and with the undecodable frames "
        "removed; maximum-response-size sweeps around the actual encoded size (size-1, size, size+1, 0, 1, -1, "
        "2^31-1); plus _receive_bytes/_receive_request alone on event lists containing None and early-close events. "
        "non-trivial = a frame that is not a plain valid request, or a valid request served after an undecodable "
        "one, or a request with a maximum response size; distinct = distinct (frame bytes, position class)")
ASSUMPTIONS = [
    "the Lean theorems are about the session for EVERY decoder verdict / engine behaviour / encoder satisfying "
    "EncoderOk; the decoder verdict used in the comparison is the real RequestMessage.read run separately on the frame",
    "EncoderOk (error responses encodable and < 1 MiB) is the only hypothesis of one_response_per_frame / "
    "loop_continues / oversize_replaced; it is checked on every response the real session produced in this run",
    "blocking on a stream that ends inside a frame is not modelled: the fake connection reports the peer closed",
]
TRUSTED = ["fake TLS connection object (recv/sendall/getpeercert/...) standing for the ssl socket",
           "generic TTLV well-formedness walker in harness/lib/impl_session.py (written from KMIP 9.1)"]

MAX_PARSE_S = 5.0       # per frame when the engine is not entered
MAX_FRAME_S = 30.0      # per frame otherwise (RSA key generation included)
RUN_TIMEOUT_S = 120


class Timeout(Exception):
    pass


def _alarm(signum, frame):
    raise Timeout()


def mask_ts(raw):
    """blank the response header time stamp (its position is fixed: first 80 bytes)"""
    i = raw.find(b"\x42\x00\x92\x09\x00\x00\x00\x08", 0, 96)
    if i < 0:
        return raw
    return raw[:i + 8] + b"\0" * 8 + raw[i + 16:]


def setup_base(rig):
    """the deterministic base store every case starts from: objects 1..3 AES keys, 4 opaque object, owner alice"""
    from kmip.core import utils
    items = [{"op": "create", "bid": None, "crypto": None, "otype": 2, "tmpl": G.aes_template(256, "k%d" % i)}
             for i in range(3)]
    items.append({"op": "register", "bid": None, "crypto": None, "otype": 8, "tmpl": {"tnames": 0, "attrs": []},
                  "obj": {"otype": 8, "value": "0102030405060708", "alg": None, "len": None, "format": None,
                          "subtype": 0x80000000}})
    frames = [G.encode_request(G.mkreq(14, [it])) for it in items]
    res = rig.run_session([b"".join(frames)], S.make_cert(), digests=False)
    ok = [S.decode_response(x, rig.default_version)["items"][0]["status"] for x in res["out"]]
    if ok != ["SUCCESS"] * 4:
        raise RuntimeError("base store setup failed: %s" % ok)
    return rig.snapshot()


# ------------------------------------------------------------------ one case
def serve(rig, snap, events, case):
    rig.restore(snap)
    signal.signal(signal.SIGALRM, _alarm)
    signal.setitimer(signal.ITIMER_REAL, RUN_TIMEOUT_S)
    try:
        return rig.run_session(events, S.cert_der(case.get("cert", {"cns": 1, "eku": "client"})),
                               tls=case.get("tls", True))
    finally:
        signal.setitimer(signal.ITIMER_REAL, 0)


def observe(rig, res):
    """per framed request: what the property talks about"""
    out = []
    dv = rig.default_version
    for it in res["iterations"]:
        if it["frame"] is None:
            out.append({"k": "recv", "exc": it["recv_exc"]})
            continue
        o = {"k": "handled", "frame": it["frame"], "escaped": it["escaped"], "escaped_msg": it["escaped_msg"],
             "n_sent": len(it["sent"]), "dt": it["dt"], "unchanged": it["before"] == it["after"],
             "calls": it["calls"], "raw": it["sent"][0] if it["sent"] else None, "obs": None, "decode_error": None}
        if it["sent"]:
            try:
                o["obs"] = S.decode_response(it["sent"][0], dv)
            except Exception as e:
                o["decode_error"] = "%s: %s" % (type(e).__name__, str(e)[:200])
        out.append(o)
    return out


def monitor_run(rig, res, obs, verdicts, cert_ok, cut_frames=()):
    """The property on the implementation's behaviour alone.  -> [(signature, what)]"""
    fails = []
    if res["run_escaped"]:
        fails.append(("c12:exception-left-run", "run() raised %s" % res["run_escaped"]))
    if not res["closed"]:
        fails.append(("c12:connection-not-closed", "run() returned without closing the connection"))
    last = res["iterations"][-1] if res["iterations"] else None
    if res["leftover"] and (last is None or last["escaped"] != "ConnectionClosed"):
        fails.append(("c12:loop-stopped-before-connection-end",
                      "run() returned although the peer had not closed (last iteration ended with %s)"
                      % (None if last is None else last["escaped"])))
    for i, o in enumerate(obs):
        if o["k"] != "handled":
            continue
        fr = o["frame"]
        v = verdicts[fr]
        entered = len(o["calls"]) > 0
        if o["escaped"] is not None:
            fails.append(("c12:exception-left-message-loop:%s" % o["escaped"],
                          "frame %d (%d responses sent): %s left _handle_message_loop: %s"
                          % (i, o["n_sent"], o["escaped"], o["escaped_msg"])))
            continue
        if o["n_sent"] != 1:
            fails.append(("c12:responses-per-frame:%d" % o["n_sent"], "frame %d got %d responses" % (i, o["n_sent"])))
            continue
        if o["decode_error"]:
            fails.append(("c12:response-not-decodable", "frame %d: response cannot be decoded: %s" % (i, o["decode_error"])))
            continue
        ob = o["obs"]
        if v is not None and fr in cut_frames and cut_frames[fr] == "mut:itemcut":
            fails.append(("c12:incomplete-batch-decoded",
                          "frame %d does not hold the batch items its Batch Count announces (count too large, frame ends "
                          "at an item boundary, or an item's tag is not Request Batch Item), yet the decoder accepted "
                          "it%s%s" % (i, " and the engine was called" if entered else "",
                                      "" if o["unchanged"] else " and the store changed")))
        elif v is not None and fr in cut_frames:
            fails.append(("c12:truncated-primitive-decoded",
                          "frame %d was cut inside the value of a primitive (all enclosing lengths consistent), yet "
                          "the decoder accepted it%s" % (i, " and the engine was called" if entered else "")))
        if v is None:
            if entered:
                fails.append(("c12:undecodable-frame-reached-engine", "frame %d cannot be decoded but the engine was called" % i))
            if not o["unchanged"]:
                fails.append(("c12:undecodable-frame-changed-store", "frame %d cannot be decoded but the store changed" % i))
            want = "INVALID_MESSAGE" if cert_ok else "AUTHENTICATION_NOT_SUCCESSFUL"
            if not S.is_error(ob, want):
                fails.append(("c12:undecodable-frame-not-%s" % want.lower(),
                              "frame %d cannot be decoded, answer was %s" % (i, ob["items"])))
        if len(o["calls"]) > 1:
            fails.append(("c12:engine-called-twice", "frame %d: %d engine calls" % (i, len(o["calls"]))))
        limit = MAX_FRAME_S if entered else MAX_PARSE_S
        if o["dt"] > limit:
            fails.append(("c12:frame-time-bound", "frame %d took %.1f s (engine entered: %s)" % (i, o["dt"], entered)))
        # maximum response size
        if entered and o["calls"][0]["out"]["k"] == "ok":
            c = o["calls"][0]
            m, L = c["out"]["max"], c["len"]
            if L is None and c.get("write_raised"):
                # the response could not be encoded: the client must be told General Failure (or Response Too
                # Large when it asked for a maximum)
                if not (S.is_error(ob, "GENERAL_FAILURE") or (m is not None and S.is_error(ob, "RESPONSE_TOO_LARGE"))):
                    fails.append(("c12:unencodable-response-answer", "frame %d: answer to an unencodable response was %s"
                                  % (i, ob["items"])))
            elif L is None:
                fails.append(("c12:engine-response-not-written", "frame %d: the engine's response was never encoded" % i))
            elif m is not None:
                too_large = S.is_error(ob, "RESPONSE_TOO_LARGE")
                if L > m and not too_large:
                    sig = "c12:max-response-size-zero-ignored" if m == 0 else "c12:oversized-response-sent"
                    fails.append((sig, "frame %d: response of %d bytes sent although the client asked for at most %d"
                                  % (i, L, m)))
                if L <= m and (too_large or ob["len"] != L):
                    fails.append(("c12:fitting-response-replaced", "frame %d: response of %d bytes fits %d but was not sent"
                                  % (i, L, m)))
            elif L > res["max_response_size"] and not S.is_error(ob, "RESPONSE_TOO_LARGE"):
                fails.append(("c12:oversized-response-sent", "frame %d: %d bytes exceed the session maximum" % (i, L)))
        # EncoderOk, checked on what was produced
        if ob["items"] and ob["items"][0]["op"] is None and ob["len"] > res["max_response_size"]:
            fails.append(("c12:error-response-oversized", "frame %d: error response of %d bytes" % (i, ob["len"])))
    return fails


def mask_fresh_material(raw):
    """blank the value of every Key Material byte string (tag 420043, type Byte String) of a response"""
    out, i = bytearray(raw), 0
    while True:
        i = raw.find(b"\x42\x00\x43\x08", i)
        if i < 0 or i + 8 > len(raw):
            break
        n = int.from_bytes(raw[i + 4:i + 8], "big")
        out[i + 8:i + 8 + n] = b"\0" * max(0, min(n, len(raw) - i - 8))
        i += 8
    return bytes(out)


def responses_of(obs, generates=None):
    """what a connection was answered, for comparison between two runs of the same stream: time stamps blanked; when the
    stream itself asks the server to GENERATE key material (Create / Create Key Pair - op codes 1, 2 - in any frame) and
    a response carries Key Material, those bytes are blanked too: they are fresh randomness of each run, whatever the
    chunking (a thorough-tier false alarm of round 10: [Create; Get by placeholder] in one batch)"""
    hs = [o for o in obs if o["k"] == "handled"]
    if generates is None:
      generates = any(o["frame"] is not None and (b"\x42\x00\x5c\x05\x00\x00\x00\x04\x00\x00\x00\x01" in o["frame"] or
                                                b"\x42\x00\x5c\x05\x00\x00\x00\x04\x00\x00\x00\x02" in o["frame"]) for o in hs)
    def norm(raw):
        raw = mask_ts(raw)
        return mask_fresh_material(raw) if generates else raw
    return [(o["frame"], None if o["raw"] is None else norm(o["raw"])) for o in hs]


def model_line(rig, events, case, res, obs, verdicts):
    outs = []
    errlen = 0
    for o in obs:
        if o["k"] != "handled":
            continue
        for c in o["calls"]:
            d = dict(c["out"])
            d.pop("msg", None)
            d.pop("exc", None)
            if d["k"] == "ok":
                d["len"] = c["len"]          # None: the session never finished writing it
            outs.append(d)
        if o["obs"] is not None and o["obs"]["items"] and o["obs"]["items"][0]["op"] is None:
            errlen = max(errlen, o["obs"]["len"])
    return {"cmd": "run", "tls": case.get("tls", True),
            "cert": S.cert_json(case.get("cert", {"cns": 1, "eku": "client"})), "plugins": [], "slugs": [],
            "handshake": True, "chunks": S.hexs(events),
            "parse": [{"frame": f.hex(), "version": v} for f, v in verdicts.items()],
            "engine": outs, "errlen": errlen or 200, "default_version": rig.default_version,
            "max_response_size": res["max_response_size"]}


def impl_events(obs):
    ev = []
    for o in obs:
        if o["k"] == "recv":
            if o["exc"] == "ConnectionClosed":
                continue
            ev.append({"k": "badframe"})
            continue
        sent = None if o["obs"] is None else S.sent_obs(o["obs"])
        call = S.identity_json(o["calls"][0]["identity"]) if o["calls"] else None
        ev.append({"k": "handled", "frame": o["frame"].hex(), "sent": sent, "call": call})
    return ev


def model_events(out):
    j = json.loads(out)
    ev = []
    for e in j["events"]:
        if e["k"] == "badframe":
            ev.append({"k": "badframe"})
        else:
            ev.append({"k": "handled", "frame": e["frame"], "sent": e["sent"], "call": e["call"]})
    return ev


def run_case(rig, snap, case, rnd, st=None, lines=None):
    """case = {"frames":[hex], "chunkings":[kind,kind] | "events":[[hex|null]], "cert":shape, "tls":bool}
    -> list of (signature, what)"""
    sg = G.SessGen(rnd)
    frames = [bytes.fromhex(f) for f in case["frames"]]
    cut_frames = dict((f, l) for f, l in zip(frames, case.get("labels") or []) if l in ("mut:cutvalue", "mut:itemcut"))
    stream = b"".join(frames)
    cert = case.get("cert", {"cns": 1, "eku": "client"})
    tls = case.get("tls", True)
    cert_ok = cert is not None and (not tls or cert["eku"] in ("client", "both"))
    fails = []
    if "events" in case:
        evsets = [[None if e is None else bytes.fromhex(e) for e in evs] for evs in case["events"]]
    else:
        evsets = [sg.chunking(stream, k)[0] for k in case["chunkings"]]
        case["events"] = [S.hexs(e) for e in evsets]
    clean = all(e is not None and len(e) > 0 for evs in evsets for e in evs)
    spec, residue = G.spec_frames(stream)
    verdicts = collections.OrderedDict()
    t0 = time.perf_counter()
    for f in spec:
        if f not in verdicts:
            t1 = time.perf_counter()
            verdicts[f] = S.parse_verdict(f, rig.default_version)
            if time.perf_counter() - t1 > MAX_PARSE_S:
                fails.append(("c12:decoder-time-bound", "decoding a %d-byte frame took %.1f s" % (len(f), time.perf_counter() - t1)))
    runs = []
    for evs in evsets:
        try:
            res = serve(rig, snap, evs, case)
        except Timeout:
            fails.append(("c12:frame-time-bound", "the session did not finish the stream within %d s" % RUN_TIMEOUT_S))
            return fails
        if (res.get("run_escaped") or "").startswith("SessionHung"):
            # the session THREAD never finished (every session is a thread of its own, as in KmipServer): whatever it
            # waits for - a lock an earlier session never gave back - no framed request of it gets its one response
            fails.append(("c12:session-hung", "%s; responses received: %d of %d framed requests"
                          % (res["run_escaped"], len(res.get("out") or []), len(spec))))
            return fails
        obs = observe(rig, res)
        for o in obs:
            if o["k"] == "handled" and o["frame"] not in verdicts:
                verdicts[o["frame"]] = S.parse_verdict(o["frame"], rig.default_version)
        fails += monitor_run(rig, res, obs, verdicts, cert_ok, cut_frames)
        runs.append((evs, res, obs))
        if lines is not None:
            lines.append((model_line(rig, evs, case, res, obs, verdicts), impl_events(obs), case))
    if clean:
        # framing does not depend on the chunking, and is what the length fields say
        for evs, res, obs in runs:
            seen = [o["frame"] for o in obs if o["k"] == "handled"]
            if seen != spec:
                fails.append(("c12:framing-differs-from-length-fields",
                              "session framed %d requests, the length fields delimit %d" % (len(seen), len(spec))))
        base = responses_of(runs[0][2])
        gen = base != responses_of(runs[0][2], generates=False)      # (decided once per case, on the whole stream)
        for evs, res, obs in runs[1:]:
            if responses_of(obs, generates=gen) != base:
                fails.append(("c12:responses-depend-on-chunking", "same stream, different chunking, different answers"))
        # the undecodable frames are no-ops of the conversation: without them the others are answered the same
        good = [f for f in spec if verdicts[f] is not None]
        if len(good) != len(spec) and good:
            try:
                res2 = serve(rig, snap, [b"".join(good)], case)
            except Timeout:
                fails.append(("c12:frame-time-bound", "timeout on the stream without the bad frames"))
                return fails
            obs2 = observe(rig, res2)
            a = [x for x in base if verdicts[x[0]] is not None]
            if a != responses_of(obs2, generates=gen):
                fails.append(("c12:good-request-answered-differently-after-bad",
                              "a valid request is answered differently when undecodable frames precede it"))
    if st is not None:
        st.add(case, runs, verdicts, spec)
    return fails


# ------------------------------------------------------------------ statistics
class Stats(object):
    def __init__(self):
        self.frames = 0
        self.runs = 0
        self.distinct = set()
        self.by_class = collections.Counter()
        self.by_answer = collections.Counter()
        self.by_chunking = collections.Counter()
        self.verdicts = collections.Counter()
        self.good_after_bad = 0
        self.engine_calls = 0
        self.max_dt = 0.0
        self.samples = []

    def add(self, case, runs, verdicts, spec):
        labels = case.get("labels") or []
        for k in case.get("chunkings", []):
            self.by_chunking[k] += 1
        seen_bad = False
        for pos, f in enumerate(spec):
            lab = labels[pos] if pos < len(labels) else "?"
            v = verdicts.get(f)
            self.verdicts["decodable" if v is not None else "undecodable"] += 1
            nontrivial = (lab != "valid") or seen_bad or case.get("maxsize") is not None
            if nontrivial:
                self.distinct.add((hashlib.sha1(f).hexdigest(), "after-bad" if seen_bad else "first"))
            if v is not None and seen_bad:
                self.good_after_bad += 1
            if v is None:
                seen_bad = True
            self.by_class[lab] += 1
        for evs, res, obs in runs:
            self.runs += 1
            for o in obs:
                if o["k"] != "handled":
                    continue
                self.frames += 1
                self.engine_calls += len(o["calls"])
                self.max_dt = max(self.max_dt, o["dt"])
                if o["obs"] is not None:
                    its = o["obs"]["items"]
                    key = "empty-batch" if not its else (its[0]["reason"] or its[0]["status"])
                    if its and its[0]["op"] is None:
                        key = "ERR:" + key
                    self.by_answer[key] += 1
        if len(self.samples) < 6 and len(case["frames"]) <= 3 and sum(len(f) for f in case["frames"]) < 900:
            self.samples.append({"frames": case["frames"], "labels": labels, "chunkings": case.get("chunkings")})


# ------------------------------------------------------------------ case generation
def gen_cases(rnd, n_streams, n_sweeps):
    sg = G.SessGen(rnd)
    cases = []
    valids = []
    for v in G.VERSIONS:
        for _ in range(10):
            x = sg.valid(v=v)
            if x:
                valids.append(x)
    for _ in range(3):
        valids.append(sg.valid_big())
    mut_kinds = ["truncate", "inflate", "deflate", "type", "tag", "nest", "count", "version", "version0", "flip",
                 "trailing", "textlen", "cutvalue", "cutvalue", "emptystring", "itemcut", "itemcut"]

    def bad():
        if rnd.random() < 0.12:
            return sg.raw().hex(), "raw"
        fr, meta = sg.ch(valids)
        if len(fr) > 3000 and rnd.random() < 0.8:
            fr, meta = sg.ch(valids)
        m, kind = sg.mutate(fr, sg.ch(mut_kinds))
        return m.hex(), "mut:" + kind

    def good():
        x = sg.valid() if rnd.random() < 0.7 else sg.ch(valids)
        if x is None:
            x = sg.ch(valids)
        return x[0].hex(), "valid"

    chunk_kinds = ["whole", "bytes", "header", "random", "big"]
    for i in range(n_streams):
        shape = sg.ch(["bad-good", "bad-good", "bad-good", "mixed", "mixed", "good", "bad"])
        fl = []
        if shape == "bad-good":
            fl = [bad() for _ in range(sg.ch([1, 1, 2, 3, 5]))] + [good()]
        elif shape == "mixed":
            fl = [bad() if rnd.random() < 0.5 else good() for _ in range(sg.ch([2, 3, 4, 6]))]
        elif shape == "good":
            fl = [good() for _ in range(sg.ch([1, 2, 4]))]
        else:
            fl = [bad() for _ in range(sg.ch([1, 2]))]
        total = sum(len(f) // 2 for f, _ in fl)
        k1 = "whole"
        k2 = sg.ch(chunk_kinds[1:]) if total < 6000 else sg.ch(["header", "random", "big", "big"])
        if i % 2:
            k1 = sg.ch(["random", "header"])
        case = {"frames": [f for f, _ in fl], "labels": [l for _, l in fl], "chunkings": [k1, k2]}
        r = rnd.random()
        if r < 0.06:
            case["cert"] = sg.ch([None, {"cns": 1, "eku": "absent"}, {"cns": 2, "eku": "client"}, {"cns": 0, "eku": "client"}])
        elif r < 0.10:
            case["cert"], case["tls"] = {"cns": 1, "eku": "absent"}, False
        if i % 12 == 5:
            # a transport that now and then has nothing (recv -> None) or closes early: the ValueError path of
            # _receive_bytes; compared with the model only (frames get lost by design, no framing monitor)
            evs, _ = sg.chunking(b"".join(bytes.fromhex(f) for f in case["frames"]), sg.ch(["header", "random"]))
            for _ in range(sg.ch([1, 1, 2])):
                evs.insert(rnd.randrange(len(evs) + 1), None)
            if rnd.random() < 0.3:
                evs.insert(rnd.randrange(len(evs) + 1), b"")
            case = {"frames": case["frames"], "labels": case["labels"], "events": [S.hexs(evs)]}
        cases.append(case)
    # maximum response size sweeps: learn the size, then ask for sizes around it
    for i in range(n_sweeps):
        v = sg.ch([10, 11, 12, 13, 14])
        name, it = sg.ch([x for x in G.sure_items(v)])
        cases.append({"sweep": {"version": v, "item": it, "op": name}})
    return cases


def expand_sweep(rig, snap, case):
    """-> list of concrete cases for one (version, item)"""
    v, it = case["sweep"]["version"], case["sweep"]["item"]
    probe = {"frames": [G.encode_request(G.mkreq(v, [it])).hex()]}
    res = serve(rig, snap, [bytes.fromhex(probe["frames"][0])], probe)
    L = len(res["out"][0]) if res["out"] else 200
    out = []
    for m in sorted({L - 8, L - 1, L, L + 1, L + 8, 0, 1, -1, 2 ** 31 - 1, 1048576}):
        fr = G.encode_request(G.mkreq(v, [it], maxsize=m))
        out.append({"frames": [fr.hex()], "labels": ["valid+max"], "chunkings": ["whole", "header"], "maxsize": m,
                    "size": L})
    return out


# ------------------------------------------------------------------ receive loops alone
def recv_cases(rnd, n):
    cases = []
    for _ in range(n):
        nchunks = rnd.choice([0, 1, 2, 3, 5, 8])
        evs = []
        for _ in range(nchunks):
            x = rnd.random()
            if x < 0.08:
                evs.append(None)
            elif x < 0.14:
                evs.append(b"")
            else:
                evs.append(bytes(rnd.randrange(256) for _ in range(rnd.choice([1, 1, 2, 3, 8, 9, 40, 4096, 4097, 9000]))))
        size = rnd.choice([0, 1, 2, 8, 9, 16, 100, 4096, 4097, 8192, 10000])
        cases.append((size, evs))
    return cases


def check_recv(ctx, rig, rnd, n):
    cases = recv_cases(rnd, n)
    lines, impl = [], []
    for size, evs in cases:
        k, b, rest = rig.receive_bytes(size, evs)
        impl.append({"k": k, "bytes": None if b is None else b.hex(), "rest": S.hexs(rest)})
        lines.append(json.dumps({"cmd": "recv", "size": size, "chunks": S.hexs(evs)}))
    # a failed TLS handshake: no message loop at all, the connection is closed
    frame = G.encode_request(G.mkreq(12, [{"op": "query", "bid": None, "crypto": None, "functions": [1]}]))
    hs = rig.run_session([frame], S.make_cert(), handshake_ok=False, digests=False)
    if (hs.get("run_escaped") or "").startswith("SessionHung"):
        pass        # reported where it happened (c12:session-hung)
    elif hs["iterations"] or hs["out"] or not hs["closed"] or hs["run_escaped"]:
        ctx.report("c12:served-without-handshake", "requests were served although the TLS handshake failed",
                   {"kind": "handshake", "frame": frame.hex()})
    lines.append(json.dumps({"cmd": "run", "tls": True, "cert": S.cert_json({"cns": 1, "eku": "client"}), "plugins": [],
                             "slugs": [], "handshake": False, "chunks": [frame.hex()],
                             "parse": [{"frame": frame.hex(), "version": [1, 2]}], "engine": [], "errlen": 200,
                             "default_version": rig.default_version, "max_response_size": hs["max_response_size"]}))
    outs = ctx.run_model("Session", lines)
    hs_out = outs.pop()
    lines.pop()
    div = []
    if hs_out.startswith("bad-") or json.loads(hs_out)["events"] != []:
        div.append(("handshake", hs_out))
    for (size, evs), i, o in zip(cases, impl, outs):
        if o.startswith("bad-"):
            div.append((size, evs, i, o))
            continue
        j = json.loads(o)
        if j["k"] != i["k"] or j["rest"] != i["rest"] or (i["k"] == "ok" and j["bytes"] != i["bytes"]):
            div.append((size, evs, i, j))
        # monitor (implementation alone): a successful read returns exactly the next `size` bytes
        flat = b"".join(e for e in evs if e)
        if i["k"] == "ok" and all(e for e in evs) and bytes.fromhex(i["bytes"]) != flat[:size]:
            ctx.report("c12:receive-bytes-wrong", "_receive_bytes(%d) returned other bytes than the next %d" % (size, size),
                       {"kind": "recv", "size": size, "events": S.hexs(evs)})
    return len(cases), div


# ------------------------------------------------------------------ entry points
def execute(ctx, cases, rnd, st, with_model=True):
    rig = S.Rig()
    try:
        snap = setup_base(rig)
        todo = []
        for c in cases:
            if "sweep" in c:
                todo += expand_sweep(rig, snap, c)
            else:
                todo.append(c)
        divs = []
        model_s = 0.0
        BATCH = 250
        for b0 in range(0, len(todo), BATCH):
            lines = [] if with_model else None
            for c in todo[b0:b0 + BATCH]:
                for sig, what in run_case(rig, snap, c, random.Random(rnd.randrange(1 << 30)), st, lines):
                    ctx.report(sig, what, {"kind": "session", "case": {k: c[k] for k in c if k in
                                                                       ("frames", "events", "cert", "tls", "labels")}})
            if with_model and lines:
                t0 = time.time()
                outs = ctx.run_model("Session", [json.dumps(l[0]) for l in lines])
                model_s += time.time() - t0
                for (line, impl_ev, case), o in zip(lines, outs):
                    if o.startswith("bad-"):
                        divs.append({"case": case, "model": o, "impl": impl_ev})
                        continue
                    me = model_events(o)
                    if me != impl_ev:
                        first = next((i for i, (a, b) in enumerate(zip(me, impl_ev)) if a != b), min(len(me), len(impl_ev)))
                        divs.append({"case": {k: case[k] for k in case if k in ("frames", "events", "cert", "tls", "labels")},
                                     "at": first, "model": me[first:first + 1], "impl": impl_ev[first:first + 1]})
        ctx.coverage["model_wall_s"] = round(model_s, 2)
        nrecv, rdiv = check_recv(ctx, rig, rnd, 400 if ctx.tier == "quick" else 4000) if with_model else (0, [])
        return len(todo), divs, nrecv, rdiv
    finally:
        rig.close()


def corpus_cases():
    d = os.path.join(os.path.dirname(os.path.abspath(__file__)), "..", "..", "corpus", "C12")
    out = []
    for p in sorted(glob.glob(os.path.join(d, "*.json"))):
        j = json.load(open(p))
        out.append(j.get("case", j))
    return out


def run(ctx):
    rnd = random.Random(ctx.seed * 7919 + 12)
    st = Stats()
    quick = ctx.tier == "quick"
    cases = corpus_cases() + gen_cases(rnd, 330 if quick else 6000, 14 if quick else 300)
    ncases, divs, nrecv, rdiv = execute(ctx, cases, rnd, st)
    ctx.coverage.update({
        "evaluations": st.frames + nrecv,
        "distinct_nontrivial": len(st.distinct),
        "rule": RULE,
        "samples": st.samples,
        "streams": ncases, "session_runs": st.runs, "frames_served": st.frames,
        "frames_by_class": dict(st.by_class), "answers": dict(st.by_answer), "chunkings": dict(st.by_chunking),
        "decoder_verdicts": dict(st.verdicts), "valid_requests_served_after_an_undecodable_frame": st.good_after_bad,
        "engine_calls": st.engine_calls, "slowest_frame_s": round(st.max_dt, 3),
        "receive_bytes_cases": nrecv,
        "traces_validated_against_impl": st.runs + nrecv,
        "model_divergences": len(divs) + len(rdiv),
    })
    ncut = cutvalue_pass(ctx, random.Random(ctx.seed * 7 + 3), 1500 if ctx.tier == "quick" else 30000)
    ctx.coverage["evaluations"] = ctx.coverage.get("evaluations", 0) + ncut
    nhuge = huge_pass(ctx, random.Random(ctx.seed * 11 + 5), 3 if ctx.tier == "quick" else 10)
    ctx.coverage["evaluations"] += 2 * nhuge
    # M17: the COMPOSED model (session x decoder x engine x encoder) against KmipSession + KmipEngine, byte for byte
    import e2e_hook
    e2e_hook.run(ctx, ["c12", "c08"])
    if divs or rdiv:
        # a divergence alone is not a violation: look for a failing input around it first
        n0 = len(ctx.violations)
        search(ctx, ["correspondence"], budget=150)
        if len(ctx.violations) == n0:
            d = (divs or rdiv)[0]
            ctx.report("correspondence:session-model", "session model and KmipSession disagree",
                       {"kind": "correspondence", "broken": "correspondence Drivers/Session.lean vs KmipSession",
                        "divergence": d if isinstance(d, dict) else {"recv": str(d)[:2000]}}, no_input=True)


def cutvalue_pass(ctx, rnd, n):
    """Decoder-only pass with ground truth: frames cut inside the value of a primitive (every enclosing length made
    consistent) cannot be decoded; every one the real decoder accepts is then served through the session."""
    sg = G.SessGen(rnd)
    pool = []
    for v in G.VERSIONS:
        for _ in range(12):
            x = sg.valid(v=v)
            if x:
                pool.append(x[0])
    tried = accepted = 0
    bad = []
    by_kind = {}
    for _ in range(n):
        fr = sg.ch(pool)
        kind = "itemcut" if rnd.random() < 0.3 else "cutvalue"
        m, _k = sg.mutate(fr, kind)
        by_kind[kind] = by_kind.get(kind, 0) + 1
        if m == fr:
            continue
        tried += 1
        if S.parse_verdict(m, (1, 2)) is not None:
            accepted += 1
            if len(bad) < 3:
                bad.append((m, kind))
    ctx.coverage["ground_truth_frames_by_kind"] = by_kind
    ctx.coverage["cutvalue_frames"] = tried
    ctx.coverage["cutvalue_frames_accepted_by_decoder"] = accepted
    if bad:
        rig = S.Rig()
        try:
            snap = setup_base(rig)
            for m, kind in bad:
                case = {"frames": [m.hex()], "labels": ["mut:" + kind], "chunkings": ["whole", "whole"]}
                for sig, what in run_case(rig, snap, case, random.Random(1)):
                    ctx.report(sig, what, {"kind": "session", "case": {k: case[k] for k in case if k in
                                                                       ("frames", "events", "labels")}})
        finally:
            rig.close()
    return tried


def huge_one(rig, snap, kind, v, size, step):
    """one stream [valid request of about `size` bytes of payload; Query]; -> [(signature, what)]"""
    q = G.encode_request(G.mkreq(12, [{"op": "query", "bid": None, "crypto": None, "functions": [1, 2]}]))
    if kind == "register":
        big = G.encode_request(G.mkreq(v, [G.big_register(v, size)]))
    else:
        big = G.encode_request(G.mkreq(v, [{"op": "locate", "bid": None, "crypto": None, "max": None, "offset": None,
                                            "attrs": [{"name": "Name", "index": None,
                                                       "value": {"k": "name", "v": "n" * size, "t": 1}}]}]))
    what = "%s-%d" % (kind, size)
    stream = big + q
    events = [stream] if step is None else [stream[i:i + step] for i in range(0, len(stream), step)]
    rig.restore(snap)
    res = rig.run_session(events, S.make_cert(), digests=False)
    outs = res["out"]
    if res["run_escaped"]:
        return [("c12:exception-escaped:huge", "%s: %s" % (what, res["run_escaped"]))]
    if len(outs) != 2:
        return [("c12:answers-per-frame:huge", "a %d-byte %s request followed by a Query: 2 frames were sent, "
                 "%d answers came back" % (len(big), what, len(outs)))]
    try:
        a, b = S.decode_response(outs[0], rig.default_version), S.decode_response(outs[1], rig.default_version)
    except Exception as e:
        return [("c12:answer-undecodable:huge", "%s: %s" % (what, e))]
    fails = []
    if not (a["items"] and a["items"][0]["status"] == "SUCCESS"):
        fails.append(("c12:valid-request-refused:huge", "a valid %d-byte %s request was answered %s" % (len(big), what, a["items"])))
    if not (b["items"] and b["items"][0]["status"] == "SUCCESS" and b["items"][0]["op"] == "QUERY"):
        fails.append(("c12:next-request-not-served:huge", "the Query after a %d-byte %s request was answered %s"
                      % (len(big), what, b["items"])))
    return fails


def huge_response_one(rig, snap, v, with_max, nget):
    """[Register a 160 KiB opaque object; a batch of `nget` Gets of it - an ordinary small request whose RESPONSE
    exceeds the session's own limit of one mebibyte - with or without a Maximum Response Size; Query]: one answer per
    frame; the batch is answered Response Too Large (nothing that large is sent); the Query is served normally."""
    reg = G.encode_request(G.mkreq(v, [G.big_register(v, 160 * 1024)]))
    gets = [{"op": "get", "bid": "g%d" % k, "crypto": None, "uid": "5", "format": None, "compression": False, "wrap": None}
            for k in range(nget)]
    req = G.mkreq(v, gets, maxsize=with_max)
    req["bopt"] = 1
    big = G.encode_request(req)
    q = G.encode_request(G.mkreq(12, [{"op": "query", "bid": None, "crypto": None, "functions": [1, 2]}]))
    rig.restore(snap)
    res = rig.run_session([reg + big + q], S.make_cert(), digests=False)
    outs = res["out"]
    what = "%d Gets of a 160 KiB object under KMIP %s, maximum response size %s" % (nget, v, with_max)
    if res["run_escaped"]:
        return [("c12:exception-escaped:huge-response", "%s: %s" % (what, res["run_escaped"]))]
    esc = [it.get("escaped") for it in res["iterations"] if it.get("escaped") and it.get("escaped") != "ConnectionClosed"]
    if len(outs) != 3:
        return [("c12:answers-per-frame:huge-response", "%s: 3 frames were sent, %d answers came back%s"
                 % (what, len(outs), (" (%s left the message loop)" % esc[0]) if esc else ""))]
    try:
        a, b, c = [S.decode_response(o, rig.default_version) for o in outs]
    except Exception as e:
        return [("c12:answer-undecodable:huge-response", "%s: %s" % (what, e))]
    fails = []
    limit = with_max if with_max is not None else 1048576      # the client's maximum REPLACES the session's own
    if len(outs[1]) > limit:
        fails.append(("c12:oversized-response-sent", "%s: a response of %d bytes was sent" % (what, len(outs[1]))))
    if not S.is_error(b, "RESPONSE_TOO_LARGE") and len(outs[1]) > limit:
        fails.append(("c12:huge-response-not-refused", "%s: answered %s" % (what, b["items"][:2])))
    if not (c["items"] and c["items"][0]["status"] == "SUCCESS" and c["items"][0]["op"] == "QUERY"):
        fails.append(("c12:next-request-not-served:huge-response", "%s: the Query after it was answered %s" % (what, c["items"])))
    return fails


def huge_pass(ctx, rnd, n):
    """framed requests larger than one mebibyte (the session's own size constants), whole and in transport-sized
    pieces, each followed by an ordinary request on the same connection: one answer per frame, the big request is
    executed (it is valid), the next one is served normally.  Implementation monitor only (the frames are too large
    for the line protocol of the model driver to be worth it; the model's framing theorems have no size bound)."""
    rig = S.Rig()
    done = 0
    try:
        snap = setup_base(rig)
        for k in range(n):
            size = rnd.choice([1048576 + 1, 1100000, 1300000] if ctx.tier == "quick" else
                              [1048576 - 4096, 1048576 + 1, 1100000, 1300000, 2200000])
            v = rnd.choice([10, 12, 14, 20])
            kind = rnd.choice(["register", "locate"])
            step = rnd.choice([None, 65536, 16384, 100000])
            done += 1
            for sig, what in huge_one(rig, snap, kind, v, size, step):
                ctx.report(sig, what, {"kind": "huge", "what": kind, "version": v, "size": size, "step": step})
        # small requests with huge RESPONSES
        for v, mx, ng in ([(12, None, 8), (14, 2000000, 8), (10, None, 7)] if ctx.tier == "quick" else
                          [(v, mx, ng) for v in (10, 12, 14, 20) for mx in (None, 2000000, 1048577) for ng in (7, 8, 12)]):
            done += 1
            for sig, what in huge_response_one(rig, snap, v, mx, ng):
                ctx.report(sig, what, {"kind": "huge-response", "version": v, "max": mx, "gets": ng})
    finally:
        rig.close()
    ctx.coverage["huge_frame_streams"] = done
    return done


def search(ctx, broken, budget=None):
    """more cases than run(), implementation monitors only"""
    rnd = random.Random(ctx.seed * 104729 + 99)
    st = Stats()
    n = budget or (900 if ctx.tier == "quick" else 20000)
    execute(ctx, corpus_cases() + gen_cases(rnd, n, 30), rnd, st, with_model=False)
    ctx.coverage.setdefault("search_frames", 0)
    ctx.coverage["search_frames"] += st.frames


def replay(ctx, rep):
    if (rep.get("replay") or {}).get("kind") == "server-e2e":
        import e2e_hook
        return e2e_hook.replay(ctx, rep)
    if (rep.get("replay") or {}).get("kind") == "huge-response":
        r = rep["replay"]
        rig = S.Rig()
        try:
            snap = setup_base(rig)
            fails = huge_response_one(rig, snap, r["version"], r["max"], r["gets"])
            for sig, what in fails:
                print("  %s: %s" % (sig, what))
            return not fails
        finally:
            rig.close()
    if (rep.get("replay") or {}).get("kind") == "huge":
        r = rep["replay"]
        rig = S.Rig()
        try:
            snap = setup_base(rig)
            fails = huge_one(rig, snap, r["what"], r["version"], r["size"], r["step"])
            for sig, what in fails:
                print("  %s: %s" % (sig, what))
            return not fails
        finally:
            rig.close()
    r = rep["replay"]
    rig = S.Rig()
    try:
        if r.get("kind") == "recv":
            evs = [None if e is None else bytes.fromhex(e) for e in r["events"]]
            k, b, rest = rig.receive_bytes(r["size"], evs)
            flat = b"".join(e for e in evs if e)
            return not (k == "ok" and all(e for e in evs) and b != flat[:r["size"]])
        if r.get("kind") == "handshake":
            hs = rig.run_session([bytes.fromhex(r["frame"])], S.make_cert(), handshake_ok=False, digests=False)
            return not (hs["iterations"] or hs["out"] or not hs["closed"] or hs["run_escaped"])
        if r.get("kind") != "session":
            print("replay: nothing executable in this file (%s)" % r.get("kind"))
            return True
        snap = setup_base(rig)
        fails = run_case(rig, snap, dict(r["case"]), random.Random(0))
        for sig, what in fails:
            print("  %s: %s" % (sig, what))
        return not fails
    finally:
        rig.close()
