"""C07 — identifiers never reused; destroyed identifiers stay dead (histories with restarts)."""
import os
import sys

sys.path.insert(0, os.path.join(os.path.dirname(os.path.abspath(__file__)), "..", "lib"))
import engine_check  # noqa: E402
import monitors_engine as M  # noqa: E402

LEAN_MODULES = ["KmipModel.Props.C07"]
RULE = ("seeded adaptive histories biased to the revealing orders (destroy the newest then create; restart then "
        "create; destroy everything, restart, create) by several clients, engine re-created on the same database file; "
        "a fifth of the creation templates carry a Unique Identifier attribute naming a destroyed object; "
        "every other object must stay exactly as it was across a Destroy (stored-object monitor on full dumps); "
        "non-trivial = the request creates or destroys an object or addresses a destroyed identifier")
ASSUMPTIONS = ["SQLite AUTOINCREMENT (sqlite_sequence) persists across connections: modelled by Store.nextUid, "
               "exercised here through engine re-creation on the same file"]
PROFILE = {"ops": {"create": 10, "register": 8, "createKeyPair": 4, "deriveKey": 3, "destroy": 14, "get": 5,
                   "getAttributes": 3, "locate": 6, "activate": 2, "revoke": 2, "modifyAttribute": 1, "getAttributeList": 1},
           "groups": 0.05, "restart": 0.15, "template_uid": 0.2}
MONITORS = [M.mon_c07, M.mon_c05]      # mon_c05: an object changes only when a successful operation addresses it


def nontrivial(j, o):
    if "results" not in o:
        return False
    return any(it["op"] in ("create", "register", "createKeyPair", "deriveKey", "destroy") and r.get("status") == "ok"
               for it, r in zip(j["req"]["items"], o["results"])) or \
        any((r.get("msg") or "").startswith("Could not locate") for r in o["results"])


def run(ctx):
    engine_check.standard_run(ctx, PROFILE, MONITORS, nontrivial, RULE, n_quick=200, n_thorough=3000, length=30)
    # [operation on X; Destroy X; operations on X] in one batch, then again after it
    engine_check.scenario_run(ctx, "scen_engine.dead_in_batch_builder", MONITORS, nontrivial, RULE, 24, 400, 4,
                              "dead_in_batch_part", seed_base=870000)
    # the same property on database files an EARLIER run of the server wrote (corpus/legacy_db)
    import legacy_db_check
    legacy_db_check.hook(ctx, "c07")


def search(ctx, broken):
    engine_check.standard_search(ctx, PROFILE, MONITORS, 30)


def replay(ctx, rep):
    import legacy_db_check
    if legacy_db_check.is_mine(rep):
        return legacy_db_check.replay(ctx, rep)
    return engine_check.standard_replay(ctx, rep, MONITORS)
