"""C16 — protocol version honoured: refusal, operation/attribute gating, Query/DiscoverVersions."""
import os
import sys

sys.path.insert(0, os.path.join(os.path.dirname(os.path.abspath(__file__)), "..", "lib"))
import engine_check  # noqa: E402
import monitors_engine as M  # noqa: E402

LEAN_MODULES = ["KmipModel.Props.C16", "KmipModel.Props.C16Session", "KmipModel.Props.C05Listing", "KmipModel.Props.C02Encode", "KmipModel.Props.C01Gen"]
RULE = ("complete matrices: every dispatched and several undispatched operations x every supported version "
        "(1.0,1.1,1.2,1.3,1.4,2.0) plus unsupported versions (0.9,1.5,2.1,3.0); Query and DiscoverVersions under every "
        "version, each advertised operation then sent under that version; GetAttributeList of fully attributed "
        "objects of every type under every version; followed by seeded histories with version switches; "
        "non-trivial = every matrix cell")
VERS = [10, 11, 12, 13, 14, 20]
BAD_VERS = [9, 15, 21, 30, 1010, 1020, 1040, 1100, 2010]    # from 1000 on: 1000*major + minor (1.10, 1.20, ...)
# KMIP specification: first version that defines the operation / attribute (independent of the code)
SPEC_MIN_OP = {"discoverVersions": 11, "encrypt": 12, "decrypt": 12, "sign": 12, "signatureVerify": 12, "mac": 12,
               "setAttribute": 20}
OPNUM = {1: "create", 2: "createKeyPair", 3: "register", 5: "deriveKey", 8: "locate", 10: "get", 11: "getAttributes",
         12: "getAttributeList", 14: "modifyAttribute", 15: "deleteAttribute", 18: "activate", 19: "revoke",
         20: "destroy", 24: "query", 30: "discoverVersions", 31: "encrypt", 32: "decrypt", 33: "sign",
         34: "signatureVerify", 35: "mac", 49: "setAttribute"}
SPEC_ATTR_ADDED = {"Sensitive": 14, "Fresh": 11, "Certificate Length": 11, "Digital Signature Algorithm": 11,
                   "X.509 Certificate Identifier": 11, "X.509 Certificate Subject": 11, "X.509 Certificate Issuer": 11,
                   "Always Sensitive": 14, "Extractable": 14, "Never Extractable": 14}
SPEC_ATTR_REMOVED = {"Operation Policy Name": 20, "Certificate Identifier": 11, "Certificate Subject": 11,
                     "Certificate Issuer": 11}


def mon_c16(h, outs):
    fails = []
    advertised = {}
    for i, (j, o) in enumerate(zip(h, outs)):
        if j.get("cmd") != "req" or not isinstance(o, dict):
            continue
        v = j["req"]["version"]
        if v not in VERS:
            if "rejected" not in o:
                fails.append(("c16:unsupported-version-accepted:%s" % v, "request under version %s was processed" % v, i))
            continue
        if "rejected" in o:
            continue
        if o.get("_version") != v:
            fails.append(("c16:version-not-echoed", "request %s answered under %s" % (v, o.get("_version")), i))
        for it, r in zip(j["req"]["items"], o.get("results", [])):
            op = it["op"]
            if v < SPEC_MIN_OP.get(op, 10) and not (r.get("status") == "fail" and r.get("reason") == 5):
                fails.append(("c16:later-operation-accepted:%s:%s" % (op, v),
                              "%s under KMIP %s answered %s/%s instead of Operation Not Supported"
                              % (op, v, r.get("status"), r.get("reason")), i))
            d = r.get("data") or {}
            if op == "query" and r.get("status") == "ok":
                advertised[v] = d.get("ops", [])
                for n in d.get("ops", []):
                    name = OPNUM.get(n)
                    if name is None or v < SPEC_MIN_OP.get(name, 10):
                        fails.append(("c16:query-advertises-unavailable:%s:%s" % (n, v),
                                      "Query under %s advertises operation %s" % (v, n), i))
            if op == "discoverVersions" and r.get("status") == "ok" and not it["versions"]:
                vs = d.get("versions", [])
                if vs != sorted(vs, reverse=True) or any(x not in VERS for x in vs):
                    fails.append(("c16:discover-versions-wrong", "DiscoverVersions listed %s" % vs, i))
            if op == "discoverVersions" and r.get("status") == "ok" and it["versions"]:
                if any(x not in VERS for x in d.get("versions", [])):
                    fails.append(("c16:discover-versions-unsupported", "DiscoverVersions confirmed %s" % d.get("versions"), i))
            if op in ("getAttributeList", "getAttributes") and r.get("status") == "ok":
                names = d.get("names") if op == "getAttributeList" else [a["name"] for a in d.get("attrs", [])]
                for n in names:
                    if v < SPEC_ATTR_ADDED.get(n, 10) or v >= SPEC_ATTR_REMOVED.get(n, 99):
                        fails.append(("c16:attribute-out-of-version:%s:%s" % (n, v),
                                      "attribute %s reported under KMIP %s" % (n, v), i))
            # an advertised operation must not be refused as unsupported under that version
            if v in advertised and r.get("reason") == 5 and r.get("status") == "fail" \
                    and "is not supported by" in (r.get("msg") or "") and "Wrapping" not in (r.get("msg") or ""):
                num = [k for k, nm in OPNUM.items() if nm == op]
                if num and num[0] in advertised[v]:
                    fails.append(("c16:advertised-operation-refused:%s:%s" % (op, v),
                                  "%s is advertised by Query under %s but refused" % (op, v), i))
    return fails


MONITORS = [mon_c16]
NAMED = ["Unique Identifier", "Name", "Object Type", "Cryptographic Algorithm", "Cryptographic Length", "Operation Policy Name",
         "Cryptographic Usage Mask", "State", "Initial Date", "Object Group", "Application Specific Information", "Sensitive",
         "Certificate Type"]


def matrix_builder(g, E, do, length):
    """complete operation x version and attribute x version matrices on a prepared store"""
    def req(v, items, user="alice"):
        return do({"cmd": "req", "now": 1000, "id": {"user": user, "groups": None},
                   "req": {"version": v, "ts": None, "async": None, "bopt": None, "maxsize": None, "items": items}})
    # objects of every type with every storable attribute
    tm = {"tnames": 0, "attrs": [
        {"name": "Cryptographic Usage Mask", "index": None, "value": {"k": "int", "v": 0xFFFFFF}},
        {"name": "Name", "index": 0, "value": {"k": "name", "v": "n0", "t": 1}},
        {"name": "Object Group", "index": 0, "value": {"k": "text", "v": "grpA"}},
        {"name": "Application Specific Information", "index": 0, "value": {"k": "appinfo", "ns": "ssl", "d": "www"}},
        {"name": "Sensitive", "index": None, "value": {"k": "bool", "v": True}},
        {"name": "Operation Policy Name", "index": None, "value": {"k": "text", "v": "default"}}]}
    tm_opaque = {"tnames": 0, "attrs": [a for a in tm["attrs"] if a["name"] != "Cryptographic Usage Mask"]}
    objs = [{"otype": 2, "value": "00" * 16, "alg": 3, "len": 128, "format": 1, "subtype": None},
            {"otype": 3, "value": "0102", "alg": 4, "len": 2048, "format": 3, "subtype": None},
            {"otype": 4, "value": "0102", "alg": 4, "len": 2048, "format": 4, "subtype": None},
            {"otype": 5, "value": "00" * 16, "alg": 3, "len": 128, "format": 1, "subtype": None},
            {"otype": 1, "value": "3003020101", "alg": None, "len": None, "format": None, "subtype": 1},
            {"otype": 7, "value": "0102", "alg": None, "len": None, "format": None, "subtype": 1},
            {"otype": 8, "value": "0102", "alg": None, "len": None, "format": None, "subtype": 0x80000000}]
    for ob in objs:
        req(14, [{"op": "register", "bid": None, "crypto": None, "otype": ob["otype"],
                  "tmpl": tm_opaque if ob["otype"] == 8 else tm, "obj": ob}])
    do({"cmd": "dump"})
    # the order in which versions are exercised on the one engine changes with the seed (ascending, descending,
    # shuffled): what a request under one version leaves behind must not show under another
    order = VERS + BAD_VERS
    x = g.r.random()
    if x < 0.34:
        order = list(reversed(order))
    elif x < 0.67:
        order = list(order)
        g.r.shuffle(order)
    for v in order:
        req(v, [{"op": "query", "bid": None, "crypto": None, "functions": [1, 3]}])
        req(v, [{"op": "discoverVersions", "bid": None, "crypto": None, "versions": []}])
        req(v, [{"op": "discoverVersions", "bid": None, "crypto": None, "versions": [20, 9, 14, 21, 10]}])
        for uid in range(1, len(objs) + 1):
            req(v, [{"op": "getAttributeList", "bid": None, "crypto": None, "uid": str(uid)}])
            req(v, [{"op": "getAttributes", "bid": None, "crypto": None, "uid": str(uid), "names": []}])
            # ... and asked for BY NAME: every attribute the object may hold, all at once and a few alone
            req(v, [{"op": "getAttributes", "bid": None, "crypto": None, "uid": str(uid), "names": list(NAMED)}])
            for nm in g.r.sample(NAMED, 2) + ["Operation Policy Name", "Sensitive"]:
                req(v, [{"op": "getAttributes", "bid": None, "crypto": None, "uid": str(uid), "names": [nm]}])
        for op in list(OPNUM.values()) + ["unsupported"]:
            for _ in range(2):
                it = g.item(op=op, version=v)
                it["bid"] = None
                req(v, [it])
                do({"cmd": "dump"})
    # and once more, newest first then oldest first: Query / DiscoverVersions after everything above
    for v in list(reversed(VERS)) + VERS:
        req(v, [{"op": "query", "bid": None, "crypto": None, "functions": [1, 3]}])
        req(v, [{"op": "discoverVersions", "bid": None, "crypto": None, "versions": []}])


def nontrivial(j, o):
    return True


def run(ctx):
    matrix = engine_check.run_many([ctx.seed * 31 + k for k in range(4)], 0, {"builtin_policies_only": True},
                                   True, "props.c16.matrix_builder")
    engine_check.report_monitor_failures(ctx, matrix, MONITORS)
    divs = engine_check.correspondence(ctx, matrix)
    st = engine_check.Stats()
    for h, outs in matrix:
        st.add_history(h, outs, nontrivial)
    engine_check.standard_run(ctx, {"groups": 0.0}, MONITORS, nontrivial, RULE, n_quick=60, n_thorough=1500, length=30,
                              extra_cov={"matrix_requests": st.requests, "matrix_versions": VERS + BAD_VERS,
                                         "matrix_complete": True})
    ctx.coverage["evaluations"] += st.items
    ctx.coverage["distinct_nontrivial"] += len(st.distinct)
    # message fields per version on the wire: every real response against the encoder model M15 and its version-gate
    # table (encData_no_later_field); the gates of the REQUEST/response structures are the generated schema tables
    # (C01Gen.gen_no_later_field_emitted / gen_later_field_rejected, exercised by the C01 check)
    import random
    import encode_check
    enc = encode_check.run(ctx, random.Random("c16-encode-%s" % ctx.seed))
    ctx.coverage["response_fields_per_version"] = {k: enc.get(k) for k in (
        "compared", "byte_equal", "gating_faults", "differ", "cells_op_version_outcome")}
    ctx.coverage["evaluations"] += enc.get("compared") or 0
    session_part(ctx)
    later_field_part(ctx)
    encoding_option_probe(ctx)
    concurrent_part(ctx)
    import e2e_hook
    e2e_hook.run(ctx, ["c16"])
    if divs and not ctx.violations:
        d = divs[0]
        ctx.report("correspondence:engine-model", "model and engine disagree on the version matrix",
                   {"kind": "correspondence", "broken": "correspondence Drivers/Engine.lean vs KmipEngine",
                    "lines": d["history"][-3:], "impl": d["impl"], "model": d["model"]}, no_input=True)


# ------------------------------------------------------------------ the session: version of session-built answers
def session_part(ctx):
    """One connection, requests of DIFFERENT protocol versions: every answer the real KmipSession sends to a request it
    could decode - including the errors the session builds itself (stale time stamp, missing batch item ids, response
    larger than the client's maximum, refused version) - carries the protocol version of THAT request."""
    import random
    import impl_session as S
    import gen_session as G
    from props import c12
    rnd = random.Random(ctx.seed * 131 + 16)
    q = {"op": "query", "bid": None, "crypto": None, "functions": [1, 2, 3]}
    get = {"op": "get", "bid": None, "crypto": None, "uid": "1", "format": None, "compression": False, "wrap": None}
    loc = {"op": "locate", "bid": None, "crypto": None, "max": None, "offset": None, "attrs": []}

    def second(kind, v):
        if kind == "ok":
            return G.mkreq(v, [dict(rnd.choice([q, loc]))])
        if kind == "stale":
            return G.mkreq(v, [dict(q)], ts=rnd.choice([1000, 10 ** 9]))
        if kind == "future":
            return G.mkreq(v, [dict(q)], ts=2 ** 40)
        if kind == "toolarge":
            return G.mkreq(v, [dict(rnd.choice([q, get] if v < 20 else [q]))], maxsize=rnd.choice([0, 8, 64]))
        if kind == "nobid":
            return G.mkreq(v, [dict(q), dict(loc)])
        raise ValueError(kind)
    kinds = ["ok", "stale", "future", "toolarge", "nobid"]
    pairs = [(a, b) for a in VERS for b in VERS if a != b]
    if ctx.tier != "quick":
        pairs = pairs * 6
    rig = S.Rig()
    n = served = 0
    by_kind = {}
    answers = {}
    try:
        snap = c12.setup_base(rig)
        for a, b in pairs:
            for kind in kinds:
                reqs = [G.mkreq(a, [dict(q)]), second(kind, b), G.mkreq(a, [dict(loc)])]
                if rnd.random() < 0.3:
                    reqs.append(second(rnd.choice(kinds), rnd.choice(VERS)))
                try:
                    frames = [G.encode_request(r) for r in reqs]
                except Exception:
                    continue
                rig.restore(snap)
                res = rig.run_session([b"".join(frames)], S.make_cert(), digests=False)
                obs = c12.observe(rig, res)
                handled = [o for o in obs if o["k"] == "handled"]
                n += 1
                by_kind[kind] = by_kind.get(kind, 0) + 1
                for k, (o, r) in enumerate(zip(handled, reqs)):
                    served += 1
                    want = [r["version"] // 10, r["version"] % 10]
                    if o["obs"] is None:
                        continue
                    it0 = o["obs"]["items"][0] if o["obs"]["items"] else {}
                    key = "%s/%s" % (it0.get("status"), it0.get("reason"))
                    answers[key] = answers.get(key, 0) + 1
                    if o["obs"]["ver"] != want:
                        ctx.report("c16:session-answer-in-another-version",
                                   "request %d of the connection was sent under %s and answered under %s (%s)"
                                   % (k, want, o["obs"]["ver"], key),
                                   {"kind": "session-versions", "frames": [f.hex() for f in frames], "index": k,
                                    "versions": [r["version"] for r in reqs]})
                if len(handled) != len(reqs):
                    ctx.report("c16:session-frames-lost", "%d requests sent, %d answered" % (len(reqs), len(handled)),
                               {"kind": "session-versions", "frames": [f.hex() for f in frames], "index": -1,
                                "versions": [r["version"] for r in reqs]})
    finally:
        rig.close()
    ctx.coverage["session_version_switch_streams"] = n
    ctx.coverage["session_version_switch_requests"] = served
    ctx.coverage["session_version_switch_kinds"] = by_kind
    ctx.coverage["session_version_switch_answers"] = answers
    ctx.coverage["evaluations"] += served


def replay_session(ctx, rep):
    import impl_session as S
    from props import c12
    r = rep["replay"]
    frames = [bytes.fromhex(f) for f in r["frames"]]
    rig = S.Rig()
    try:
        snap = c12.setup_base(rig)
        rig.restore(snap)
        res = rig.run_session([b"".join(frames)], S.make_cert(), digests=False)
        handled = [o for o in c12.observe(rig, res) if o["k"] == "handled"]
        bad = []
        for k, (o, v) in enumerate(zip(handled, r["versions"])):
            if o["obs"] is not None and o["obs"]["ver"] != [v // 10, v % 10]:
                bad.append("request %d sent under %s answered under %s" % (k, v, o["obs"]["ver"]))
        if len(handled) != len(frames):
            bad.append("%d requests sent, %d answered" % (len(frames), len(handled)))
        for b in bad:
            print("  session:", b)
        return not bad
    finally:
        rig.close()


# ------------------------------------------------------------------ message fields of a later version, on the wire
# first tag of each KMIP version's block of the tag table (KMIP specification 9.1.3.1; every version appends its new
# tags to the table): a tag at or above a boundary names a message field / attribute that version introduced
TAG_BLOCKS = [(0x420125, 20), (0x4200F8, 14), (0x4200D4, 13), (0x4200B8, 12), (0x4200A2, 11)]


def tag_version(tag):
    for first, v in TAG_BLOCKS:
        if first <= tag < 0x430000:
            return v
    return 10


def encoding_option_probe(ctx):
    """the known finding of round 13, produced by construction on every run: a wrapped Get whose Key Wrapping
    Specification carries Encoding Option (a KMIP 1.1 field) under a 1.0 header - is it accepted, and does the 1.0
    answer carry the field back?  (Same signature as the end-to-end monitor that found it.)"""
    import impl_session as S
    import gen_session as G
    from lib_e2e_tags import all_tags, tag_version
    rig = S.Rig()
    try:
        A = lambda n, k, v: {"name": n, "index": None, "value": {"k": k, "v": v}}
        t = lambda mask: {"tnames": 0, "attrs": [A("Cryptographic Algorithm", "enum", 3), A("Cryptographic Length", "int", 128),
                                                 A("Cryptographic Usage Mask", "int", mask)]}
        frames = [G.encode_request(G.mkreq(12, [{"op": "create", "bid": None, "crypto": None, "otype": 2, "tmpl": t(0x10 | 0x20 | 4 | 8)}])),
                  G.encode_request(G.mkreq(12, [{"op": "activate", "bid": None, "crypto": None, "uid": "1"}])),
                  G.encode_request(G.mkreq(12, [{"op": "create", "bid": None, "crypto": None, "otype": 2, "tmpl": t(12)}])),
                  G.encode_request(G.mkreq(10, [{"op": "get", "bid": None, "crypto": None, "uid": "2", "format": None, "compression": False,
                                                 "wrap": {"method": 1, "enckey": "1", "encparams": True, "mackey": False,
                                                          "attrnames": 0, "encoding": 1}}]))]
        res = rig.run_session([b"".join(frames)], S.make_cert(), digests=False)
        outs = res.get("out", [])
        ctx.coverage["encoding_option_probe_responses"] = len(outs)
        if len(outs) == 4:
            raw = outs[3]
            late = sorted(set(x for x in all_tags(raw) if tag_version(x) > 10))
            ok = raw.find(b"\x42\x00\x7f\x05\x00\x00\x00\x04\x00\x00\x00\x00") >= 0
            ctx.coverage["encoding_option_probe"] = {"answered_success": ok, "later_tags_in_1_0_answer": ["0x%06X" % x for x in late]}
            if late:
                ctx.report("c16:e2e-later-field-sent:tag-%06X:under-10" % late[0],
                           "a wrapped Get with Encoding Option under a KMIP 1.0 header is answered with the field(s) %s in a 1.0 response"
                           % ["0x%06X" % x for x in late], {"kind": "encoding-option-probe"})
    finally:
        rig.close()


def later_field_part(ctx):
    """Valid single-item requests that carry a field introduced in version g (encoded by the real encoder under a
    version >= g), re-headed to every supported version BELOW g and sent to the real KmipSession: the item must not be
    answered Success and the store must not change - "a message field introduced in a later KMIP version is never
    accepted from a client speaking an earlier one".  Which version introduced a field is read off its TAG (the
    specification's tag table grows by version), not off the code."""
    import random
    import impl_session as S
    import gen_session as G
    from props import c12
    rnd = random.Random(ctx.seed * 977 + 1616)
    sg = G.SessGen(rnd)
    quick = ctx.tier == "quick"
    want = 260 if quick else 4000
    frames = []
    import gen_engine

    def candidate(v, op, sure, item=None):
        if item is not None:
            # a request known to succeed under 1.4, encoded under `v`
            try:
                x = (G.encode_request(G.mkreq(v, [dict(item)])), {"ops": [item["op"]]})
            except Exception:
                return None
        else:
            x = sg.valid(v=v, op=op, sure=sure)
        if not x or len(x[1]["ops"]) != 1 or len(x[0]) > 4000:
            return None
        fr = x[0]
        later = [(tag_version(e["tag"]), e["tag"]) for e in G.ttlv_index(fr) if tag_version(e["tag"]) > 10]
        if not later:
            return None
        g, tag = max(later)
        lows = [w for w in VERS if w < g]
        if not lows:
            return None
        return (fr, v, g, tag, x[1]["ops"][0], rnd.choice(lows))
    # a systematic sweep first: every operation under every version that has later fields (the generator's own mix has
    # a key pair request under 2.0 once in a thousand), up to two frames each; then the random rest
    A = lambda n, k, v: {"name": n, "index": None, "value": {"k": k, "v": v}}
    more = [("createKeyPair", {"op": "createKeyPair", "bid": None, "crypto": None,
                               "common": {"tnames": 0, "attrs": [A("Cryptographic Algorithm", "enum", 4), A("Cryptographic Length", "int", 2048)]},
                               "priv": {"tnames": 0, "attrs": [A("Cryptographic Usage Mask", "int", 1)]},
                               "pub": {"tnames": 0, "attrs": [A("Cryptographic Usage Mask", "int", 2)]}}),
            ("register", {"op": "register", "bid": None, "crypto": None, "otype": 2, "tmpl": {"tnames": 0, "attrs": [A("Cryptographic Usage Mask", "int", 12)]},
                          "obj": {"otype": 2, "value": "0f" * 16, "alg": 3, "len": 128, "format": 1, "subtype": None}}),
            ("revoke", {"op": "revoke", "bid": None, "crypto": None, "uid": "1", "code": 1}),
            ("modifyAttribute", {"op": "modifyAttribute", "bid": None, "crypto": None, "uid": "1",
                                 "attr": {"name": "Name", "index": 0, "value": {"k": "name", "v": "renamed", "t": 1}}, "current": None, "new": None})]
    for name, it in G.sure_items(14) + more:
        for v in (13, 14, 20):
            c = candidate(v, None, False, item=it)
            if c is not None:
                # under every earlier version
                frames += [c[:5] + (lo,) for lo in VERS if lo < c[2]]
    for op in gen_engine.OPS_ALL:
        for v in (12, 13, 14, 20):
            got = 0
            for _ in range(10):
                c = candidate(v, op, False)
                if c is not None:
                    frames.append(c)
                    got += 1
                    if got == (2 if quick else 6):
                        break
    tries = 0
    while len(frames) < want and tries < want * 6:
        tries += 1
        v = rnd.choice([12, 13, 14, 14, 20, 20])
        c = candidate(v, None, rnd.random() < 0.3)
        if c is not None:
            frames.append(c)
    rig = S.Rig()
    n = accepted = 0
    by_gate, by_answer = {}, {}
    try:
        snap = c12.setup_base(rig)
        for fr, v, g, tag, op, lo in frames:
            b = bytearray(fr)
            idx = G.ttlv_index(fr)
            mj = [e for e in idx if e["tag"] == 0x42006A]
            mn = [e for e in idx if e["tag"] == 0x42006B]
            if not mj or not mn:
                continue
            b[mj[0]["off"] + 8:mj[0]["off"] + 12] = (lo // 10).to_bytes(4, "big")
            b[mn[0]["off"] + 8:mn[0]["off"] + 12] = (lo % 10).to_bytes(4, "big")
            rig.restore(snap)
            res = rig.run_session([bytes(b)], S.make_cert(), digests=False)
            obs = [o for o in c12.observe(rig, res) if o["k"] == "handled"]
            n += 1
            by_gate["%d->%d" % (g, lo)] = by_gate.get("%d->%d" % (g, lo), 0) + 1
            if len(obs) != 1 or obs[0]["obs"] is None:
                by_answer["no-decodable-response"] = by_answer.get("no-decodable-response", 0) + 1
                continue
            its = obs[0]["obs"]["items"]
            key = "/".join("%s:%s" % (i["status"], i["reason"]) for i in its)
            by_answer[key] = by_answer.get(key, 0) + 1
            if any(i["status"] == "SUCCESS" for i in its) or not obs[0]["unchanged"]:
                accepted += 1
                ctx.report("c16:later-field-accepted:%s:tag-%06X:under-%d" % (op, tag, lo),
                           "a %s request carrying the field with tag 0x%06X (introduced in KMIP %d.%d) under a KMIP %d.%d "
                           "header was answered %s%s" % (op, tag, g // 10, g % 10, lo // 10, lo % 10, key,
                                                        "" if obs[0]["unchanged"] else " and the store changed"),
                           {"kind": "later-field", "frame": bytes(b).hex(), "tag": tag, "gate": g, "under": lo})
        # authenticated encryption (KMIP 1.4 fields of Encrypt / Decrypt): a real GCM conversation under 1.4 first, so
        # that a Decrypt carrying the tag WOULD succeed if the field were accepted below 1.4
        from kmip.core import utils as _u
        from kmip.core.messages import messages as _m, contents as _c
        rig.restore(snap)
        cp = {"mode": 9, "padding": None, "alg": 3, "taglen": 16}

        def enc_item(aad=None):
            it = {"op": "encrypt", "bid": None, "crypto": None, "uid": "1", "params": True, "cp": cp,
                  "data_hex": "11" * 32, "iv_hex": "22" * 12}
            if aad:
                it["aad_hex"] = aad
            return it
        pre = [G.encode_request(G.mkreq(14, [{"op": "activate", "bid": None, "crypto": None, "uid": "1"}])),
               G.encode_request(G.mkreq(14, [enc_item()]))]
        res = rig.run_session([b"".join(pre)], S.make_cert(), digests=False)
        ct = tag = None
        try:
            mm = _m.ResponseMessage()
            mm.read(_u.BytearrayStream(res["out"][1]), kmip_version=_c.protocol_version_to_kmip_version(_c.ProtocolVersion(1, 4)))
            pl = mm.batch_items[0].response_payload
            ct, tag = pl.data, pl.auth_tag
        except Exception:
            pass
        gcm = {"conversation": ct is not None and tag is not None}
        if ct is not None and tag is not None:
            snap2 = rig.snapshot()
            dec = {"op": "decrypt", "bid": None, "crypto": None, "uid": "1", "params": True, "cp": cp,
                   "data_hex": ct.hex(), "iv_hex": "22" * 12, "tag_hex": tag.hex()}
            for label, item, tagno in (("decrypt+tag", dec, 0x4200FF), ("encrypt+aad", enc_item("33" * 8), 0x4200FE)):
                fr = G.encode_request(G.mkreq(14, [item]))
                for lo in (14, 13, 12):
                    b = bytearray(fr)
                    idx = G.ttlv_index(fr)
                    mn = [e for e in idx if e["tag"] == 0x42006B]
                    b[mn[0]["off"] + 8:mn[0]["off"] + 12] = (lo % 10).to_bytes(4, "big")
                    rig.restore(snap2)
                    r2 = rig.run_session([bytes(b)], S.make_cert(), digests=False)
                    obs = [o for o in c12.observe(rig, r2) if o["k"] == "handled"]
                    its = obs[0]["obs"]["items"] if obs and obs[0]["obs"] else []
                    key = "/".join("%s:%s" % (i["status"], i["reason"]) for i in its)
                    gcm["%s@%d" % (label, lo)] = key
                    n += 1
                    if lo < 14 and any(i["status"] == "SUCCESS" for i in its):
                        ctx.report("c16:later-field-accepted:%s:tag-%06X:under-%d" % (item["op"], tagno, lo),
                                   "a %s request carrying the KMIP 1.4 field with tag 0x%06X under a KMIP 1.%d header was "
                                   "answered %s (under 1.4 the same request is answered %s)"
                                   % (item["op"], tagno, lo % 10, key, gcm.get("%s@14" % label)),
                                   {"kind": "later-field", "frame": bytes(b).hex(), "tag": tagno, "gate": 14, "under": lo,
                                    "prefix": [f.hex() for f in pre]})
        ctx.coverage["later_field_gcm_conversation"] = gcm
    finally:
        rig.close()
    ctx.coverage["later_field_frames"] = n
    ctx.coverage["later_field_frames_by_gate"] = by_gate
    ctx.coverage["later_field_answers"] = by_answer
    ctx.coverage["evaluations"] += n


def replay_later_field(ctx, rep):
    import impl_session as S
    from props import c12
    r = rep["replay"]
    rig = S.Rig()
    try:
        snap = c12.setup_base(rig)
        rig.restore(snap)
        if r.get("prefix"):
            rig.run_session([b"".join(bytes.fromhex(f) for f in r["prefix"])], S.make_cert(), digests=False)
        res = rig.run_session([bytes.fromhex(r["frame"])], S.make_cert(), digests=False)
        obs = [o for o in c12.observe(rig, res) if o["k"] == "handled"]
        if len(obs) != 1 or obs[0]["obs"] is None:
            return True
        its = obs[0]["obs"]["items"]
        bad = any(i["status"] == "SUCCESS" for i in its) or not obs[0]["unchanged"]
        if bad:
            print("  answered %s, store unchanged: %s" % (its, obs[0]["unchanged"]))
        return not bad
    finally:
        rig.close()


# ------------------------------------------------------------------ versions of OVERLAPPING sessions
def concurrent_case(seed):
    from props import c10
    res = c10.case(seed)
    if not isinstance(res, tuple) or res[0] == "error":
        return {"fails": [], "n": 0, "error": str(res)[:300]}
    prefix, threads, outs, order, dump, waited, errs = res
    fails = []
    n = 0
    for t, (lines, os_) in enumerate(zip(threads, outs)):
        pairs = [(l, o) for l, o in zip(lines, os_) if isinstance(o, dict) and "exception" not in o]
        n += len(pairs)
        for sig, what, idx in mon_c16([l for l, _ in pairs], [o for _, o in pairs]):
            fails.append((sig + ":concurrent", "thread %d of %d client threads on one engine (versions %s): %s"
                          % (t, len(threads), [th[0]["req"]["version"] for th in threads if th], what)))
    return {"fails": fails, "n": n}


def concurrent_part(ctx):
    """client threads speaking DIFFERENT protocol versions on one engine at the same time (the threaded workloads of
    the C10 check, with yield points inside the engine): every request is gated, answered and its attributes listed
    under ITS OWN version - the version monitor of this check applied to each thread's conversation"""
    import multiprocessing
    n = 60 if ctx.tier == "quick" else 1500
    seeds = [ctx.seed * 4241 + 9000 + i for i in range(n)]
    with multiprocessing.get_context("fork").Pool(8) as pool:
        res = pool.map(concurrent_case, seeds)
    tot = 0
    for sd, r in zip(seeds, res):
        tot += r["n"]
        for sig, what in r["fails"][:2]:
            ctx.report(sig, what, {"kind": "concurrent-versions", "seed": sd})
    ctx.coverage["concurrent_version_workloads"] = n
    ctx.coverage["concurrent_version_requests"] = tot
    ctx.coverage["evaluations"] += tot


def search(ctx, broken):
    matrix = engine_check.run_many([ctx.seed * 31 + k for k in range(4)], 0, {"builtin_policies_only": True},
                                   True, "props.c16.matrix_builder")
    engine_check.report_monitor_failures(ctx, matrix, MONITORS)
    engine_check.standard_search(ctx, {"groups": 0.0}, MONITORS, 30)
    ctx.coverage.setdefault("evaluations", 0)
    session_part(ctx)
    later_field_part(ctx)


def replay(ctx, rep):
    if (rep.get("replay") or {}).get("kind") == "server-e2e":
        import e2e_hook
        return e2e_hook.replay(ctx, rep)
    if (rep.get("replay") or {}).get("kind") == "session-versions":
        return replay_session(ctx, rep)
    if (rep.get("replay") or {}).get("kind") == "concurrent-versions":
        bad = 0
        for _ in range(10):
            r = concurrent_case(rep["replay"]["seed"])
            bad += 1 if r["fails"] else 0
        print("  runs (of 10) with a request served under another session's version: %d" % bad)
        return bad == 0
    if (rep.get("replay") or {}).get("kind") == "encoding-option-probe":
        c2 = type(ctx)(ctx.pid, "quick", ctx.seed, None)
        encoding_option_probe(c2)
        return not [v for v in c2.violations] and not getattr(c2, "known", 0)
    if (rep.get("replay") or {}).get("kind") == "later-field":
        return replay_later_field(ctx, rep)
    if (rep.get("replay") or {}).get("kind") == "encode":
        import encode_check
        return encode_check.replay_case(ctx, rep)
    return engine_check.standard_replay(ctx, rep, MONITORS)
