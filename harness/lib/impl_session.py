"""
In-process driver of the real KmipSession (kmip/services/server/session.py) behind
a fake TLS connection, with a real KmipEngine on a temporary database behind it.

Nothing in /repo is edited; instrumentation is applied to INSTANCES from here:
  * engine.process_request is wrapped: every call records the identity argument,
    the outcome (returned triple / KmipError reason / other exception) and - through
    a wrapper of the returned message's `write` - the length the session encoded it to;
  * session._receive_request / _handle_message_loop are wrapped: per iteration the
    framed request, what was passed to connection.sendall, the exception that left the
    iteration (if any), the wall time, a digest of the database before and after;
  * `requests.get` as seen by the SLUGS connector is replaced by a table-driven fake.
"""
import copy
import datetime
import hashlib
import logging
import itertools
import os
import threading
import shutil
import sqlite3
import tempfile
import time
import warnings

warnings.filterwarnings("ignore")

from cryptography import x509  # noqa: E402
from cryptography.x509.oid import NameOID, ExtendedKeyUsageOID  # noqa: E402
from cryptography.hazmat.primitives import hashes, serialization  # noqa: E402
from cryptography.hazmat.primitives.asymmetric import ec  # noqa: E402

from kmip.core import enums, exceptions, utils  # noqa: E402
from kmip.core import policy as core_policy  # noqa: E402
from kmip.core.messages import contents, messages  # noqa: E402
from kmip.services.server import engine as engine_mod  # noqa: E402
from kmip.services.server import session as session_mod  # noqa: E402
from kmip.services.server.auth import slugs as slugs_mod  # noqa: E402


def quiet():
    logging.disable(logging.CRITICAL)


# ----------------------------------------------------------------- certificates
_KEY = None
_CERTS = {}
CN_SHAPES = {0: (), 1: ("alice",), 2: ("alice", "bob"), 3: ("adm", "admin")}
ONE_RDN = {3}            # shapes whose common names sit in ONE multi-valued RDN (CN=adm+CN=admin)
EKU_SHAPES = ("absent", "server", "client", "both", "near20", "nearchild", "nearmulti", "anyeku", "prefix")
# extended key usages that are NOT clientAuth (1.3.6.1.5.5.7.3.2) though their dotted text is close to it: longer last
# arc, a child arc, the parent arc, anyExtendedKeyUsage (which the property does not accept for "carries clientAuth")
NEAR_EKUS = {"near20": ["1.3.6.1.5.5.7.3.20"], "nearchild": ["1.3.6.1.5.5.7.3.2.1"],
             "nearmulti": ["1.3.6.1.5.5.7.3.1", "1.3.6.1.5.5.7.3.21", "1.3.6.1.5.5.7.3.4", "1.3.6.1.5.5.7.3.28"],
             "anyeku": ["2.5.29.37.0"], "prefix": ["1.3.6.1.5.5.7.3"]}


def _key():
    global _KEY
    if _KEY is None:
        _KEY = ec.generate_private_key(ec.SECP256R1())
    return _KEY


def make_cert(cns=("alice",), eku="client", serial=None, one_rdn=False):
    """DER certificate with the given subject common names (in order) and extended key usage shape; `serial` forces
    the serial number (two certificates of different issuers may carry the same one), `one_rdn` puts all common
    names into one multi-valued RDN."""
    k = (tuple(cns), eku, serial, one_rdn)
    if k in _CERTS:
        return _CERTS[k]
    key = _key()
    # one RDN per common name so that several CNs keep their order
    if one_rdn:
        rdns = [x509.RelativeDistinguishedName([x509.NameAttribute(NameOID.COMMON_NAME, c) for c in cns])]
    else:
        rdns = [x509.RelativeDistinguishedName([x509.NameAttribute(NameOID.COMMON_NAME, c)]) for c in cns]
    name = x509.Name(rdns + [x509.RelativeDistinguishedName([x509.NameAttribute(NameOID.ORGANIZATION_NAME, "verif")])])
    b = (x509.CertificateBuilder().subject_name(name).issuer_name(name).public_key(key.public_key())
         .serial_number(serial if serial is not None else 1000 + len(_CERTS)).not_valid_before(datetime.datetime(2020, 1, 1))
         .not_valid_after(datetime.datetime(2040, 1, 1)))
    if eku == "client":
        b = b.add_extension(x509.ExtendedKeyUsage([ExtendedKeyUsageOID.CLIENT_AUTH]), False)
    elif eku == "server":
        b = b.add_extension(x509.ExtendedKeyUsage([ExtendedKeyUsageOID.SERVER_AUTH]), False)
    elif eku == "both":
        b = b.add_extension(x509.ExtendedKeyUsage([ExtendedKeyUsageOID.SERVER_AUTH, ExtendedKeyUsageOID.CLIENT_AUTH]), False)
    elif eku in NEAR_EKUS:
        b = b.add_extension(x509.ExtendedKeyUsage([x509.ObjectIdentifier(o) for o in NEAR_EKUS[eku]]), False)
    elif eku != "absent":
        raise ValueError(eku)
    der = b.sign(key, hashes.SHA256()).public_bytes(serialization.Encoding.DER)
    _CERTS[k] = der
    return der


def cert_json(shape):
    """shape = None | {"cns": n, "eku": shape}  ->  the model's CERT object"""
    if shape is None:
        return None
    eku = {"absent": None, "server": ["other"], "client": ["client"], "both": ["other", "client"]}.get(shape["eku"])
    if shape["eku"] in NEAR_EKUS:
        eku = ["other"] * len(NEAR_EKUS[shape["eku"]])
    return {"eku": eku, "cns": list(CN_SHAPES[shape["cns"]])}


def cert_der(shape):
    if shape is None:
        return None
    return make_cert(CN_SHAPES[shape["cns"]], shape["eku"], one_rdn=shape["cns"] in ONE_RDN)


# ----------------------------------------------------------------- fake SLUGS
class FakeHttpResponse(object):
    def __init__(self, status, body):
        self.status_code = status
        self._body = body

    def json(self):
        if self._body == "invalid":
            raise ValueError("No JSON object could be decoded")
        return self._body


class FakeSlugs(object):
    """services: base url (with trailing slash) -> kind.
    kinds: ok:<g1,g2,..> | oknogroups | nouser | nogroups | down | users500 | badjson"""

    def __init__(self, services):
        self.services = dict(services)
        self.calls = []

    def get(self, url, timeout=None, **kw):
        self.calls.append(url)
        i = url.find("/users/")
        if i < 0:
            raise IOError("unreachable")
        base, rest = url[:i + 1], url[i + 7:]
        kind = self.services.get(base, "down")
        is_groups = rest.endswith("/groups")
        if kind == "down":
            raise IOError("connection refused")
        if kind == "nouser":
            return FakeHttpResponse(404, "invalid")
        if kind == "nogroups":
            return FakeHttpResponse(404 if is_groups else 200, "invalid")
        if kind == "users500":
            return FakeHttpResponse(200 if is_groups else 500, {"groups": ["g500"]})
        if kind == "badjson":
            return FakeHttpResponse(200, "invalid")
        if kind == "oknogroups":
            return FakeHttpResponse(200, {})
        if kind.startswith("ok:"):
            gs = [g for g in kind[3:].split(",") if g]
            return FakeHttpResponse(200, {"groups": gs})
        raise ValueError(kind)

    def model_rows(self, users=("alice", "bob")):
        """the model's SLUGS table for these services"""
        rows = []
        for base, kind in sorted(self.services.items()):
            for u in users:
                if kind == "down":
                    continue
                inv = "invalid"
                if kind == "nouser":
                    us, gs = {"k": "status", "code": 404, "body": inv}, {"k": "status", "code": 404, "body": inv}
                elif kind == "nogroups":
                    us, gs = {"k": "status", "code": 200, "body": inv}, {"k": "status", "code": 404, "body": inv}
                elif kind == "users500":
                    us, gs = {"k": "status", "code": 500, "body": inv}, \
                        {"k": "status", "code": 200, "body": {"groups": ["g500"]}}
                elif kind == "badjson":
                    us, gs = {"k": "status", "code": 200, "body": inv}, {"k": "status", "code": 200, "body": inv}
                elif kind == "oknogroups":
                    us, gs = {"k": "status", "code": 200, "body": inv}, \
                        {"k": "status", "code": 200, "body": {"groups": None}}
                else:
                    g = [x for x in kind[3:].split(",") if x]
                    us, gs = {"k": "status", "code": 200, "body": inv}, \
                        {"k": "status", "code": 200, "body": {"groups": g}}
                rows.append({"url": base, "user": u, "users": us, "groups": gs})
        return rows


class _RequestsShim(object):
    """stands in for the `requests` module inside kmip.services.server.auth.slugs"""

    def __init__(self, fake):
        self._fake = fake

    def get(self, url, **kw):
        return self._fake.get(url, **kw)


# ----------------------------------------------------------------- fake connection
SESSION_HANG_S = 60
SESSION_LIMIT_S = 1800
_SESSION_NO = itertools.count(1)


class FakeConn(object):
    """events: list of bytes (a segment), b'' (peer closed) or None (recv returns None).
    After the last event recv returns b'' for ever."""

    def __init__(self, events, der, handshake_ok=True):
        self.events = list(events)
        self.der = der
        self.handshake_ok = handshake_ok
        self.out = []
        self.recv_sizes = []
        self.closed = False

    def do_handshake(self):
        if not self.handshake_ok:
            raise IOError("handshake failure")

    def getpeercert(self, binary_form=False):
        return self.der

    def shared_ciphers(self):
        return None

    def cipher(self):
        return ("TLS_FAKE", "TLSv1.2", 256)

    def recv(self, n):
        self.recv_sizes.append(n)
        if not self.events:
            return b""
        e = self.events[0]
        if e is None:
            self.events.pop(0)
            return None
        if len(e) <= n:
            self.events.pop(0)
            return e
        self.events[0] = e[n:]
        return e[:n]

    def sendall(self, b):
        self.out.append(bytes(b))

    def shutdown(self, how):
        pass

    def close(self):
        self.closed = True

    def fileno(self):
        """as the operating system does it: a closed socket reports -1, and the next connection a server accepts
        gets the lowest free descriptor number - the one the previous connection just gave back"""
        return -1 if self.closed else 9


# ----------------------------------------------------------------- store digest
def dump_store(db_path):
    """every row of every table of the SQLite file, as a digest + row count (committed state)"""
    h = hashlib.sha256()
    n = 0
    con = sqlite3.connect("file:%s?mode=ro" % db_path, uri=True)
    try:
        names = [r[0] for r in con.execute("select name from sqlite_master where type='table' order by name")]
        for t in names:
            h.update(t.encode())
            rows = con.execute('select * from "%s"' % t).fetchall()
            for r in sorted(repr(x) for x in rows):
                h.update(r.encode())
                n += 1
    finally:
        con.close()
    return "%s/%d" % (h.hexdigest()[:24], n)


# ----------------------------------------------------------------- the rig
class Rig(object):
    """one real engine on a temp database; any number of sessions on it"""

    def __init__(self, workdir=None):
        quiet()
        import keygen_cap
        keygen_cap.install()
        self.dir = tempfile.mkdtemp(prefix="vsess", dir=workdir)
        self.db = os.path.join(self.dir, "db.sqlite")
        self.engine = engine_mod.KmipEngine(policies=copy.deepcopy(core_policy.policies), database_path=self.db)
        self.calls = []          # engine calls of the current session run
        self._orig = self.engine.process_request
        rig = self

        def recording(request, credential=None):
            rec = {"identity": credential, "len": None}
            rig.calls.append(rec)
            try:
                res = rig._orig(request, credential)
            except exceptions.KmipError as e:
                rec["out"] = {"k": "kmip", "reason": e.reason.value, "msg": str(e)[:200]}
                raise
            except Exception as e:
                rec["out"] = {"k": "other", "exc": type(e).__name__, "msg": str(e)[:200]}
                raise
            response, max_size, version = res
            rec["out"] = {"k": "ok", "max": max_size, "ver": [version.major, version.minor]}
            orig_write = response.write

            def write(stream, kmip_version=enums.KMIPVersion.KMIP_1_0):
                before = len(stream)
                try:
                    r = orig_write(stream, kmip_version=kmip_version)
                except BaseException as e:
                    rec["write_raised"] = type(e).__name__
                    raise
                rec["len"] = len(stream) - before
                return r
            response.write = write
            return res
        self.engine.process_request = recording

    def close(self):
        if getattr(self, "_parked", None) is not None:
            self._parked.set()
        try:
            self.engine._data_store.dispose()
        except Exception:
            pass
        shutil.rmtree(self.dir, ignore_errors=True)

    def snapshot(self):
        self.engine._data_store.dispose()
        with open(self.db, "rb") as f:
            return f.read()

    def restore(self, snap):
        self.engine._data_store.dispose()
        for ext in ("-journal", "-wal", "-shm"):
            try:
                os.remove(self.db + ext)
            except OSError:
                pass
        with open(self.db, "wb") as f:
            f.write(snap)

    def digest(self):
        return dump_store(self.db)

    @property
    def default_version(self):
        v = self.engine.default_protocol_version
        return [v.major, v.minor]

    def run_session(self, events, cert, tls=True, auth_settings=None, slugs=None, handshake_ok=True,
                    digests=True, max_iterations=100000):
        """Run KmipSession.run() to completion on a fake connection.
        Returns {"iterations":[...], "out":[bytes], "run_escaped": exc name|None, "max_response_size": n}."""
        conn = FakeConn(events, cert, handshake_ok)
        sess = session_mod.KmipSession(self.engine, conn, ("192.0.2.7", 40000), name="verif",
                                       enable_tls_client_auth=tls, auth_settings=auth_settings)
        self.calls = []
        its = []
        orig_loop = sess._handle_message_loop
        orig_recv_req = sess._receive_request
        cur = {}
        rig = self

        def recv_req():
            try:
                data = orig_recv_req()
            except BaseException as e:
                cur["recv_exc"] = type(e).__name__
                raise
            cur["frame"] = bytes(data.buffer)
            return data

        def loop():
            if len(its) >= max_iterations:
                raise exceptions.ConnectionClosed()
            cur.clear()
            cur.update({"frame": None, "recv_exc": None, "escaped": None, "escaped_msg": None})
            n_out, n_calls = len(conn.out), len(rig.calls)
            before = rig.digest() if digests else None
            t0 = time.perf_counter()
            try:
                orig_loop()
            except exceptions.ConnectionClosed:
                cur["escaped"] = "ConnectionClosed"
                raise
            except BaseException as e:
                import traceback
                fr = [f for f in traceback.extract_tb(e.__traceback__) if "/kmip/" in f.filename]
                site = "%s:%s" % (os.path.basename(fr[-1].filename), fr[-1].name) if fr else "?"
                cur["escaped"] = "%s@%s" % (type(e).__name__, site)
                cur["escaped_msg"] = str(e)[:300]
                raise
            finally:
                rec = dict(cur)
                rec["dt"] = time.perf_counter() - t0
                rec["sent"] = conn.out[n_out:]
                rec["calls"] = rig.calls[n_calls:]
                rec["before"] = before
                rec["after"] = rig.digest() if digests else None
                its.append(rec)
        sess._receive_request = recv_req
        sess._handle_message_loop = loop
        saved_requests = slugs_mod.requests
        slugs_mod.requests = _RequestsShim(slugs if slugs is not None else FakeSlugs({}))
        escaped = None
        box = {}

        done, park = threading.Event(), threading.Event()

        def body():
            try:
                sess.run()
            except BaseException as e:      # nothing may leave run()
                box["escaped"] = "%s: %s" % (type(e).__name__, str(e)[:200])
            finally:
                done.set()
                # the thread stays alive until the NEXT session of this rig has started (or the rig is closed): the
                # operating system hands the identifier of a finished thread to the next one it starts, and a
                # re-entrant lock a session never gave back would then look as if the new session owned it
                park.wait(600)
        try:
            if getattr(self, "poisoned", None):
                escaped = self.poisoned
            else:
                # as KmipServer does it: every session is a THREAD of its own (what a session thread keeps - a lock
                # it never gave back, thread-local state - meets the next session from another thread)
                th = threading.Thread(target=body, name="verif-session-%d" % next(_SESSION_NO), daemon=True)
                th.start()
                prev = getattr(self, "_parked", None)
                if prev is not None:
                    prev.set()
                self._parked = park
                # hung = alive and NO progress (no byte received, nothing sent, no iteration finished) for
                # SESSION_HANG_S seconds - a slow machine makes progress slowly, a blocked thread makes none
                # (computing counts as progress too: decoding a 2 MB frame byte by byte on a loaded machine sends and
                # receives nothing for minutes - thorough-tier false alarm of round 10 - so CPU time consumed by this
                # process, whose other threads wait, is part of the mark; a session that computes for ever is caught by
                # the absolute limit)
                mark, since, t0 = None, time.time(), time.time()
                while True:
                    done.wait(2)
                    if done.is_set():
                        break
                    now_mark = (len(conn.recv_sizes), len(conn.out), len(its), int(time.process_time() / 3))
                    if now_mark != mark:
                        mark, since = now_mark, time.time()
                    elif time.time() - since > SESSION_HANG_S:
                        break
                    if time.time() - t0 > SESSION_LIMIT_S:
                        break
                if not done.is_set():
                    escaped = "SessionHung: the session thread made no progress for %d s (frames answered so far: %d)" \
                        % (SESSION_HANG_S, len([i for i in its if i.get("sent")]))
                    # whatever it waits for is gone for every later session of this rig
                    self.poisoned = "SessionHung: an earlier session of this server still blocks"
                else:
                    escaped = box.get("escaped")
        finally:
            slugs_mod.requests = saved_requests
        return {"iterations": its, "out": list(conn.out), "run_escaped": escaped, "closed": conn.closed,
                "recv_sizes": conn.recv_sizes, "leftover": sum(1 + len(e or b"") for e in conn.events),
                "max_response_size": sess._max_response_size,
                "max_buffer_size": sess._max_buffer_size}

    def receive_bytes(self, size, events):
        """KmipSession._receive_bytes(size) alone; returns (kind, bytes, remaining events)"""
        conn = FakeConn(events, None)
        sess = session_mod.KmipSession(self.engine, conn, ("192.0.2.7", 40000), name="verif")
        try:
            b = sess._receive_bytes(size)
            return "ok", bytes(b), list(conn.events)
        except exceptions.ConnectionClosed:
            return "closed", None, list(conn.events)
        except ValueError:
            return "short", None, list(conn.events)


# ----------------------------------------------------------------- decoding helpers
def parse_verdict(frame, default_version):
    """The real decoder run separately, exactly as the session calls it.  Returns [maj, min] or None."""
    kv = contents.protocol_version_to_kmip_version(contents.ProtocolVersion(*default_version))
    m = messages.RequestMessage()
    try:
        m.read(utils.BytearrayStream(frame), kmip_version=kv)
    except Exception:
        return None
    v = m.request_header.protocol_version
    return [v.major, v.minor]


SUPPORTED = {(1, 0), (1, 1), (1, 2), (1, 3), (1, 4), (2, 0)}


def ttlv_walk(b, depth=0):
    """strict generic TTLV well-formedness (KMIP 9.1), independent of the library's decoder.
    Returns the list of (tag, type, value|children) or raises ValueError."""
    items = []
    i = 0
    while i < len(b):
        if len(b) - i < 8:
            raise ValueError("truncated item header at %d" % i)
        tag = int.from_bytes(b[i:i + 3], "big")
        typ = b[i + 3]
        ln = int.from_bytes(b[i + 4:i + 8], "big")
        if not (0x420000 <= tag <= 0x42FFFF or 0x540000 <= tag <= 0x54FFFF):
            raise ValueError("bad tag %06x" % tag)
        fixed = {2: 4, 3: 8, 5: 4, 6: 8, 9: 8, 10: 4}
        if typ not in (1, 2, 3, 4, 5, 6, 7, 8, 9, 10):
            raise ValueError("bad type %d" % typ)
        if typ in fixed and ln != fixed[typ]:
            raise ValueError("type %d with length %d" % (typ, ln))
        if typ == 4 and (ln % 8 != 0 or ln == 0):
            raise ValueError("big integer length %d" % ln)
        pad = (8 - ln % 8) % 8
        if i + 8 + ln + pad > len(b):
            raise ValueError("item at %d overruns its container" % i)
        val = b[i + 8:i + 8 + ln]
        if any(b[i + 8 + ln:i + 8 + ln + pad]):
            raise ValueError("non-zero padding")
        if typ == 1:
            if ln % 8:
                raise ValueError("structure length not a multiple of 8")
            val = ttlv_walk(val, depth + 1)
        elif typ == 6 and int.from_bytes(val, "big") not in (0, 1):
            raise ValueError("boolean value")
        items.append((tag, typ, val))
        i += 8 + ln + pad
    return items


def primitive_overrun(b):
    """Does some primitive item declare more value / padding bytes than its container still holds?  Then its
    value is simply not in the frame and no decoder can have decoded it (independent of the library's decoder;
    structure lengths are followed leniently: a structure is given what is left of its container)."""
    i = 0
    while i + 8 <= len(b):
        typ = b[i + 3]
        ln = int.from_bytes(b[i + 4:i + 8], "big")
        pad = (8 - ln % 8) % 8
        if typ == 1:
            if primitive_overrun(b[i + 8:i + 8 + ln]):
                return True
        elif i + 8 + ln + pad > len(b):
            return True
        i += 8 + ln + pad
    return False


def decode_response(raw, default_version):
    """-> observation dict of a response, or raises.  Decoded by the library's ResponseMessage.read under the
    session's default version; when the header echoes a version the library knows nothing about (possible only
    for batch-less requests), the two version integers are patched to the default before decoding."""
    top = ttlv_walk(raw)
    if len(top) != 1 or top[0][0] != 0x42007B or top[0][1] != 1:
        raise ValueError("not exactly one Response Message structure")
    hdr = [x for x in top[0][2] if x[0] == 0x42007A]
    if len(hdr) != 1:
        raise ValueError("response header missing")
    pv = [x for x in hdr[0][2] if x[0] == 0x420069]
    if len(pv) != 1:
        raise ValueError("protocol version missing")
    maj = [x for x in pv[0][2] if x[0] == 0x42006A]
    mnr = [x for x in pv[0][2] if x[0] == 0x42006B]
    if len(maj) != 1 or len(mnr) != 1:
        raise ValueError("protocol version incomplete")
    ver = (int.from_bytes(maj[0][2], "big"), int.from_bytes(mnr[0][2], "big"))
    data = raw
    if ver not in SUPPORTED:
        # the version fields are the first two integers of the message: fixed offsets 8+8+8 .. (msg, header, pv)
        data = bytearray(raw)
        off = 24
        assert data[off:off + 3] == b"\x42\x00\x6a" and data[off + 16:off + 19] == b"\x42\x00\x6b"
        data[off + 8:off + 12] = default_version[0].to_bytes(4, "big")
        data[off + 24:off + 28] = default_version[1].to_bytes(4, "big")
        data = bytes(data)
    kv = contents.protocol_version_to_kmip_version(contents.ProtocolVersion(*default_version))
    m = messages.ResponseMessage()
    m.read(utils.BytearrayStream(data), kmip_version=kv)
    items = []
    for bi in m.batch_items:
        items.append({
            "op": None if bi.operation is None else bi.operation.value.name,
            "status": bi.result_status.value.name,
            "reason": None if bi.result_reason is None else bi.result_reason.value.name,
            "msg": None if bi.result_message is None else bi.result_message.value,
            "payload": None if bi.response_payload is None else type(bi.response_payload).__name__})
    if m.response_header.batch_count.value != len(m.batch_items):
        raise ValueError("batch count does not match the number of items")
    return {"ver": [ver[0], ver[1]], "items": items, "len": len(raw)}


def is_error(obs, reason):
    return len(obs["items"]) == 1 and obs["items"][0]["status"] == "OPERATION_FAILED" \
        and obs["items"][0]["reason"] == reason and obs["items"][0]["op"] is None


def sent_obs(obs):
    """implementation response -> the model's SENT object (for comparison with the driver output)"""
    it = obs["items"]
    if len(it) == 1 and it[0]["op"] is None and it[0]["status"] == "OPERATION_FAILED" and it[0]["payload"] is None:
        return {"k": "error", "ver": obs["ver"], "reason": enums.ResultReason[it[0]["reason"]].value}
    return {"k": "normal", "len": obs["len"]}


def identity_json(cred):
    if cred is None:
        return None
    user, groups = cred[0], cred[1]
    return {"user": user, "groups": None if groups is None else list(groups)}


def hexs(events):
    return [None if e is None else e.hex() for e in events]
