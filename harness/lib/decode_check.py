"""
Correspondence of M14 (lean/KmipModel/Decode.lean, Drivers/Decode.lean) with the real request decoder
(`kmip.core.messages.messages.RequestMessage.read`, as the session calls it) — part of C13.

  run_decode(ctx) -> dict of coverage numbers (it calls ctx.report itself)

Inputs: valid requests for every operation x version (gen_session.SessGen.valid over gen_engine.Gen items),
multi-item requests of gen_engine.Gen.request, the mutation classes of SessGen.mutate (incl. cutvalue), raw random
frames, hand-made frames for the lenient corners (trailing bytes where no reader looks, Boolean with a wrong
length, attribute names in other spellings, credentials, message extension, 2.0 attribute references).

Checks:
  (pin) the static tables of KmipModel/DecodeTables.lean equal the live kmip.core.enums
  (a)   verdict: the real decoder accepts <=> the model accepts             (unmodelled inputs are counted, never
        compared)
  (b)   both accept: abstract_request(real message) == the model's `req`; first differing field reported
  (c)   every decoded item has wtd = true (theorem decode_wellTyped); wt = false only for a negative
        Cryptographic Length (the hypothesis that remains)
  (m)   MONITOR, implementation only: a frame the real decoder accepts is processed by the real engine (sane
        backend) without General Failure  ->  c13:decoded-request-general-failure:<op>:<exc>
A divergence of (pin)/(a)/(b)/(c) alone is reported with no_input=True (correspondence), as BUILDER_GUIDE says.
"""
import json
import logging
import os
import random
import sys
import time
import warnings

warnings.filterwarnings("ignore")
HERE = os.path.dirname(os.path.abspath(__file__))
sys.path.insert(0, HERE)

import gen_engine  # noqa: E402
import gen_session  # noqa: E402
import impl_engine  # noqa: E402
from kmip.core import enums, exceptions, utils, secrets, primitives  # noqa: E402
from kmip.core import objects as cobjects  # noqa: E402
from kmip.core.messages import contents, messages  # noqa: E402

OPS = ["create", "createKeyPair", "register", "deriveKey", "locate", "get", "getAttributes", "getAttributeList",
       "activate", "revoke", "destroy", "query", "discoverVersions", "encrypt", "decrypt", "sign", "signatureVerify",
       "mac", "setAttribute", "modifyAttribute", "deleteAttribute"]
OPNAME = {enums.Operation.CREATE: "create", enums.Operation.CREATE_KEY_PAIR: "createKeyPair",
          enums.Operation.REGISTER: "register", enums.Operation.DERIVE_KEY: "deriveKey",
          enums.Operation.LOCATE: "locate", enums.Operation.GET: "get", enums.Operation.GET_ATTRIBUTES: "getAttributes",
          enums.Operation.GET_ATTRIBUTE_LIST: "getAttributeList", enums.Operation.ACTIVATE: "activate",
          enums.Operation.REVOKE: "revoke", enums.Operation.DESTROY: "destroy", enums.Operation.QUERY: "query",
          enums.Operation.DISCOVER_VERSIONS: "discoverVersions", enums.Operation.ENCRYPT: "encrypt",
          enums.Operation.DECRYPT: "decrypt", enums.Operation.SIGN: "sign",
          enums.Operation.SIGNATURE_VERIFY: "signatureVerify", enums.Operation.MAC: "mac",
          enums.Operation.SET_ATTRIBUTE: "setAttribute", enums.Operation.MODIFY_ATTRIBUTE: "modifyAttribute",
          enums.Operation.DELETE_ATTRIBUTE: "deleteAttribute"}
MUTATIONS = ["truncate", "inflate", "deflate", "type", "tag", "nest", "count", "version", "version0", "flip",
             "trailing", "textlen", "cutvalue", "emptystring", "emptystring"]
KNOWN_VERSIONS = {(1, 0), (1, 1), (1, 2), (1, 3), (1, 4), (2, 0)}


# ------------------------------------------------------------------ the real decoder
def real_decode(frame, default_version=(1, 2)):
    """exactly `impl_session.parse_verdict`, but the message is kept"""
    kv = contents.protocol_version_to_kmip_version(contents.ProtocolVersion(*default_version))
    m = messages.RequestMessage()
    try:
        m.read(utils.BytearrayStream(frame), kmip_version=kv)
    except Exception as e:
        return None, type(e).__name__
    return m, None


# ------------------------------------------------------------------ abstraction of a real message
def _val(x):
    """value of a primitive-or-plain field"""
    if x is None:
        return None
    return x.value if hasattr(x, "value") and not isinstance(x, (str, bytes, int)) else x


def _enum(x):
    x = _val(x)
    return None if x is None else (x.value if hasattr(x, "value") else x)


def abs_template(t):
    if t is None:
        return None
    return {"tnames": len(t.names), "attrs": [impl_engine.tattr_of(a) for a in t.attributes]}


def abs_attr20(holder):
    """CurrentAttribute / NewAttribute -> TAttr (the attribute primitive carries its own tag)"""
    if holder is None:
        return None
    v = holder.attribute
    name = enums.convert_attribute_tag_to_name(v.tag)
    return {"name": name, "index": None, "value": impl_engine.aval_of(name, v)}


def abs_keyblock(otype, subtype, kb):
    km = kb.key_value.key_material
    ln = _val(kb.cryptographic_length)
    return {"otype": otype, "value": bytes(km.value).hex(), "alg": _enum(kb.cryptographic_algorithm), "len": ln,
            "format": _enum(kb.key_format_type), "subtype": subtype}


def abs_secret(s):
    if s is None:
        return None
    if isinstance(s, secrets.Certificate):
        return {"otype": 1, "value": s.certificate_value.value.hex(), "alg": None, "len": None, "format": None,
                "subtype": _enum(s.certificate_type)}
    if isinstance(s, secrets.SymmetricKey):
        return abs_keyblock(2, None, s.key_block)
    if isinstance(s, secrets.PublicKey):
        return abs_keyblock(3, None, s.key_block)
    if isinstance(s, secrets.PrivateKey):
        return abs_keyblock(4, None, s.key_block)
    if isinstance(s, secrets.SplitKey):
        return abs_keyblock(5, None, s.key_block)
    if isinstance(s, secrets.Template):
        return {"otype": 6, "value": "", "alg": None, "len": None, "format": None, "subtype": None}
    if isinstance(s, secrets.SecretData):
        return abs_keyblock(7, _enum(s.secret_data_type), s.key_block)
    if isinstance(s, secrets.OpaqueObject):
        return {"otype": 8, "value": s.opaque_data_value.value.hex(), "alg": None, "len": None, "format": None,
                "subtype": _enum(s.opaque_data_type)}
    raise ValueError("secret %r" % s)


def abs_wrap(w):
    if w is None:
        return None
    eki = w.encryption_key_information
    mki = w.mac_signature_key_information
    return {"method": _enum(w.wrapping_method), "enckey": None if eki is None else eki.unique_identifier,
            "encparams": eki is not None and eki.cryptographic_parameters is not None, "mackey": mki is not None,
            "attrnames": len(w.attribute_names or []), "encoding": _enum(w.encoding_option)}


def abs_payload(op, p):
    O = enums.Operation
    uid = _val(getattr(p, "unique_identifier", None))
    if op == O.CREATE:
        return {"op": "create", "otype": _enum(p.object_type), "tmpl": abs_template(p.template_attribute)}
    if op == O.CREATE_KEY_PAIR:
        return {"op": "createKeyPair", "common": abs_template(p.common_template_attribute),
                "priv": abs_template(p.private_key_template_attribute),
                "pub": abs_template(p.public_key_template_attribute)}
    if op == O.REGISTER:
        return {"op": "register", "otype": _enum(p.object_type), "tmpl": abs_template(p.template_attribute),
                "obj": abs_secret(p.managed_object)}
    if op == O.DERIVE_KEY:
        dd = p.derivation_parameters.derivation_data
        return {"op": "deriveKey", "otype": _enum(p.object_type), "uids": [_val(u) for u in p.unique_identifiers],
                "tmpl": abs_template(p.template_attribute), "ddata": dd is not None, "dlen": len(dd or b"")}
    if op == O.LOCATE:
        return {"op": "locate", "max": p.maximum_items, "offset": p.offset_items,
                "attrs": [impl_engine.tattr_of(a) for a in p.attributes]}
    if op == O.GET:
        return {"op": "get", "uid": uid, "format": _enum(p.key_format_type),
                "compression": p.key_compression_type is not None, "wrap": abs_wrap(p.key_wrapping_specification)}
    if op == O.GET_ATTRIBUTES:
        return {"op": "getAttributes", "uid": uid, "names": [_val(n) for n in (p.attribute_names or [])]}
    if op == O.GET_ATTRIBUTE_LIST:
        return {"op": "getAttributeList", "uid": uid}
    if op == O.ACTIVATE:
        return {"op": "activate", "uid": uid}
    if op == O.REVOKE:
        return {"op": "revoke", "uid": uid, "code": _enum(p.revocation_reason.revocation_code)}
    if op == O.DESTROY:
        return {"op": "destroy", "uid": uid}
    if op == O.QUERY:
        return {"op": "query", "functions": [_enum(f) for f in p.query_functions]}
    if op == O.DISCOVER_VERSIONS:
        return {"op": "discoverVersions", "versions": [10 * v.major + v.minor for v in p.protocol_versions]}
    if op in (O.ENCRYPT, O.DECRYPT, O.SIGN, O.SIGNATURE_VERIFY):
        return {"op": OPNAME[op], "uid": uid, "params": p.cryptographic_parameters is not None}
    if op == O.MAC:
        cp = p.cryptographic_parameters
        return {"op": "mac", "uid": uid, "alg": None if cp is None else _enum(cp.cryptographic_algorithm),
                "data": p.data is not None}
    if op == O.SET_ATTRIBUTE:
        return {"op": "setAttribute", "uid": uid, "attr": abs_attr20(p.new_attribute)}
    if op == O.MODIFY_ATTRIBUTE:
        return {"op": "modifyAttribute", "uid": uid, "attr": impl_engine.tattr_of(p.attribute),
                "current": abs_attr20(p.current_attribute), "new": abs_attr20(p.new_attribute)}
    if op == O.DELETE_ATTRIBUTE:
        ref = p.attribute_reference
        return {"op": "deleteAttribute", "uid": uid, "name": p.attribute_name, "index": p.attribute_index,
                "current": abs_attr20(p.current_attribute), "reference": None if ref is None else ref.attribute_name}
    return {"op": "unsupported", "code": op.value}


def abstract_request(msg):
    """RequestMessage -> the JSON form of the engine model's Request (inverse of impl_engine.build_request)"""
    h = msg.request_header
    pv = h.protocol_version
    items = []
    for bi in msg.batch_items:
        it = abs_payload(bi.operation.value, bi.request_payload)
        bid = bi.unique_batch_item_id
        it["bid"] = None if bid is None else bid.value.decode("utf-8")
        it["crypto"] = None
        items.append(it)
    return {"version": 10 * pv.major + pv.minor if (pv.major, pv.minor) in KNOWN_VERSIONS else 0,
            "ts": _val(h.time_stamp), "async": _val(h.asynchronous_indicator),
            "bopt": _enum(h.batch_error_cont_option), "maxsize": _val(h.maximum_response_size), "items": items}


def first_difference(a, b, path="req"):
    if type(a) != type(b) and not (isinstance(a, (int, float)) and isinstance(b, (int, float))
                                   and not isinstance(a, bool) and not isinstance(b, bool)):
        return "%s: %r vs %r" % (path, a, b)
    if isinstance(a, dict):
        for k in sorted(set(a) | set(b)):
            if k not in a or k not in b:
                return "%s.%s: %s" % (path, k, "only in model" if k in b else "only in implementation")
            d = first_difference(a[k], b[k], path + "." + k)
            if d:
                return d
        return None
    if isinstance(a, list):
        if len(a) != len(b):
            return "%s: %d vs %d elements" % (path, len(a), len(b))
        for i, (x, y) in enumerate(zip(a, b)):
            d = first_difference(x, y, "%s[%d]" % (path, i))
            if d:
                return d
        return None
    return None if a == b else "%s: %r vs %r" % (path, a, b)


# ------------------------------------------------------------------ the engine behind the decoder (monitor)
class SaneCrypto(object):
    """A backend that answers every call with bytes of the size asked for, or with a KMIP error: the oracle
    hypotheses of C13.no_internal_error (FitsCreate, IsPair, IsBytes, Token, Sane)."""

    def create_symmetric_key(self, algorithm, length):
        if not isinstance(length, int) or length <= 0 or length % 8 or length > 1 << 16:
            raise exceptions.InvalidField("scripted: length not supported")
        return {"value": bytes((i * 7 + 1) & 0xFF for i in range(length // 8)), "format": enums.KeyFormatType.RAW}

    def create_asymmetric_key_pair(self, algorithm, length):
        if not isinstance(length, int) or length <= 0 or length > 1 << 16:
            raise exceptions.InvalidField("scripted: length not supported")
        return ({"value": b"\x30\x82pub", "format": enums.KeyFormatType.PKCS_1},
                {"value": b"\x30\x82priv", "format": enums.KeyFormatType.PKCS_8})

    def derive_key(self, **kw):
        n = kw.get("derivation_length")
        if not isinstance(n, int) or n <= 0 or n > 1 << 16:
            raise exceptions.InvalidField("scripted: length not supported")
        return bytes((i * 5 + 3) & 0xFF for i in range(n))

    def wrap_key(self, *a, **kw):
        return b"wrapped-key-bytes-0123456789"

    def encrypt(self, *a, **kw):
        return {"cipher_text": b"ciphertext-bytes", "iv_nonce": None, "auth_tag": None}

    def decrypt(self, *a, **kw):
        return b"plain-text-bytes"

    def sign(self, *a, **kw):
        return b"signature-bytes"

    def verify_signature(self, *a, **kw):
        return True

    def mac(self, *a, **kw):
        return b"mac-bytes"


class EngineMonitor(object):
    """the real KmipEngine with a sane backend and a small store; requests are real decoded messages"""

    def __init__(self):
        self.ie = impl_engine.ImplEngine(scripted_crypto=True)
        self.ie.engine._cryptography_engine = SaneCrypto()
        self.count = 0
        self._seed()

    def _seed(self):
        tm = gen_session.aes_template
        for i in range(3):
            req = gen_session.mkreq(12, [{"op": "create", "bid": None, "crypto": None, "otype": 2,
                                          "tmpl": tm(256, "key%d" % i)}])
            self.process(impl_engine.build_request(req))
        self.process(impl_engine.build_request(gen_session.mkreq(12, [gen_session.big_register(12, 16)])))

    def process(self, msg):
        """-> list of (operation name, exception class, site) for items answered General Failure; or a string for
        an exception that escaped process_request other than the KMIP ones the session answers"""
        ie = self.ie
        impl_engine._CURRENT[0] = ie
        ie.internal_errors = []
        ie._scripts = []
        ie._item = -1
        self.count += 1
        if self.count % 400 == 0:
            ie.reset()
            ie.engine._cryptography_engine = SaneCrypto()
            self._seed()
        try:
            resp, _, _ = ie.engine.process_request(msg, ("alice", None))
        except exceptions.KmipError:
            return []
        except Exception as e:                                   # the session would not answer this
            return [("request", type(e).__name__, "process_request: %s" % str(e)[:120])]
        bad = []
        errs = list(ie.internal_errors)
        for bi in resp.batch_items:
            if bi.result_status.value != enums.ResultStatus.SUCCESS and bi.result_reason is not None and \
                    bi.result_reason.value == enums.ResultReason.GENERAL_FAILURE:
                e = errs.pop(0) if errs else {"exc": "?", "site": "?", "msg": ""}
                op = OPNAME.get(bi.operation.value, str(bi.operation.value.value)) if bi.operation is not None else "?"
                bad.append((op, e["exc"], "%s %s" % (e["site"], e["msg"])))
        return bad

    def close(self):
        self.ie.close()


# ------------------------------------------------------------------ inputs
def hand_made():
    """frames for the lenient corners of the readers (each is a mutation of a repo-encoded request)"""
    out = []
    g = gen_session
    T = {"name": "Cryptographic Length", "index": None, "value": {"k": "int", "v": 128}}

    def enc(req):
        return g.encode_request(req)

    def item(op, **kw):
        d = {"op": op, "bid": None, "crypto": None}
        d.update(kw)
        return d

    locate = enc(g.mkreq(12, [item("locate", max=3, offset=None, attrs=[T])]))
    sign = enc(g.mkreq(12, [item("sign", uid="1", params=False)]))
    get = enc(g.mkreq(12, [item("get", uid="1", format=None, compression=False, wrap=None)]))

    def grow(frame, extra, depth_tags):
        """append `extra` inside the innermost structure named by the tag path (lengths made consistent)"""
        idx = g.ttlv_index(frame)
        b = bytearray(frame)
        path = []
        lo, hi = 0, len(frame)
        for tag in depth_tags:
            e = next(x for x in idx if x["tag"] == tag and lo <= x["off"] < hi)
            path.append(e)
            lo, hi = e["off"] + 8, e["end"]
        pos = path[-1]["end"]
        b[pos:pos] = extra
        for e in path:
            ln = int.from_bytes(b[e["off"] + 4:e["off"] + 8], "big") + len(extra)
            b[e["off"] + 4:e["off"] + 8] = ln.to_bytes(4, "big")
        b[4:8] = (len(b) - 8).to_bytes(4, "big")
        return bytes(b)

    junk = [b"\x01", b"\xde\xad\xbe\xef" * 3, b"\x42\x00\x08\x01\x00\x00\x00\x00", b"\x42\x00\x0a\x07\x00\x00\x00\x01"]
    for j in junk:
        for fr, nm in ((locate, "locate"), (sign, "sign"), (get, "get")):
            out.append((grow(fr, j, [0x420078, 0x42000F, 0x420079]), {"class": "hand:payload-trailing", "ops": [nm]}))
            out.append((fr + j, {"class": "hand:frame-trailing", "ops": [nm]}))
            out.append((grow(fr, j, [0x420078, 0x42000F]), {"class": "hand:item-trailing", "ops": [nm]}))
    # the declared length of the message is not looked at
    for ln in (0, 8, 0xFFFFFFFF):
        b = bytearray(get)
        b[4:8] = ln.to_bytes(4, "big")
        out.append((bytes(b), {"class": "hand:outer-length", "ops": ["get"]}))
    # Boolean with a wrong declared length (asynchronous indicator)
    req = g.mkreq(12, [item("query", functions=[1])])
    req["async"] = False
    fr = enc(req)
    idx = g.ttlv_index(fr)
    e = next(x for x in idx if x["tag"] == 0x420007)
    for ln in (0, 4, 9, 0x7FFFFFFF):
        b = bytearray(fr)
        b[e["off"] + 4:e["off"] + 8] = ln.to_bytes(4, "big")
        out.append((bytes(b), {"class": "hand:boolean-length", "ops": ["query"]}))
    # attribute names in other spellings / unsupported / custom / unknown / non-ASCII
    for nm in ["cryptographic length", "CRYPTOGRAPHIC.LENGTH", "Cryptographic_Length", "x-custom", "X-custom", "Link",
               "Digest", "Usage Limits", "Nonsense", "Alternative Name", "Always Sensitive", "ſtate",
               "Proceß Start Date", "Custom Attribute", "Contact Information", "Lease Time", ""]:
        for op in ("locate", "modifyAttribute"):
            base = enc(g.mkreq(12, [item("locate", max=None, offset=None, attrs=[T])]) if op == "locate" else
                       g.mkreq(12, [item("modifyAttribute", uid="1", attr=T, current=None, new=None)]))
            idx = g.ttlv_index(base)
            e = next(x for x in idx if x["tag"] == 0x42000A)
            raw = nm.encode("utf-8")
            new = b"\x42\x00\x0a\x07" + len(raw).to_bytes(4, "big") + raw + b"\x00" * ((8 - len(raw) % 8) % 8)
            b = bytes(base[:e["off"]]) + new + bytes(base[e["end"]:])
            # fix the lengths of the enclosing structures
            delta = len(new) - (e["end"] - e["off"])
            bb = bytearray(b)
            for a in idx:
                if a["type"] == 1 and a["off"] < e["off"] < a["end"]:
                    ln = int.from_bytes(base[a["off"] + 4:a["off"] + 8], "big") + delta
                    bb[a["off"] + 4:a["off"] + 8] = ln.to_bytes(4, "big")
            out.append((bytes(bb), {"class": "hand:attribute-name", "ops": [op]}))
    # authentication, message extension
    from kmip.core import objects as ob
    for cred in [ob.Credential(enums.CredentialType.USERNAME_AND_PASSWORD, ob.UsernamePasswordCredential("u", "p")),
                 ob.Credential(enums.CredentialType.USERNAME_AND_PASSWORD, ob.UsernamePasswordCredential("u")),
                 ob.Credential(enums.CredentialType.DEVICE, ob.DeviceCredential(device_serial_number="s", password="p")),
                 ob.Credential(enums.CredentialType.ATTESTATION, ob.AttestationCredential(
                     nonce=ob.Nonce(nonce_id=b"\x01", nonce_value=b"\x02"),
                     attestation_type=enums.AttestationType.TPM_QUOTE, attestation_measurement=b"\x03"))]:
        m = impl_engine.build_request(g.mkreq(12, [item("query", functions=[1])]))
        m.request_header.authentication = contents.Authentication([cred])
        s = utils.BytearrayStream()
        m.write(s)
        out.append((bytes(s.buffer), {"class": "hand:authentication", "ops": ["query"]}))
    for body in (b"", b"\x42\x00\x7d\x07\x00\x00\x00\x01a\x00\x00\x00\x00\x00\x00\x00"):
        ext = b"\x42\x00\x51\x01" + len(body).to_bytes(4, "big") + body
        out.append((grow(get, ext, [0x420078, 0x42000F]), {"class": "hand:message-extension", "ops": ["get"]}))
    # KMIP 2.0 attribute references (enumeration form) and unsupported tags in Attributes
    for v in (0x420008, 0x42008D, 0x420053, 0x4200A4, 0x42FFFF, 0x420101):
        base = enc(g.mkreq(20, [item("getAttributes", uid="1", names=["State"])]))
        idx = g.ttlv_index(base)
        e = next(x for x in idx if x["tag"] == 0x42013B)
        new = b"\x42\x01\x3b\x05\x00\x00\x00\x04" + v.to_bytes(4, "big") + b"\x00" * 4
        bb = bytearray(bytes(base[:e["off"]]) + new + bytes(base[e["end"]:]))
        delta = len(new) - (e["end"] - e["off"])
        for a in idx:
            if a["type"] == 1 and a["off"] < e["off"] < a["end"]:
                ln = int.from_bytes(base[a["off"] + 4:a["off"] + 8], "big") + delta
                bb[a["off"] + 4:a["off"] + 8] = ln.to_bytes(4, "big")
        out.append((bytes(bb), {"class": "hand:attribute-reference", "ops": ["getAttributes"]}))
    return out


def structural(frame, rnd):
    """a mutation of the CONTENT of one structure, all lengths honest: delete / duplicate / swap children, change an
    enumeration or integer value, empty a structure.  (SessGen.mutate breaks the framing; this breaks the schema.)"""
    idx = gen_session.ttlv_index(frame)
    structs = [e for e in idx if e["type"] == 1 and e["depth"] >= 1]
    kind = rnd.choice(["delete", "delete", "dup", "swap", "enum", "int", "empty", "move-last"])
    b = bytearray(frame)

    def kids(e):
        return [k for k in idx if k["depth"] == e["depth"] + 1 and e["off"] < k["off"] < e["end"]]

    def splice(lo, hi, new):
        """replace b[lo:hi] by new and fix the lengths of the enclosing structures"""
        delta = len(new) - (hi - lo)
        out = bytearray(bytes(b[:lo]) + new + bytes(b[hi:]))
        for a in idx:
            if a["type"] == 1 and a["off"] < lo and hi <= a["end"]:
                ln = int.from_bytes(b[a["off"] + 4:a["off"] + 8], "big") + delta
                out[a["off"] + 4:a["off"] + 8] = (ln & 0xFFFFFFFF).to_bytes(4, "big")
        return bytes(out)

    if kind in ("enum", "int"):
        ps = [e for e in idx if e["type"] == (5 if kind == "enum" else 2) and e["depth"] >= 1]
        if not ps:
            return None
        e = rnd.choice(ps)
        v = rnd.choice([0, 1, 2, 3, 7, 9, 0x80000000, 0xFFFFFFFF, rnd.randrange(1 << 32), rnd.randrange(40)])
        return splice(e["off"] + 8, e["off"] + 12, v.to_bytes(4, "big")), "struct:" + kind
    e = rnd.choice(structs)
    ks = kids(e)
    if kind == "empty":
        return splice(e["off"] + 8, e["end"], b""), "struct:empty"
    if not ks:
        return None
    k = rnd.choice(ks)
    if kind == "delete":
        return splice(k["off"], k["end"], b""), "struct:delete"
    if kind == "dup":
        return splice(k["off"], k["end"], bytes(b[k["off"]:k["end"]]) * 2), "struct:dup"
    if kind == "move-last":
        last = ks[-1]
        if last is k:
            return None
        return splice(k["off"], last["end"], bytes(b[k["end"]:last["end"]]) + bytes(b[k["off"]:k["end"]])), "struct:move-last"
    i = ks.index(k)
    if i + 1 >= len(ks):
        return None
    n = ks[i + 1]
    return splice(k["off"], n["end"], bytes(b[n["off"]:n["end"]]) + bytes(b[k["off"]:k["end"]])), "struct:swap"


def gen_frames(ctx, rnd, quick):
    """-> list of (frame, meta)"""
    frames = []
    sg = gen_session.SessGen(rnd)
    per = 4 if quick else 14
    valid = []
    for v in gen_session.VERSIONS:
        for op in OPS + ["unsupported"]:
            if op == "setAttribute" and v < 20:
                continue
            for k in range(per):
                r = sg.valid(v=v, op=op, sure=False)
                if r is not None:
                    r[1]["class"] = "valid"
                    valid.append(r)
        for k in range(per * 3):
            r = sg.valid(v=v, sure=True)
            if r is not None:
                r[1]["class"] = "valid-sure"
                valid.append(r)
    # multi-item requests of the engine generator (negative lengths / masks, key blocks without algorithm …)
    g = gen_engine.Gen(rnd.randrange(1 << 30), {"no_internal_script": True})
    g.live = dict(sg.g.live)
    g.created = 4
    for k in range(120 if quick else 1500):
        req = g.request()
        try:
            fr = gen_session.encode_request(req)
        except Exception:
            continue
        valid.append((fr, {"class": "valid-engine-gen", "ops": [it["op"] for it in req["items"]],
                           "version": req["version"]}))
    frames.extend(valid)
    nmut = 150 if quick else 900
    for kind in MUTATIONS:
        for k in range(nmut):
            fr, meta = valid[rnd.randrange(len(valid))]
            if kind == "nest" and k >= nmut // 6:
                break                                            # deep nests are slow and all alike
            try:
                mf, kd = sg.mutate(fr, kind=kind)
            except Exception:
                continue
            frames.append((mf, {"class": "mut:" + kd, "ops": meta["ops"], "version": meta.get("version")}))
    for k in range(900 if quick else 9000):
        fr, meta = valid[rnd.randrange(len(valid))]
        try:
            r = structural(fr, rnd)
        except Exception:
            r = None
        if r is not None:
            frames.append((r[0], {"class": r[1], "ops": meta["ops"], "version": meta.get("version")}))
    for k in range(200 if quick else 2000):
        frames.append((sg.raw(), {"class": "raw", "ops": []}))
    for fr, meta in hand_made():
        frames.append((fr, meta))
    return frames, sg.skipped


# ------------------------------------------------------------------ pin of the static tables
def check_tables(t):
    bad = []
    if t["tags"] != [x.value for x in enums.Tags]:
        bad.append("tags")
    for name, vals in t["enums"].items():
        if vals != [m.value for m in getattr(enums, name)]:
            bad.append("enum " + name)
    at = []
    for a in enums.AttributeType:
        try:
            tag = enums.Tags[a.name].value
        except KeyError:
            tag = 0
        at.append([a.name, a.value, tag])
    if t["attributeTypes"] != at:
        bad.append("attributeTypes")
    if t["attributeNameTags"] != [[n, tg.value] for n, tg in enums.attribute_name_tag_table]:
        bad.append("attributeNameTags")
    vers = [(10, enums.KMIPVersion.KMIP_1_0), (11, enums.KMIPVersion.KMIP_1_1), (12, enums.KMIPVersion.KMIP_1_2),
            (13, enums.KMIPVersion.KMIP_1_3), (14, enums.KMIPVersion.KMIP_1_4), (20, enums.KMIPVersion.KMIP_2_0)]
    if t["attributeTags"] != [[n, [x.value for x in enums.Tags if enums.is_attribute(x, v)]] for n, v in vers]:
        bad.append("attributeTags")
    u = t["usedTags"]
    E = enums.Tags
    if [u["requestMessage"], u["requestHeader"], u["batchItem"], u["requestPayload"], u["attributeValue"]] != \
            [E.REQUEST_MESSAGE.value, E.REQUEST_HEADER.value, E.BATCH_ITEM.value, E.REQUEST_PAYLOAD.value,
             E.ATTRIBUTE_VALUE.value]:
        bad.append("usedTags")
    return bad


# ------------------------------------------------------------------ the check
def neg_length(it):
    """does the item carry a negative Cryptographic Length (the one hypothesis of WellTyped the decoder cannot give)"""
    def attrs():
        for k in ("tmpl", "common", "priv", "pub"):
            t = it.get(k)
            if t:
                for a in t["attrs"]:
                    yield a
        for a in it.get("attrs") or []:
            yield a
        for k in ("attr", "current", "new"):
            if it.get(k):
                yield it[k]
    return any(a["name"] == "Cryptographic Length" and a["value"].get("k") == "int" and a["value"]["v"] < 0
               for a in attrs())


def run_decode(ctx, frames=None, monitor=True):
    logging.disable(logging.CRITICAL)
    t0 = time.time()
    quick = ctx.tier == "quick"
    rnd = random.Random("decode-%s" % ctx.seed)
    skipped = 0
    if frames is None:
        frames, skipped = gen_frames(ctx, rnd, quick)
    t_gen = time.time() - t0
    lines = [json.dumps({"op": "tables"})] + [json.dumps({"hex": fr.hex(), "dv": 12}) for fr, _ in frames]
    t1 = time.time()
    outs = ctx.run_model("Decode", lines)
    t_model = time.time() - t1
    cov = {"frames": len(frames), "generator_skipped": skipped, "by_class": {}, "by_op": {}, "accepted_by_class": {},
           "both_accept": 0, "both_reject": 0, "verdict_divergences": 0, "request_divergences": 0,
           "unmodelled": {}, "items_decoded": 0, "wt_false_negative_length": 0, "wtd_false": 0,
           "model_error_classes": {}, "engine_requests": 0, "general_failures": 0}
    tb = check_tables(json.loads(outs[0]))
    cov["tables_pinned"] = not tb
    if tb:
        ctx.report("correspondence:decode-tables", "static tables of KmipModel/DecodeTables.lean differ from kmip.core.enums: %s"
                   % ", ".join(tb), {"broken": "DecodeTables.lean vs kmip.core.enums", "tables": tb}, no_input=True)
    mon = EngineMonitor() if monitor else None
    t_impl = 0.0
    first_verdict = first_req = first_wt = None
    try:
        for (fr, meta), line in zip(frames, outs[1:]):
            cls = meta["class"]
            cov["by_class"][cls] = cov["by_class"].get(cls, 0) + 1
            for o in meta.get("ops") or []:
                cov["by_op"][o] = cov["by_op"].get(o, 0) + 1
            if not line.startswith("{"):
                raise RuntimeError("decode driver: %s" % line[:300])
            mo = json.loads(line)
            t2 = time.time()
            msg, exc = real_decode(fr)
            t_impl += time.time() - t2
            if msg is not None:
                cov["accepted_by_class"][cls] = cov["accepted_by_class"].get(cls, 0) + 1
            # (m) the monitor: implementation only
            if msg is not None and mon is not None:
                t2 = time.time()
                cov["engine_requests"] += 1
                for op, ex, where in mon.process(msg):
                    cov["general_failures"] += 1
                    ctx.report("c13:decoded-request-general-failure:%s:%s" % (op, ex),
                               "a request the real decoder accepts is answered General Failure by the real engine "
                               "(sane backend): %s at %s" % (ex, where),
                               {"kind": "frame", "hex": fr.hex(), "class": cls, "where": where})
                t_impl += time.time() - t2
            if not mo["ok"] and mo["err"] == "unmodelled":
                cov["unmodelled"][mo["detail"]] = cov["unmodelled"].get(mo["detail"], 0) + 1
                continue
            if not mo["ok"]:
                cov["model_error_classes"][mo["err"]] = cov["model_error_classes"].get(mo["err"], 0) + 1
            # (a) verdict
            if (msg is not None) != mo["ok"]:
                cov["verdict_divergences"] += 1
                if first_verdict is None:
                    first_verdict = {"hex": fr.hex(), "class": cls, "implementation": "accepts" if msg else "rejects: %s" % exc,
                                     "model": "accepts" if mo["ok"] else "rejects: %s %s" % (mo["err"], mo["detail"])}
                continue
            if msg is None:
                cov["both_reject"] += 1
                continue
            cov["both_accept"] += 1
            # (b) the decoded request
            try:
                ar = abstract_request(msg)
            except Exception as e:
                ar = {"abstraction_failed": "%s: %s" % (type(e).__name__, e)}
            d = first_difference(ar, mo["req"])
            if d:
                cov["request_divergences"] += 1
                if first_req is None:
                    first_req = {"hex": fr.hex(), "class": cls, "first_difference": d}
            # (c) well-typedness
            for it, wt, wtd in zip(mo["req"]["items"], mo["wt"], mo["wtd"]):
                cov["items_decoded"] += 1
                if not wtd:
                    cov["wtd_false"] += 1
                    if first_wt is None:
                        first_wt = {"hex": fr.hex(), "class": cls, "item": it, "what": "wtd false"}
                if not wt:
                    if wtd and neg_length(it):
                        cov["wt_false_negative_length"] += 1
                    elif wtd:
                        cov["wtd_false"] += 1
                        if first_wt is None:
                            first_wt = {"hex": fr.hex(), "class": cls, "item": it, "what": "wt false, wtd true, no negative length"}
    finally:
        if mon is not None:
            mon.close()
    concrete = [v for v in ctx.violations if not v["no_input"]]
    if first_verdict and not concrete:
        ctx.report("correspondence:decode-verdict",
                   "request decoder and model disagree on accept/reject for %d frames" % cov["verdict_divergences"],
                   dict(first_verdict, broken="Drivers/Decode.lean vs RequestMessage.read (verdict)"), no_input=True)
    if first_req and not concrete:
        ctx.report("correspondence:decode-request",
                   "decoded request differs between model and implementation for %d frames: %s"
                   % (cov["request_divergences"], first_req["first_difference"]),
                   dict(first_req, broken="Drivers/Decode.lean vs abstract_request(RequestMessage.read)"), no_input=True)
    if first_wt and not concrete:
        ctx.report("correspondence:decode-welltyped",
                   "%d decoded items are not well typed although decode_wellTyped says they are" % cov["wtd_false"],
                   dict(first_wt, broken="theorem C13Decode.decode_wellTyped vs Drivers/Decode.lean"), no_input=True)
    cov["rule"] = ("frames = repo-encoded valid requests for every dispatched operation x version (SessGen.valid over "
                   "gen_engine items, Gen.request batches) + 13 framing mutations of SessGen.mutate + 7 schema mutations "
                   "(structural) + raw frames + hand-made lenient corners; a frame counts as non-trivial when the real "
                   "decoder accepts it (both_accept) or when model and implementation reject it for a modelled reason")
    cov["evaluations"] = len(frames)
    cov["distinct_nontrivial"] = len({fr for fr, _ in frames})
    cov["samples"] = [{"class": m["class"], "ops": m.get("ops"), "hex": fr.hex()[:160]} for fr, m in frames[:2] + frames[-2:]]
    cov["seconds"] = {"generate": round(t_gen, 1), "model_driver": round(t_model, 1), "implementation": round(t_impl, 1),
                      "total": round(time.time() - t0, 1)}
    return cov


def replay_frame(ctx, rep):
    """re-run one reported frame under the monitor; True iff the property holds on it"""
    r = rep.get("replay", rep)
    fr = bytes.fromhex(r["hex"])
    msg, _ = real_decode(fr)
    if msg is None:
        return True
    mon = EngineMonitor()
    try:
        bad = mon.process(msg)
    finally:
        mon.close()
    for b in bad:
        print("  monitor: general failure in %s: %s at %s" % b)
    return not bad


# ------------------------------------------------------------------ stand-alone run (development / coordinator smoke test)
class _Ctx(object):
    """the part of vcheck.Ctx this module uses"""

    def __init__(self, tier, seed):
        self.tier, self.seed, self.violations, self.coverage = tier, seed, [], {}

    def report(self, signature, what, replay_obj, no_input=False):
        for v in self.violations:
            if v["signature"] == signature:
                v["count"] += 1
                return True
        self.violations.append({"signature": signature, "what": what, "no_input": no_input, "count": 1,
                                "replay": replay_obj})
        return True

    def run_model(self, driver, lines, timeout=1200):
        import subprocess
        lean = os.path.join(os.path.dirname(os.path.dirname(HERE)), "lean")
        p = subprocess.run(["lake", "env", "lean", "--run", os.path.join("Drivers", driver + ".lean")], cwd=lean,
                           input="\n".join(lines) + "\n", text=True, timeout=timeout, stdout=subprocess.PIPE,
                           stderr=subprocess.PIPE)
        if p.returncode != 0:
            raise RuntimeError("driver failed: %s" % p.stderr[-2000:])
        out = p.stdout.split("\n")
        if out and out[-1] == "":
            out.pop()
        if len(out) != len(lines):
            raise RuntimeError("%d lines in, %d out: %s" % (len(lines), len(out), p.stderr[-2000:]))
        return out


if __name__ == "__main__":
    c = _Ctx(sys.argv[1] if len(sys.argv) > 1 else "quick", os.environ.get("VERIF_SEED", "0"))
    cov = run_decode(c)
    print(json.dumps(cov, indent=1, sort_keys=True))
    for v in c.violations:
        print("VIOLATION" if not v["no_input"] else "DIVERGENCE", v["signature"], "x%d" % v["count"], v["what"][:400])
        print("   ", json.dumps(v["replay"], default=str)[:1500])
