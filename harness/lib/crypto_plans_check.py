"""
M9b correspondence: the plan model lean/KmipModel/CryptoPlans.lean (driver Drivers/CryptoPlans.lean) against the
REAL kmip.services.server.crypto.engine.CryptographyEngine (and, for the parts `_process_derive_key` / `_process_get`
add, the real KmipEngine).

How the real code is observed.  The engine module's own names for the `cryptography` entry points it uses
(`hashes.Hash`, `hmac.HMAC`, `cmac.CMAC`, `hkdf.HKDF`, `pbkdf2.PBKDF2HMAC`, `kbkdf.KBKDFHMAC`, `keywrap.aes_key_wrap`,
`rsa.generate_private_key`, `ciphers.Cipher`, `os.urandom`, the key loaders of `serialization` - whose keys are
wrapped so that `.sign` / `.verify` / `.encrypt` / `.decrypt` are seen with the padding object that reaches them)
are replaced, in the module namespace only and only while a case runs, by stand-ins that RECORD WHAT WAS REQUESTED
(primitive, hash, lengths, salt / info / iterations / fixed input, padding scheme, MGF hash, salt length, which bytes
went into which argument) and then delegate to the real implementation.  Nothing in /repo is edited.

What is compared with the model, per grid point: accepted or refused; the KMIP reason of a refusal (or "internal":
an exception that is no KmipError); for accepted points the recorded request (primitive, hash, length asked for,
wiring of the request fields - every field is a different random byte string, so a swapped argument shows), the
length of the output, and at server level the length of the stored material and its length attribute.

Monitors (readings of C06 on the implementation alone, independent of the model):
  * a DeriveKey / Get-with-wrapping request sent through KmipEngine.process_request is answered with success or a
    specific KMIP reason, never General Failure; derived material has exactly Cryptographic Length / 8 bytes and a
    derived SymmetricKey reports that length;
  * whatever parameter tuple `sign` accepts, `verify_signature` with the SAME tuple, the matching public key and the
    signature just produced answers True (and False for another message);
  * whatever tuple `_encrypt_asymmetric` accepts, `_decrypt_asymmetric` with the same tuple returns the message;
  * a MAC has the digest / block size of the algorithm named; a created key has exactly the requested length.

Entry point: run(ctx, rng) -> coverage dict (per-operation counts).  replay_case(rep) re-runs one reported case.
"""
import contextlib
import itertools
import json
import logging
import os
import random
import sys
import time
import warnings

warnings.filterwarnings("ignore")
sys.path.insert(0, os.path.dirname(os.path.abspath(__file__)))
sys.path.insert(0, os.path.join(os.path.dirname(os.path.abspath(__file__)), ".."))

DRIVER = "CryptoPlans"
_KEYS = {}          # cached RSA private keys by size (plumbing is what is observed here, not freshness)

KEYLEN = {2: 24, 3: 16, 16: 16, 17: 16, 18: 16, 19: 16, 22: 16}     # a valid key length (bytes) per symmetric algorithm
BLOCK = {2: 8, 3: 16, 16: 8, 17: 16, 18: 8, 19: 8, 22: 0}


def dumps(o):
    return json.dumps(o, sort_keys=True, separators=(",", ":"))


def hname(alg):
    return alg.name.upper().replace("-", "")


def hx(b):
    return None if b is None else bytes(b).hex()


# ------------------------------------------------------------------------------------------------ recording
class ModProxy(object):
    """a module whose selected names are replaced"""

    def __init__(self, real, **over):
        self.__dict__["_real"] = real
        self.__dict__["_over"] = over

    def __getattr__(self, n):
        o = self.__dict__["_over"]
        return o[n] if n in o else getattr(self.__dict__["_real"], n)


class Upd(object):
    """hash / MAC / cipher context: records the bytes fed to it"""

    def __init__(self, real, entry, field="data"):
        self.__dict__.update(_real=real, _entry=entry, _field=field)

    def update(self, d):
        r = self._real.update(d)
        self._entry[self._field] = (self._entry.get(self._field) or b"") + bytes(d)
        return r

    def finalize(self):
        out = self._real.finalize()
        self._entry["out"] = len(out) + len(self._entry.pop("_partial", b""))
        return out

    def __getattr__(self, n):
        return getattr(self._real, n)


class Kdf(object):
    def __init__(self, real, entry):
        self._real, self._entry = real, entry

    def derive(self, key):
        self._entry["key"] = key
        out = self._real.derive(key)
        self._entry["out"] = len(out)
        return out


def describe_padding(p):
    from cryptography.hazmat.primitives.asymmetric import padding as ap
    d = {"scheme": type(p).__name__}
    mgf = getattr(p, "_mgf", None)
    if mgf is not None:
        d["mgf"] = hname(mgf._algorithm)
        d["mgf_class"] = type(mgf).__name__
    if isinstance(p, ap.PSS):
        sl = p._salt_length
        d["salt"] = "MAX" if sl is ap.PSS.MAX_LENGTH else repr(sl)
    if isinstance(p, ap.OAEP):
        d["hash"] = hname(p._algorithm)
        d["label"] = p._label
    return d


class KeyProxy(object):
    """an RSA key as the loaders of `serialization` return it: the four operations are recorded"""

    def __init__(self, real, calls):
        self.__dict__.update(_real=real, _calls=calls)

    def sign(self, data, padding, algorithm):
        self._calls.append({"prim": "rsa_sign", "pad": describe_padding(padding), "hash": hname(algorithm),
                            "data": data, "bits": self._real.key_size})
        return self._real.sign(data, padding, algorithm)

    def verify(self, signature, data, padding, algorithm):
        self._calls.append({"prim": "rsa_verify", "pad": describe_padding(padding), "hash": hname(algorithm),
                            "data": data, "sig": signature, "bits": self._real.key_size})
        return self._real.verify(signature, data, padding, algorithm)

    def encrypt(self, plaintext, padding):
        self._calls.append({"prim": "rsa_encrypt", "pad": describe_padding(padding), "data": plaintext,
                            "bits": self._real.key_size})
        return self._real.encrypt(plaintext, padding)

    def decrypt(self, ciphertext, padding):
        self._calls.append({"prim": "rsa_decrypt", "pad": describe_padding(padding), "data": ciphertext,
                            "bits": self._real.key_size})
        return self._real.decrypt(ciphertext, padding)

    def __getattr__(self, n):
        return getattr(self._real, n)


def cached_rsa(bits, exponent=65537):
    from cryptography.hazmat.primitives.asymmetric import rsa
    k = (bits, exponent)
    if k not in _KEYS:
        _KEYS[k] = rsa.generate_private_key(public_exponent=exponent, key_size=bits)
    return _KEYS[k]


def rsa_pair_bytes(bits):
    from cryptography.hazmat.primitives import serialization as ser
    key = cached_rsa(bits)
    priv = key.private_bytes(ser.Encoding.DER, ser.PrivateFormat.PKCS8, ser.NoEncryption())
    pub = key.public_key().public_bytes(ser.Encoding.DER, ser.PublicFormat.PKCS1)
    return pub, priv


@contextlib.contextmanager
def recording(cache_rsa=True):
    """yield (calls, engine): a CryptographyEngine whose module sees recording stand-ins"""
    from kmip.services.server.crypto import engine as ce
    calls = []
    names = ("hashes", "hmac", "cmac", "hkdf", "pbkdf2", "kbkdf", "keywrap", "rsa", "serialization", "ciphers", "os")
    saved = {n: getattr(ce, n) for n in names}
    real = dict(saved)

    def Hash(algorithm, backend=None):
        e = {"prim": "hash", "hash": hname(algorithm)}
        calls.append(e)
        return Upd(real["hashes"].Hash(algorithm), e)

    def HMAC(key, algorithm, backend=None):
        e = {"prim": "hmac", "hash": hname(algorithm), "key": key}
        calls.append(e)
        return Upd(real["hmac"].HMAC(key, algorithm), e)

    def CMAC(algorithm, backend=None):
        e = {"prim": "cmac", "cipher": type(algorithm).__name__, "key": getattr(algorithm, "key", None)}
        calls.append(e)
        return Upd(real["cmac"].CMAC(algorithm), e)

    def HKDF(algorithm, length, salt, info, backend=None):
        e = {"prim": "hkdf", "hash": hname(algorithm), "length": length, "salt": salt, "info": info}
        calls.append(e)
        return Kdf(real["hkdf"].HKDF(algorithm=algorithm, length=length, salt=salt, info=info), e)

    def PBKDF2HMAC(algorithm, length, salt, iterations, backend=None):
        e = {"prim": "pbkdf2", "hash": hname(algorithm), "length": length, "salt": salt, "iterations": iterations}
        calls.append(e)
        return Kdf(real["pbkdf2"].PBKDF2HMAC(algorithm=algorithm, length=length, salt=salt, iterations=iterations), e)

    def KBKDFHMAC(algorithm, mode, length, rlen, llen, location, label, context, fixed, backend=None, **kw):
        e = {"prim": "kbkdf", "hash": hname(algorithm), "length": length, "mode": mode.name, "rlen": rlen, "llen": llen,
             "location": location.name, "label": label, "context": context, "fixed": fixed, "extra": sorted(kw)}
        calls.append(e)
        return Kdf(real["kbkdf"].KBKDFHMAC(algorithm=algorithm, mode=mode, length=length, rlen=rlen, llen=llen,
                                           location=location, label=label, context=context, fixed=fixed, **kw), e)

    def aes_key_wrap(wrapping_key, key_to_wrap, backend=None):
        e = {"prim": "aes_key_wrap", "kek": wrapping_key, "data": key_to_wrap}
        calls.append(e)
        out = real["keywrap"].aes_key_wrap(wrapping_key, key_to_wrap)
        e["out"] = len(out)
        return out

    def generate_private_key(public_exponent, key_size, backend=None):
        e = {"prim": "rsa_generate", "exponent": public_exponent, "bits": key_size}
        calls.append(e)
        if cache_rsa and isinstance(key_size, int) and key_size in (1024, 2048) and public_exponent == 65537:
            return cached_rsa(key_size)
        return real["rsa"].generate_private_key(public_exponent=public_exponent, key_size=key_size)

    def loader(name):
        def load(data, *a, **kw):
            kw.pop("backend", None)
            return KeyProxy(getattr(real["serialization"], name)(data, *a, **kw), calls)
        return load

    class Cipher(object):
        def __init__(self, algorithm, mode, backend=None):
            self._e = {"prim": "cipher", "cipher": type(algorithm).__name__, "key": getattr(algorithm, "key", None),
                       "mode": None if mode is None else type(mode).__name__,
                       "iv": None if mode is None else getattr(mode, "initialization_vector", getattr(mode, "nonce", None))}
            calls.append(self._e)
            self._real = real["ciphers"].Cipher(algorithm, mode)

        def encryptor(self):
            return Upd(self._real.encryptor(), self._e)

        def decryptor(self):
            return Upd(self._real.decryptor(), self._e)

    def urandom(n):
        calls.append({"prim": "urandom", "n": n})
        return real["os"].urandom(n)

    over = {
        "hashes": ModProxy(real["hashes"], Hash=Hash),
        "hmac": ModProxy(real["hmac"], HMAC=HMAC),
        "cmac": ModProxy(real["cmac"], CMAC=CMAC),
        "hkdf": ModProxy(real["hkdf"], HKDF=HKDF),
        "pbkdf2": ModProxy(real["pbkdf2"], PBKDF2HMAC=PBKDF2HMAC),
        "kbkdf": ModProxy(real["kbkdf"], KBKDFHMAC=KBKDFHMAC),
        "keywrap": ModProxy(real["keywrap"], aes_key_wrap=aes_key_wrap),
        "rsa": ModProxy(real["rsa"], generate_private_key=generate_private_key),
        "serialization": ModProxy(real["serialization"], **{n: loader(n) for n in (
            "load_der_public_key", "load_pem_public_key", "load_der_private_key", "load_pem_private_key")}),
        "ciphers": ModProxy(real["ciphers"], Cipher=Cipher),
        "os": ModProxy(real["os"], urandom=urandom),
    }
    for n, v in over.items():
        setattr(ce, n, v)
    try:
        yield calls, ce.CryptographyEngine()
    finally:
        for n, v in saved.items():
            setattr(ce, n, v)


def outcome(f):
    """run one engine call: ('ok', result) | ('InvalidField' / 'CryptographicFailure' / …, message) |
    ('internal:<Exception>', message)"""
    from kmip.core import exceptions
    try:
        return "ok", f()
    except exceptions.KmipError as e:
        return type(e).__name__, str(e)
    except Exception as e:                       # the class of outcome C06 / C13 do not allow for a well-formed request
        return "internal:" + type(e).__name__, str(e)


def cls_of(o):
    return "internal" if o.startswith("internal:") else o


def en(Ecls, v):
    return None if v is None else Ecls(v)


# ------------------------------------------------------------------------------------------------ the checker
class Checker(object):
    def __init__(self, ctx, rng):
        self.ctx, self.rng = ctx, rng
        self.lines, self.after = [], []
        self.counts = {}
        self.accepted = {}
        self.refused = {}
        self.internal = {}
        self.div = []                # model / implementation disagreements
        self.samples = []
        self.finding_count = 0

    def rb(self, n):
        return bytes(self.rng.randrange(256) for _ in range(n))

    def add(self, op, line, obs, compare):
        """queue one grid point: `line` for the model, `obs` observed on the implementation, `compare(model)` returns
        None or a description of the disagreement"""
        self.counts[op] = self.counts.get(op, 0) + 1
        self.lines.append(dumps(line))
        self.after.append((op, line, obs, compare))

    def report(self, signature, what, replay):
        self.finding_count += 1
        self.ctx.report(signature, what, dict(replay, kind="crypto-plan"))

    def finish(self):
        out = self.ctx.run_model(DRIVER, self.lines) if self.lines else []
        for (op, line, obs, compare), raw in zip(self.after, out):
            if raw.startswith("bad-"):
                self.div.append({"op": op, "line": line, "impl": obs.get("outcome"), "model": raw, "why": "driver refused the line"})
                continue
            mo = json.loads(raw)
            bucket = self.refused if "err" in mo else self.accepted
            bucket[op] = bucket.get(op, 0) + 1
            if mo.get("reason") == "internal":
                self.internal[op] = self.internal.get(op, 0) + 1
            why = compare(mo)
            if why is not None:
                self.div.append({"op": op, "line": line, "impl": obs.get("outcome"), "model": mo, "why": why})
            elif len(self.samples) < 6 and self.rng.random() < 0.004:
                self.samples.append({"op": op, "request": line, "model": mo, "impl": obs.get("outcome")})

    # -- generic comparison of acceptance / reason --------------------------------------------------------------
    @staticmethod
    def same_outcome(oc, mo):
        """implementation outcome class vs the model's"""
        if "err" in mo:
            if cls_of(oc) != mo["reason"]:
                return "implementation: %s, model refuses with %s (%s)" % (oc, mo["reason"], mo["err"])
            return None
        if oc != "ok":
            return "implementation: %s, model accepts" % oc
        return None


# ------------------------------------------------------------------------------------------------ tables
def live_tables():
    import gen_crypto_tables
    from kmip.core import enums
    from kmip.services.server.crypto import engine as ce_mod
    ce = ce_mod.CryptographyEngine()
    t = gen_crypto_tables.live_tables()

    def t4(d, third):
        return [[k.value, k.name.replace("_", ""), hname(c if not isinstance(c, tuple) else c[0]), third(k, c)] for k, c in d.items()]
    E = enums
    return {
        "const": {"RSA": E.CryptographicAlgorithm.RSA.value, "OAEP": E.PaddingMethod.OAEP.value,
                  "PKCS1v15": E.PaddingMethod.PKCS1v15.value, "PSS": E.PaddingMethod.PSS.value,
                  "PBKDF2": E.DerivationMethod.PBKDF2.value, "HASH": E.DerivationMethod.HASH.value,
                  "HMAC": E.DerivationMethod.HMAC.value, "ENCRYPT": E.DerivationMethod.ENCRYPT.value,
                  "NIST800_108_C": E.DerivationMethod.NIST800_108_C.value,
                  "WRAP_ENCRYPT": E.WrappingMethod.ENCRYPT.value, "NIST_KEY_WRAP": E.BlockCipherMode.NIST_KEY_WRAP.value,
                  "NO_ENCODING": E.EncodingOption.NO_ENCODING.value, "PKCS_1": E.KeyFormatType.PKCS_1.value,
                  "PKCS_8": E.KeyFormatType.PKCS_8.value, "RAW": E.KeyFormatType.RAW.value,
                  "RC4": E.CryptographicAlgorithm.RC4.value, "CBC": E.BlockCipherMode.CBC.value,
                  "ECB": E.BlockCipherMode.ECB.value, "GCM": E.BlockCipherMode.GCM.value},
        "symAlgs": [[k.value, c.__name__, getattr(c, "block_size", 0) or 0] for k, c in ce._symmetric_key_algorithms.items()],
        "encHashes": t4(ce._encryption_hash_algorithms, lambda k, c: c.digest_size * 8),
        "macHashes": t4(ce._hash_algorithms, lambda k, c: c.digest_size * 8),
        "dsa": t4(ce._digital_signature_algorithms, lambda k, c: c[1].value),
        "asymPadding": [[k.value, c.__name__] for k, c in ce._asymmetric_padding_methods.items()],
        "asymAlgs": t["asymAlgs"], "symKeySizes": t["symKeySizes"],
        "wrappingMethod": t["wrappingMethod"], "encodingOption": t["encodingOption"],
    }


def check_tables(ck):
    live = live_tables()

    def compare(mo):
        for k in sorted(set(live) | set(mo)):
            if live.get(k) != mo.get(k):
                return "table %s: engine has %r, the Lean driver was built with %r" % (k, live.get(k), mo.get(k))
        return None
    ck.add("tables", {"cmd": "tables"}, {"outcome": "ok"}, compare)


# ------------------------------------------------------------------------------------------------ DeriveKey (engine)
def derive_cases(ck, tier):
    """the grid of `derive_key` parameter tuples (see RULE in run)"""
    from kmip.core import enums as E
    H = [None, 3, 4, 5, 6, 7, 8, 1, 9, 15]            # None, the six supported, MD2 / RIPEMD-160 / SHA3-256 (unsupported)
    DG = {3: 16, 4: 20, 5: 28, 6: 32, 7: 48, 8: 64}
    yes_no = (True, False)
    out = []
    # HASH
    for h, n, dd, km in itertools.product(H, (0, 16, 21, 64, 65), yes_no, yes_no):
        out.append(dict(method=2, length=n, hash=h, dd=dd, km=km))
    # HMAC (HKDF): lengths around 255 * digest
    for h, dd, salt, km in itertools.product(H, yes_no, yes_no, yes_no):
        lim = 255 * DG.get(h, 20)
        for n in (0, 1, 16, 33, lim, lim + 1, lim + 977):
            out.append(dict(method=3, length=n, hash=h, dd=dd, salt=salt, km=km))
    # PBKDF2
    for h, n, salt, it, km in itertools.product(H, (0, 1, 20, 65), yes_no, (None, 1, 3, 0, -1, -5), yes_no):
        out.append(dict(method=1, length=n, hash=h, salt=salt, iters=it, km=km, dd=False))
    # NIST 800-108 counter mode
    for h, n, dd, km, salt in itertools.product(H, (0, 1, 20, 65, 300), yes_no, yes_no, yes_no):
        out.append(dict(method=5, length=n, hash=h, dd=dd, km=km, salt=salt))
    # methods the engine refuses
    for m, h in itertools.product((6, 7, 8, 9, 10), (None, 6, 1)):
        out.append(dict(method=m, length=16, hash=h, dd=True, km=True))
    # ENCRYPT
    algs = [None, 3, 2, 16, 17, 18, 19, 22, 4, 5, 7]
    modes = [None, 1, 2, 4, 5, 6, 9, 13, 3]
    pads = [None, 3, 6, 5, 8, 2, 10]
    for a, m, p, iv, dd, km in itertools.product(algs, modes, pads, yes_no, yes_no, yes_no):
        out.append(dict(method=4, length=16, encalg=a, mode=m, padding=p, iv=iv, dd=dd, km=km, hash=None))
    if tier == "quick":
        # keep every non-ENCRYPT point of a supported hash or None, thin the rest deterministically from the seed
        keep = []
        for c in out:
            if c["method"] == 4:
                p = 0.2 if (c["dd"] and c["km"]) else 0.05
            elif c["method"] in (1, 3, 5) and c.get("hash") in (5, 7, 9, 15):
                p = 0.25
            else:
                p = 0.8
            if ck.rng.random() < p:
                keep.append(c)
        out = keep
    return out


def run_derive(ck, tier):
    from kmip.core import enums as E
    pub1024, _priv = rsa_pair_bytes(1024)
    for c in derive_cases(ck, tier):
        ea = c.get("encalg")
        km = None
        if c.get("km"):
            km = pub1024 if ea == 4 else ck.rb(KEYLEN.get(ea, 16))
        dd = ck.rb(ck.rng.choice([1, 5, 16, 20, 33])) if c.get("dd") else None
        salt = ck.rb(8) if c.get("salt") else None
        ivlen = 12 if c.get("mode") == 9 else (BLOCK.get(ea, 16) or 16)
        iv = ck.rb(ivlen) if c.get("iv") else None
        fields = {"key": km, "ddata": dd, "salt": salt, "iv": iv, "none": None}
        with recording() as (calls, eng):
            oc, res = outcome(lambda: eng.derive_key(
                E.DerivationMethod(c["method"]), c["length"], derivation_data=dd, key_material=km,
                hash_algorithm=en(E.HashingAlgorithm, c.get("hash")), salt=salt, iteration_count=c.get("iters"),
                encryption_algorithm=en(E.CryptographicAlgorithm, ea), cipher_mode=en(E.BlockCipherMode, c.get("mode")),
                padding_method=en(E.PaddingMethod, c.get("padding")), iv_nonce=iv))
        line = {"cmd": "derive", "method": c["method"], "length": c["length"], "ddata": None if dd is None else len(dd),
                "key": None if km is None else len(km), "hash": c.get("hash"), "salt": None if salt is None else len(salt),
                "iters": c.get("iters"), "encalg": ea, "mode": c.get("mode"), "padding": c.get("padding"),
                "iv": None if iv is None else len(iv), "rsabytes": 128}
        obs = {"outcome": oc, "len": len(res) if oc == "ok" else None}
        ck.add("derive", line, obs, (lambda mo, oc=oc, res=res, calls=calls, fields=fields, c=c:
                                     compare_derive(mo, oc, res, calls, fields, c)))


def compare_derive(mo, oc, res, calls, f, c):
    if "err" not in mo and mo["kind"] == "sym" and oc == "CryptographicFailure":
        # the plan is accepted and the cipher itself refuses (a mode the backend lacks for this cipher, …)
        gen = mo["sym"]["ivGenerated"]
        iv = os.urandom(mo["sym"]["iv"]) if gen else f["iv"]
        if prim_refuses_sym(mo["sym"], f["key"], iv, f["ddata"]):
            return None
    why = Checker.same_outcome(oc, mo)
    if why or "err" in mo:
        return why
    if len(res) != mo["rawLen"]:
        return "derive_key returned %d bytes, the model's primitive output has %d" % (len(res), mo["rawLen"])
    prim = [x for x in calls if x["prim"] not in ("urandom",)]
    if len(prim) != 1:
        return "expected one primitive request, recorded %r" % [x["prim"] for x in prim]
    r = prim[0]
    k = mo["kind"]
    want = None
    if k == "hash":
        want = {"prim": "hash", "hash": mo["hash"], "data": f[mo["data"]], "out": mo["digest"]}
    elif k == "hkdf":
        want = {"prim": "hkdf", "hash": mo["hash"], "length": mo["ask"], "salt": f[mo["salt"]], "info": f[mo["data"]],
                "key": f[mo["key"]], "out": mo["ask"]}
    elif k == "pbkdf2":
        want = {"prim": "pbkdf2", "hash": mo["hash"], "length": mo["ask"], "salt": f[mo["salt"]],
                "iterations": mo["iters"], "key": f[mo["key"]], "out": mo["ask"]}
    elif k == "kbkdf":
        want = {"prim": "kbkdf", "hash": mo["hash"], "length": mo["ask"], "mode": "CounterMode", "rlen": 4, "llen": None,
                "location": "BeforeFixed", "label": None, "context": None, "fixed": f[mo["data"]], "extra": [],
                "key": f[mo["key"]], "out": mo["ask"]}
    elif k == "sym":
        s = mo["sym"]
        gen = [x for x in calls if x["prim"] == "urandom"]
        if s["ivGenerated"] != (len(gen) == 1) or (gen and gen[0]["n"] != s["iv"]):
            return "IV generation: model %r, recorded os.urandom calls %r" % (s, gen)
        if r["prim"] != "cipher" or r["key"] != f[mo["key"]]:
            return "cipher request %r does not use the key material" % r["prim"]
        if (r["mode"] is None) != (s["mode"] is None):
            return "cipher mode: recorded %r, model %r" % (r["mode"], s["mode"])
        if not s["ivGenerated"] and s["iv"] is not None and r["iv"] != f["iv"]:
            return "the IV handed to the mode is not the request's"
        fed = r.get("data") or b""
        if not fed.startswith(f[mo["data"]]) or (len(fed) > len(f[mo["data"]])) != (s["padding"] is not None):
            return "plain text fed to the cipher: %d bytes for %d bytes of derivation data, model padding %r" % (
                len(fed), len(f[mo["data"]]), s["padding"])
        return None
    elif k == "rsa":
        want = {"prim": "rsa_encrypt", "data": f[mo["data"]], "bits": 1024,
                "pad": {"scheme": mo["asym"]["scheme"]} if mo["asym"]["scheme"] == "PKCS1v15" else
                {"scheme": "OAEP", "mgf": mo["asym"]["mgf"], "mgf_class": "MGF1", "hash": mo["asym"]["hash"], "label": None}}
    if want != r:
        return "recorded request %r differs from the plan %r" % (
            {a: (hx(b) if isinstance(b, (bytes, bytearray)) else b) for a, b in r.items()},
            {a: (hx(b) if isinstance(b, (bytes, bytearray)) else b) for a, b in want.items()})
    return None


# ------------------------------------------------------------------------------------------------ DeriveKey (server)
def server_engine():
    import impl_engine as IE
    return IE.ImplEngine(scripted_crypto=False), IE


def attr(n, v, i=None):
    return {"name": n, "index": i, "value": v}


def server_req(Eg, items, v=14):
    o = Eg.handle({"cmd": "req", "now": 1000, "id": {"user": "alice", "groups": None},
                   "req": {"version": v, "ts": None, "async": None, "bopt": None, "maxsize": None, "items": items}})
    return o["results"]


def usage_mask(*names):
    from kmip.core import enums
    m = 0
    for n in names:
        m |= enums.CryptographicUsageMask[n].value
    return m


def server_register(Eg, value, otype=2, alg=3, mask=None, fmt=1):
    if mask is None:
        mask = usage_mask("DERIVE_KEY", "ENCRYPT", "DECRYPT", "WRAP_KEY")
    t = {"tnames": 0, "attrs": [attr("Cryptographic Usage Mask", {"k": "int", "v": mask})]}
    res = server_req(Eg, [{"op": "register", "bid": None, "crypto": None, "otype": otype, "tmpl": t,
                           "obj": {"otype": otype, "value": value.hex(), "alg": alg, "len": len(value) * 8, "format": fmt,
                                   "subtype": None}}])
    uid = res[0]["data"]["uid"]
    server_req(Eg, [{"op": "activate", "bid": None, "uid": uid}])
    return uid


def derive_item(uid, c):
    attrs = []
    if c["bits"] is not None:
        attrs.append(attr("Cryptographic Length", {"k": "int", "v": c["bits"]}))
    if c["otype"] == 2:
        attrs.append(attr("Cryptographic Algorithm", {"k": "enum", "v": 3}))
    it = {"op": "deriveKey", "bid": None, "otype": c["otype"], "uids": [uid], "tmpl": {"tnames": 0, "attrs": attrs},
          "method": c["method"], "ddata_hex": c["ddata"].hex() if c["ddata"] is not None else "",
          "div_hex": None if c["iv"] is None else c["iv"].hex(), "iters": c["iters"],
          "cp": {"hash": c["hash"], "alg": c["encalg"], "mode": c["mode"], "padding": c["padding"]}}
    if c["salt"] is not None:
        it["salt_hex"] = c["salt"].hex()
    return it


def server_derive_cases(ck, tier):
    out = []
    r = ck.rng
    bits_menu = [None, 0, -8, -3, 7, 8, 12, 64, 128, 160, 168, 256, 512, 520, 4080 * 8, 4081 * 8, 5100 * 8, 5101 * 8]

    def base(**kw):
        d = dict(bits=128, otype=r.choice([2, 7]), method=2, ddata=None, salt=None, iv=None, iters=None, hash=None,
                 encalg=None, mode=None, padding=None)
        d.update(kw)
        return d
    for h in (3, 4, 6, None, 1):
        for b in bits_menu:
            out.append(base(bits=b, method=2, hash=h))                                         # HASH of the key material
            out.append(base(bits=b, method=3, hash=h, ddata=ck.rb(5), salt=ck.rb(8)))          # HKDF
            out.append(base(bits=b, method=5, hash=h, ddata=ck.rb(5)))                         # SP 800-108
        for b in (None, 0, -8, 7, 8, 128, 168, 520):
            for it in (1, 3, 0, -1, None):
                out.append(base(bits=b, method=1, hash=h, salt=ck.rb(8), iters=it))            # PBKDF2
        out.append(base(method=2, hash=h, ddata=ck.rb(4)))                                     # HASH with both inputs
        out.append(base(method=3, hash=h))                                                     # HKDF, no info, no salt
        out.append(base(method=5, hash=h))                                                     # SP 800-108 without fixed input
    for m in (6, 7, 8, 9, 10):
        out.append(base(method=m, hash=6, ddata=ck.rb(4)))
    for mode, pad in ((1, 3), (2, 3), (1, 6), (2, None), (1, None), (4, None), (5, None), (6, None), (9, None), (13, None),
                      (None, None), (1, 5)):
        for iv in (True, False):
            for dd in (16, 32, 5, None):
                for b in (64, 128, 256, 384, 520, 7, 0):
                    if tier == "quick" and r.random() > 0.3:
                        continue
                    out.append(base(bits=b, method=4, encalg=r.choice([3, 3, 17]), mode=mode, padding=pad,
                                    iv=ck.rb(16) if iv else None, ddata=None if dd is None else ck.rb(dd)))
    for a in (None, 4, 5, 22, 2):
        out.append(base(method=4, encalg=a, mode=1, padding=3, iv=ck.rb(8), ddata=ck.rb(16)))
        out.append(base(method=4, encalg=a, mode=None, padding=8, ddata=ck.rb(16)))
    if tier == "quick":
        out = [c for c in out if c["method"] == 4 or r.random() < 0.6]
    # a fixed core that every seed runs (one accepted request per method, and the corners of each method)
    core = [base(otype=7, method=2, hash=6), base(otype=2, bits=256, method=2, hash=6), base(otype=7, bits=264, method=2, hash=6),
            base(otype=2, method=3, hash=4, ddata=ck.rb(5), salt=ck.rb(8)),
            base(otype=7, bits=5100 * 8, method=3, hash=4, ddata=ck.rb(5), salt=ck.rb(8)),
            base(otype=7, bits=5101 * 8, method=3, hash=4, ddata=ck.rb(5), salt=ck.rb(8)),
            base(otype=7, bits=4081 * 8, method=3, hash=3, ddata=ck.rb(5), salt=ck.rb(8)),
            base(otype=2, method=1, hash=6, salt=ck.rb(8), iters=2), base(otype=7, method=1, hash=6, salt=ck.rb(8), iters=0),
            base(otype=7, method=1, hash=6, salt=ck.rb(8), iters=-1), base(otype=7, method=1, hash=6, salt=ck.rb(8), iters=None),
            base(otype=2, method=5, hash=6, ddata=ck.rb(5)), base(otype=7, method=5, hash=6),
            base(otype=2, method=4, encalg=3, mode=1, padding=3, iv=ck.rb(16), ddata=ck.rb(16)),
            base(otype=7, method=4, encalg=3, mode=1, padding=3, iv=ck.rb(16)),
            base(otype=7, method=4, encalg=3, mode=2, padding=3),
            base(otype=7, method=4, encalg=3, mode=6, iv=ck.rb(16)),
            base(otype=7, bits=64, method=4, encalg=3, mode=6, iv=ck.rb(16), ddata=ck.rb(16))]
    return core + out


def run_derive_server(ck, tier):
    from kmip.core import enums as E
    GENERAL = E.ResultReason.GENERAL_FAILURE.value
    REASON = {E.ResultReason.INVALID_FIELD.value: "InvalidField", E.ResultReason.CRYPTOGRAPHIC_FAILURE.value: "CryptographicFailure",
              GENERAL: "internal"}
    Eg, IE = server_engine()
    try:
        key = ck.rb(16)
        uid = server_register(Eg, key)
        for c in server_derive_cases(ck, tier):
            it = derive_item(uid, c)
            Eg.internal_errors = []
            res = server_req(Eg, [dict(it)])[0]
            ierr = list(Eg.internal_errors)
            replay = {"op": "deriveKey-server", "key": key.hex(), "item": it}
            obs = {"outcome": "ok" if res.get("status") == "ok" else REASON.get(res.get("reason"), "reason:%s" % res.get("reason"))}
            mname = E.DerivationMethod(c["method"]).name
            if res.get("status") == "ok":
                g = server_req(Eg, [{"op": "get", "bid": None, "uid": res["data"]["uid"], "wrap": None, "format": None,
                                     "compression": False}])[0].get("data") or {}
                val = bytes.fromhex(g.get("value") or "")
                obs.update(stored=len(val), lenattr=g.get("len"))
                # monitor: exactly the requested number of bytes; the key reports that length
                if c["bits"] is None or len(val) * 8 != c["bits"]:
                    ck.report("c06:derived-length:%s:%d" % (mname, c["otype"]),
                              "DeriveKey %s asked for %s bits and stored %d bytes" % (mname, c["bits"], len(val)), replay)
                elif c["otype"] == 2 and g.get("len") != c["bits"]:
                    ck.report("c06:derived-length-attribute", "derived key of %d bits reports Cryptographic Length %s"
                              % (c["bits"], g.get("len")), replay)
            elif res.get("reason") == GENERAL:
                # monitor: a DeriveKey request is never answered General Failure
                exc = ierr[-1]["exc"] if ierr else "?"
                site = ierr[-1]["site"] if ierr else "?"
                ck.report("c06:derive-internal-error:%s:%s@%s" % (mname, exc, site),
                          "DeriveKey %s (%s) was answered General Failure: %s" % (
                              mname, describe_derive(c), ierr[-1]["msg"] if ierr else res.get("msg")), replay)
            line = {"cmd": "deriveServer", "bits": c["bits"], "method": c["method"],
                    "ddata": None if c["ddata"] is None else len(c["ddata"]), "key": len(key), "hash": c["hash"],
                    "salt": 8 if (c["salt"] is not None or c["method"] in (1, 5)) else None,   # impl_engine's default salt
                    "iters": c["iters"], "encalg": c["encalg"], "mode": c["mode"], "padding": c["padding"],
                    "iv": None if c["iv"] is None else len(c["iv"]), "rsabytes": 0}
            c["_key"] = key
            ck.add("deriveServer", line, obs, (lambda mo, obs=obs, c=c: compare_derive_server(mo, obs, c)))
    finally:
        Eg.close()


def describe_derive(c):
    return ", ".join("%s=%s" % (k, (len(v) if isinstance(v, bytes) else v)) for k, v in sorted(c.items())
                     if v is not None and k not in ("otype", "method"))


def compare_derive_server(mo, obs, c):
    oc = obs["outcome"]
    if "err" in mo:
        if oc != mo["reason"]:
            # a wrong IV / key length is refused by the cipher itself: Cryptographic Failure where the plan is fine
            return "server: %s, model refuses with %s (%s)" % (oc, mo["reason"], mo["err"])
        return None
    if oc != "ok":
        if oc == "CryptographicFailure" and mo["kind"] == "sym" and \
                prim_refuses_sym(mo["sym"], c["_key"], c["iv"] or b"", c["ddata"]):
            return None
        return "server: %s, model accepts" % oc
    if obs["stored"] != mo["final"]:
        return "stored %d bytes, model %d" % (obs["stored"], mo["final"])
    if c["otype"] == 2 and obs["lenattr"] != mo["lengthAttr"]:
        return "length attribute %s, model %s" % (obs["lenattr"], mo["lengthAttr"])
    return None


def prim_refuses_sym(s, key, iv, data):
    """does the cipher itself refuse what the plan `s` asks of it (this key, this IV, this data)?  Decided by an
    independent use of the same cipher, mode and padding - the engine maps such a refusal to Cryptographic Failure"""
    from cryptography.hazmat.primitives import ciphers, padding as sp
    from kmip.core import enums as E
    from kmip.services.server.crypto import engine as ce
    eng = ce.CryptographyEngine()
    try:
        cls = eng._symmetric_key_algorithms[E.CryptographicAlgorithm(s["alg"])]
        alg = cls(key)
        mode = None
        if s["mode"] is not None:
            mcls = eng._modes[E.BlockCipherMode(s["mode"])]
            if s["iv"] is None:
                mode = mcls()
            elif s["gcm"]:
                mode = mcls(iv, None, min_tag_length=s["tagLen"] or 16)
            else:
                mode = mcls(iv)
        if s["padding"] is not None:
            pd = {3: sp.PKCS7, 6: sp.ANSIX923}[s["padding"]](s["block"]).padder()
            data = pd.update(data) + pd.finalize()
        e = ciphers.Cipher(alg, mode).encryptor()
        e.update(data)
        e.finalize()
        return False
    except Exception:
        return True


# ------------------------------------------------------------------------------------------------ MAC
def run_mac(ck, tier):
    from kmip.core import enums as E
    for alg in [None] + [a.value for a in E.CryptographicAlgorithm]:
        for rep in range(2 if tier == "quick" else 6):
            key = ck.rb(KEYLEN.get(alg, ck.rng.choice([16, 20, 32])))
            data = ck.rb(ck.rng.choice([0, 1, 16, 33]))
            with recording() as (calls, eng):
                oc, res = outcome(lambda: eng.mac(en(E.CryptographicAlgorithm, alg), key, data))
            if oc.startswith("internal:"):
                ck.report("c06:mac-unexpected-exception:%s" % oc[9:], "mac(%s) raised %s" % (alg, oc),
                          {"op": "mac", "alg": alg, "key": key.hex(), "data": data.hex()})

            def compare(mo, oc=oc, res=res, calls=list(calls), key=key, data=data, alg=alg):
                why = Checker.same_outcome(oc, mo)
                if why or "err" in mo:
                    return why
                if len(res) != mo["outLen"]:
                    return "MAC of %d bytes, model %d" % (len(res), mo["outLen"])
                if len(calls) != 1:
                    return "expected one primitive request, recorded %r" % [x["prim"] for x in calls]
                want = ({"prim": "hmac", "hash": mo["hash"], "key": key, "data": data or None, "out": mo["outLen"]}
                        if mo["family"] == "HMAC" else
                        {"prim": "cmac", "cipher": mo["cls"], "key": key, "data": data or None, "out": mo["outLen"]})
                got = dict(calls[0])
                got["data"] = got.get("data") or None
                return None if got == want else "recorded %r, plan %r" % (got["prim"], want)
            ck.add("mac", {"cmd": "mac", "alg": alg}, {"outcome": oc}, compare)


# ------------------------------------------------------------------------------------------------ Sign / SignatureVerify
def sig_cases(ck, tier):
    dsas = [None, 2, 3, 5, 7, 1, 8, 9, 14, 17]        # None, four known, MD2-RSA / RSASSA-PSS / DSA / ECDSA / SHA3 (unknown to the table)
    algs = [None, 4, 5, 3, 6]
    hashes_ = [None, 4, 6, 8, 3, 1, 15]
    pads = [None, 10, 8, 2, 3, 9]
    out = list(itertools.product(dsas, algs, hashes_, pads))
    if tier == "quick":
        out = [c for c in out if ck.rng.random() < 0.3 or (c[3] in (10, 8) and ck.rng.random() < 0.5)]
    # a fixed core that every seed runs: by digital signature algorithm alone, by the pair, both and agreeing, both and
    # contradicting (hash, algorithm), an unknown digital signature algorithm, missing / foreign padding
    core = [(5, None, None, 10), (3, None, None, 8), (None, 4, 6, 10), (None, 4, 4, 8), (5, 4, 6, 10), (5, 4, 4, 10),
            (5, 5, None, 8), (9, 4, 4, 10), (None, 4, None, 8), (None, 4, 6, None), (None, 4, 6, 2), (None, 5, 6, 10)]
    return core + [c for c in out if c not in core]


def run_sign_verify(ck, tier):
    from kmip.core import enums as E
    pub, priv = rsa_pair_bytes(1024)
    pub2, priv2 = rsa_pair_bytes(2048)

    def params(c):
        return (en(E.DigitalSignatureAlgorithm, c[0]), en(E.CryptographicAlgorithm, c[1]), en(E.HashingAlgorithm, c[2]),
                en(E.PaddingMethod, c[3]))
    for c in sig_cases(ck, tier):
        d, a, h, p = params(c)
        big = ck.rng.random() < 0.15
        pk, sk, bits = (pub2, priv2, 2048) if big else (pub, priv, 1024)
        msg = ck.rb(ck.rng.choice([0, 1, 50]))
        line = {"dsa": c[0], "alg": c[1], "hash": c[2], "padding": c[3]}
        replay = {"op": "sign-verify", "params": line, "msg": msg.hex(), "bits": bits}
        with recording() as (calls, eng):
            oc, sig = outcome(lambda: eng.sign(d, a, h, p, sk, msg))
        scalls = list(calls)
        if oc.startswith("internal:"):
            ck.report("c06:sign-unexpected-exception:%s" % oc[9:], "sign%r raised %s" % (c, oc), replay)
        ck.add("sign", dict(line, cmd="sign"), {"outcome": oc},
               (lambda mo, oc=oc, calls=scalls, msg=msg, bits=bits: compare_sig(mo, oc, calls, "rsa_sign", msg, bits)))
        # SignatureVerify with the same tuple: on Sign's signature when there is one, else on a well-sized dummy
        good = sig if oc == "ok" else ck.rb(bits // 8)
        with recording() as (calls, eng):
            ov, verdict = outcome(lambda: eng.verify_signature(pk, msg, good, p, a, h, d))
        vcalls = list(calls)
        if ov.startswith("internal:"):
            ck.report("c06:verify-unexpected-exception:%s" % ov[9:], "verify_signature%r raised %s" % (c, ov), replay)
        if oc == "ok":
            # monitor: SignatureVerify reports valid for what Sign produced under the same parameters
            if ov != "ok":
                kind = "hash" if "hashing" in str(verdict) else ("algorithm" if "signing algorithm" in str(verdict) else "other")
                ck.report("c06:verify-refuses-sign-parameters:%s" % kind,
                          "Sign accepts (digital signature algorithm %s, cryptographic algorithm %s, hashing algorithm %s, "
                          "padding %s) and signs; SignatureVerify with the same parameters is refused: %s: %s"
                          % (getattr(d, "name", None), getattr(a, "name", None), getattr(h, "name", None),
                             getattr(p, "name", None), ov, verdict), replay)
            elif verdict is not True:
                ck.report("c06:verify-rejects-own-signature", "SignatureVerify answers invalid for Sign's output under the "
                          "same parameters %r" % (c,), replay)
            else:
                with recording() as (_c, eng):
                    o2, v2 = outcome(lambda: eng.verify_signature(pk, msg + b"x", sig, p, a, h, d))
                if o2 == "ok" and v2 is not False:
                    ck.report("c06:verify-accepts-other-message", "SignatureVerify accepted another message %r" % (c,), replay)
        ck.add("verify", dict(line, cmd="verify"), {"outcome": ov},
               (lambda mo, ov=ov, calls=vcalls, msg=msg, bits=bits: compare_sig(mo, ov, calls, "rsa_verify", msg, bits)))


def compare_sig(mo, oc, calls, prim, msg, bits):
    if "err" not in mo and oc != "ok" and cls_of(oc) == mo["onFailure"] and [x for x in calls if x["prim"] == prim]:
        oc = "ok"          # the plan was carried out (checked below) and the RSA primitive itself refused
    why = Checker.same_outcome(oc, mo)
    if why or "err" in mo:
        return why
    ops = [x for x in calls if x["prim"] == prim]
    if len(ops) != 1:
        return "expected one %s request, recorded %r" % (prim, [x["prim"] for x in calls])
    r = ops[0]
    pad = ({"scheme": "PSS", "mgf": mo["mgf"], "mgf_class": "MGF1", "salt": mo["salt"]} if mo["pad"] == "PSS"
           else {"scheme": "PKCS1v15"})
    if r["pad"] != pad or r["hash"] != mo["hash"] or r["data"] != msg or r["bits"] != bits:
        return "recorded %s with padding %r and hash %s; plan: %r" % (prim, r["pad"], r["hash"], mo)
    return None


# ------------------------------------------------------------------------------------------------ asymmetric Encrypt / Decrypt
def run_asym(ck, tier):
    from kmip.core import enums as E
    pub, priv = rsa_pair_bytes(2048)
    algs = [None, 4, 3, 5]
    pads = [None, 2, 8, 10, 3, 1]
    hs = [None] + [h.value for h in E.HashingAlgorithm]
    for a, p, h in itertools.product(algs, pads, hs):
        if tier == "quick" and a != 4 and ck.rng.random() < 0.5:
            continue
        A, Pd, Hh = en(E.CryptographicAlgorithm, a), en(E.PaddingMethod, p), en(E.HashingAlgorithm, h)
        msg = ck.rb(ck.rng.choice([0, 1, 32, 60]))
        line = {"alg": a, "padding": p, "hash": h}
        replay = {"op": "asym", "params": line, "msg": msg.hex()}
        with recording() as (calls, eng):
            oc, res = outcome(lambda: eng._encrypt_asymmetric(A, pub, msg, Pd, hashing_algorithm=Hh))
        ecalls = list(calls)
        if oc.startswith("internal:"):
            ck.report("c06:asym-encrypt-unexpected-exception:%s" % oc[9:], "_encrypt_asymmetric%r raised %s" % ((a, p, h), oc), replay)
        ck.add("aenc", dict(line, cmd="aenc"), {"outcome": oc},
               (lambda mo, oc=oc, calls=ecalls, msg=msg: compare_asym(mo, oc, calls, "rsa_encrypt", msg)))
        ct = res["cipher_text"] if oc == "ok" else ck.rb(256)
        with recording() as (calls, eng):
            od, back = outcome(lambda: eng._decrypt_asymmetric(A, priv, ct, Pd, hashing_algorithm=Hh))
        dcalls = list(calls)
        if oc == "ok":
            # monitor: Decrypt inverts Encrypt under the same parameters
            if od != "ok" or back != msg:
                ck.report("c06:asym-decrypt-does-not-invert-encrypt", "_decrypt_asymmetric%r after _encrypt_asymmetric: %s"
                          % ((a, p, h), od), replay)
            ck.add("adec", dict(line, cmd="adec"), {"outcome": od},
                   (lambda mo, od=od, calls=dcalls, ct=ct: compare_asym(mo, od, calls, "rsa_decrypt", ct)))
        else:
            # a random block: the plan must agree on refusals; an accepted plan meets the primitive's own refusal
            def compare(mo, od=od):
                if "err" in mo:
                    return Checker.same_outcome(od, mo)
                return None if (od == "ok" or cls_of(od) == mo["onFailure"]) else "implementation: %s, model accepts" % od
            ck.add("adec", dict(line, cmd="adec"), {"outcome": od}, compare)


def compare_asym(mo, oc, calls, prim, data):
    if "err" not in mo and cls_of(oc) == mo["onFailure"]:
        oc = "ok"          # the plan was carried out (checked below) and the RSA primitive itself refused
    why = Checker.same_outcome(oc, mo)
    if why or "err" in mo:
        return why
    ops = [x for x in calls if x["prim"] == prim]
    if len(ops) != 1:
        return "expected one %s request, recorded %r" % (prim, [x["prim"] for x in calls])
    pad = ({"scheme": "PKCS1v15"} if mo["scheme"] == "PKCS1v15" else
           {"scheme": "OAEP", "mgf": mo["mgf"], "mgf_class": "MGF1", "hash": mo["hash"], "label": mo["label"]})
    if ops[0]["pad"] != pad or ops[0]["data"] != data:
        return "recorded %s with %r; plan %r" % (prim, ops[0]["pad"], mo)
    return None


# ------------------------------------------------------------------------------------------------ key wrapping
def run_wrap(ck, tier):
    from kmip.core import enums as E
    grid = list(itertools.product([None] + [x.value for x in E.WrappingMethod], [None] + [x.value for x in E.BlockCipherMode],
                                  [None], [None]))
    # the one accepted pair, over the sizes of key-encryption key and key material
    grid += [(1, 13, k, d) for k in (16, 24, 32) for d in (16, 24, 32, 40, 64)]
    for m, a, kl, dl in grid:
        kek, data = ck.rb(kl or ck.rng.choice([16, 24, 32])), ck.rb(dl or ck.rng.choice([16, 24, 32, 40]))
        with recording() as (calls, eng):
            oc, res = outcome(lambda: eng.wrap_key(data, en(E.WrappingMethod, m), en(E.BlockCipherMode, a), kek))
        if oc.startswith("internal:"):
            ck.report("c06:wrap-unexpected-exception:%s" % oc[9:], "wrap_key(%s, %s) raised %s" % (m, a, oc),
                      {"op": "wrap", "method": m, "mode": a})

        def compare(mo, oc=oc, res=res, calls=list(calls), kek=kek, data=data):
            why = Checker.same_outcome(oc, mo)
            if why or "err" in mo:
                return why
            want = [{"prim": mo["prim"], "kek": kek, "data": data, "out": len(data) + 8}]
            return None if (calls == want and len(res) == len(data) + 8) else "recorded %r" % [x["prim"] for x in calls]
        ck.add("wrap", {"cmd": "wrap", "method": m, "mode": a}, {"outcome": oc}, compare)
    # a key the primitive refuses (not a whole number of 8-byte blocks): mapped to Cryptographic Failure
    with recording() as (calls, eng):
        oc, _ = outcome(lambda: eng.wrap_key(ck.rb(13), E.WrappingMethod.ENCRYPT, E.BlockCipherMode.NIST_KEY_WRAP, ck.rb(16)))

    def compare13(mo, oc=oc):
        return None if ("err" not in mo and cls_of(oc) == mo["onFailure"]) else \
            "wrap_key of 13 bytes: implementation %s, model %r" % (oc, mo)
    ck.add("wrap", {"cmd": "wrap", "method": 1, "mode": 13}, {"outcome": oc}, compare13)
    if oc.startswith("internal:"):
        ck.report("c06:wrap-unexpected-exception:%s" % oc[9:], "wrap_key of 13 bytes raised %s" % oc, {"op": "wrap-13"})


def run_wrap_server(ck, tier):
    """Get with a key wrapping specification through KmipEngine.process_request: wrapping method x cryptographic
    parameters (absent / block cipher mode) x encoding option"""
    from kmip.core import enums as E, objects as cobjects, utils
    from kmip.core.attributes import CryptographicParameters as CP
    from kmip.core.messages import contents, messages, payloads
    REASON = {E.ResultReason.INVALID_FIELD.value: "InvalidField", E.ResultReason.CRYPTOGRAPHIC_FAILURE.value: "CryptographicFailure",
              E.ResultReason.OPERATION_NOT_SUPPORTED.value: "OperationNotSupported",
              E.ResultReason.ENCODING_OPTION_ERROR.value: "EncodingOptionError", E.ResultReason.GENERAL_FAILURE.value: "internal"}
    Eg, IE = server_engine()
    try:
        kek = ck.rb(16)
        wuid = server_register(Eg, kek, mask=usage_mask("WRAP_KEY", "ENCRYPT"))
        targets = {n: (server_register(Eg, t), t) for n, t in ((16, ck.rb(16)), (24, ck.rb(24)), (32, ck.rb(32)))}
        grid = list(itertools.product([x.value for x in E.WrappingMethod], ["absent", None, 13, 1, 12, 9], [None, 1, 2], [None]))
        grid += [(1, 13, 1, n) for n in (16, 24, 32)] * 2
        for m, params, enc, tn in grid:
            tuid, target = targets[tn or ck.rng.choice([16, 24, 32])]
            eki = cobjects.EncryptionKeyInformation(
                unique_identifier=wuid,
                cryptographic_parameters=None if params == "absent" else CP(block_cipher_mode=en(E.BlockCipherMode, params)))
            spec = cobjects.KeyWrappingSpecification(wrapping_method=E.WrappingMethod(m), encryption_key_information=eki,
                                                     encoding_option=en(E.EncodingOption, enc))
            hdr = messages.RequestHeader(protocol_version=contents.ProtocolVersion(1, 4), batch_count=contents.BatchCount(1))
            item = messages.RequestBatchItem(operation=contents.Operation(E.Operation.GET),
                                             request_payload=payloads.GetRequestPayload(unique_identifier=tuid,
                                                                                        key_wrapping_specification=spec))
            Eg.clock.now = 1000
            Eg.internal_errors = []
            Eg._scripts, Eg._recorded, Eg._item = [None], [None], -1
            resp, _, _ = Eg.engine.process_request(messages.RequestMessage(request_header=hdr, batch_items=[item]), ("alice", None))
            bi = resp.batch_items[0]
            replay = {"op": "get-wrap-server", "method": m, "params": params, "encoding": enc}
            if bi.result_status.value == E.ResultStatus.SUCCESS:
                oc = "ok"
                kb = bi.response_payload.secret.key_block
                wrapped = kb.key_value.key_material.value if hasattr(kb.key_value, "key_material") else kb.key_value
                stored = len(wrapped) if isinstance(wrapped, (bytes, bytearray)) else None
            else:
                oc = REASON.get(bi.result_reason.value.value, "reason:%s" % bi.result_reason.value.value)
                stored = None
                if oc == "internal":
                    ie = Eg.internal_errors[-1] if Eg.internal_errors else {"exc": "?", "site": "?", "msg": "?"}
                    ck.report("c06:get-wrap-internal-error:%s@%s" % (ie["exc"], ie["site"]),
                              "Get with key wrapping (method %s, mode %s, encoding %s) was answered General Failure: %s"
                              % (m, params, enc, ie["msg"]), replay)

            def compare(mo, oc=oc, stored=stored, target=target):
                why = Checker.same_outcome(oc, mo)
                if why or "err" in mo:
                    return why
                return None if stored == len(target) + 8 else "wrapped key of %s bytes for %d" % (stored, len(target))
            ck.add("getwrap", {"cmd": "getwrap", "method": m, "params": params != "absent",
                               "mode": None if params == "absent" else params, "encoding": enc}, {"outcome": oc}, compare)
    finally:
        Eg.close()


# ------------------------------------------------------------------------------------------------ key creation
def run_create(ck, tier):
    from kmip.core import enums as E
    lengths = [0, -8, 8, 40, 56, 64, 100, 112, 127, 128, 129, 160, 168, 192, 256, 448, 456, 512, 1024]
    algs = [None] + [a.value for a in E.CryptographicAlgorithm]
    for a, n in itertools.product(algs, lengths):
        if tier == "quick" and a not in (None, 2, 3, 16, 17, 18, 19, 22, 4, 9) and ck.rng.random() < 0.8:
            continue
        with recording() as (calls, eng):
            oc, res = outcome(lambda: eng.create_symmetric_key(en(E.CryptographicAlgorithm, a), n))
        if oc.startswith("internal:"):
            ck.report("c06:create-unexpected-exception:%s" % oc[9:], "create_symmetric_key(%s, %s) raised %s" % (a, n, oc),
                      {"op": "create", "alg": a, "length": n})
        if oc == "ok" and len(res["value"]) * 8 != n:
            ck.report("c06:generated-key-length", "create_symmetric_key(%s, %d) returned %d bytes" % (a, n, len(res["value"])),
                      {"op": "create", "alg": a, "length": n})

        def compare(mo, oc=oc, res=res, calls=list(calls), n=n):
            why = Checker.same_outcome(oc, mo)
            if why or "err" in mo:
                return why
            if calls != [{"prim": "urandom", "n": mo["bytes"]}] or len(res["value"]) != mo["bytes"] \
                    or res["format"].value != mo["format"]:
                return "recorded %r, %d bytes, format %s; plan %r" % (calls, len(res["value"]), res["format"], mo)
            return None
        ck.add("create", {"cmd": "create", "alg": a, "length": n}, {"outcome": oc}, compare)


def run_pair(ck, tier):
    from kmip.core import enums as E
    from cryptography.hazmat.primitives import serialization as ser
    algs = [None] + [a.value for a in E.CryptographicAlgorithm]
    lengths = [1024, 2048] if tier == "quick" else [1024, 2048, 1536, 3072]
    bad_lengths = [0, -1, 512, 511, 1000]
    for a in algs:
        for n in (lengths + bad_lengths) if a in (4, None, 5, 6, 3) else [1024]:
            with recording() as (calls, eng):
                oc, res = outcome(lambda: eng.create_asymmetric_key_pair(en(E.CryptographicAlgorithm, a), n))
            if oc.startswith("internal:"):
                ck.report("c06:create-pair-unexpected-exception:%s" % oc[9:],
                          "create_asymmetric_key_pair(%s, %s) raised %s" % (a, n, oc), {"op": "pair", "alg": a, "length": n})

            def compare(mo, oc=oc, res=res, calls=list(calls), n=n):
                if "err" in mo:
                    return Checker.same_outcome(oc, mo)
                gen = [x for x in calls if x["prim"] == "rsa_generate"]
                if gen != [{"prim": "rsa_generate", "exponent": mo["exponent"], "bits": mo["keySize"]}]:
                    return "recorded %r; plan %r" % (gen, mo)
                if oc != "ok":
                    # the generator itself refuses the size
                    return None if cls_of(oc) == mo["onFailure"] else "implementation: %s" % oc
                pub, priv = res
                if pub["format"].value != mo["pubFormat"] or priv["format"].value != mo["privFormat"] \
                        or pub["public_exponent"] != mo["exponent"]:
                    return "formats %s %s" % (pub["format"], priv["format"])
                k = ser.load_der_private_key(priv["value"], password=None)
                pk = ser.load_der_public_key(pub["value"])
                if k.key_size != n or pk.public_numbers() != k.public_key().public_numbers():
                    return "key of %d bits for %d; or the public key is not the private key's" % (k.key_size, n)
                return None
            ck.add("pair", {"cmd": "pair", "alg": a, "length": n}, {"outcome": oc}, compare)


# ------------------------------------------------------------------------------------------------ entry points
RULE = ("plan correspondence M9b: each grid point is a parameter tuple sent to the real CryptographyEngine (recording "
        "stand-ins for the cryptography entry points) and to the Lean plan functions; compared: accepted/refused, KMIP "
        "reason (or 'internal' = non-KMIP exception), the recorded primitive request (primitive, hash, MGF hash, salt "
        "length, length asked for, iterations, wiring of key / data / salt / info / fixed input / IV by distinct random "
        "byte strings), output length. Grids: derive_key method x hash (None, 6 supported, 3 unsupported) x length (0, 1, "
        "around the digest, around 255*digest) x derivation data / key material / salt present or absent x iteration "
        "count (None, 1, 3, 0, negative) x for ENCRYPT algorithm x mode x padding x IV; DeriveKey through the real "
        "server: Cryptographic Length (absent, 0, negative, non-multiples of 8, around digest and HKDF limits) x method x "
        "hash x object type; mac over every CryptographicAlgorithm; sign / verify_signature over digital signature "
        "algorithm (known, unknown, None) x algorithm x hash x padding; _encrypt/_decrypt_asymmetric over algorithm x "
        "padding x every HashingAlgorithm; wrap_key over every wrapping method x block cipher mode, Get with wrapping "
        "through the server over method x parameters x encoding; create_symmetric_key algorithm x length; "
        "create_asymmetric_key_pair algorithm x length. A point is non-trivial when the model accepts it or names a "
        "specific refusal; distinct = distinct parameter tuples.")


def run(ctx, rng=None):
    """returns the coverage dict; findings and correspondence failures are reported through ctx.report"""
    logging.disable(logging.CRITICAL)
    if rng is None:
        rng = random.Random(getattr(ctx, "seed", 0) * 7919 + 97)
    tier = getattr(ctx, "tier", "quick")
    t0 = time.time()
    ck = Checker(ctx, rng)
    times = {}
    for name, f in (("tables", lambda: check_tables(ck)), ("derive", lambda: run_derive(ck, tier)),
                    ("deriveServer", lambda: run_derive_server(ck, tier)), ("mac", lambda: run_mac(ck, tier)),
                    ("sign_verify", lambda: run_sign_verify(ck, tier)), ("asym", lambda: run_asym(ck, tier)),
                    ("wrap", lambda: run_wrap(ck, tier)), ("getwrap", lambda: run_wrap_server(ck, tier)),
                    ("create", lambda: run_create(ck, tier)), ("pair", lambda: run_pair(ck, tier))):
        t = time.time()
        f()
        times[name] = round(time.time() - t, 2)
    t = time.time()
    ck.finish()
    times["model"] = round(time.time() - t, 2)
    if ck.div:
        d = ck.div[0]
        sig = "correspondence:crypto-plan-tables" if d["op"] == "tables" else "correspondence:crypto-plans:%s" % d["op"]
        # every grid point has already been run under the monitors above: a disagreement that reaches this line came
        # with no failing input of the property
        ctx.report(sig, "plan model and implementation disagree on %d grid point(s); first: %s" % (len(ck.div), d["why"]),
                   {"kind": "crypto-plan", "broken": "correspondence Drivers/CryptoPlans.lean (%s) vs the real code" % d["op"],
                    "line": d["line"], "impl": d["impl"], "model": d["model"], "why": d["why"],
                    "others": [{"op": x["op"], "line": x["line"], "why": x["why"]} for x in ck.div[1:8]]}, no_input=True)
    total = sum(ck.counts.values())
    return {"plan_grid_points": total, "plan_points_per_operation": dict(sorted(ck.counts.items())),
            "plan_accepted_per_operation": dict(sorted(ck.accepted.items())),
            "plan_refused_per_operation": dict(sorted(ck.refused.items())),
            "plan_internal_error_points": dict(sorted(ck.internal.items())),
            "plan_disagreements": len(ck.div), "plan_findings_reported": ck.finding_count,
            "plan_samples": ck.samples, "plan_seconds": round(time.time() - t0, 2), "plan_seconds_by_part": times,
            "plan_rule": RULE}


def replay_case(rep):
    """re-run one reported case under the monitors; True iff the property holds on it"""
    logging.disable(logging.CRITICAL)
    from kmip.core import enums as E
    op = rep.get("op")
    if op == "deriveKey-server":
        Eg, IE = server_engine()
        try:
            uid = server_register(Eg, bytes.fromhex(rep["key"]))
            it = dict(rep["item"], uids=[uid])
            res = server_req(Eg, [it])[0]
            if res.get("status") != "ok":
                return res.get("reason") != E.ResultReason.GENERAL_FAILURE.value
            bits = [a["value"]["v"] for a in it["tmpl"]["attrs"] if a["name"] == "Cryptographic Length"]
            g = server_req(Eg, [{"op": "get", "bid": None, "uid": res["data"]["uid"], "wrap": None, "format": None,
                                 "compression": False}])[0].get("data") or {}
            return bool(bits) and len(g.get("value") or "") * 4 == bits[0]
        finally:
            Eg.close()
    if op == "sign-verify":
        p = rep["params"]
        pub, priv = rsa_pair_bytes(rep.get("bits", 1024))
        from kmip.services.server.crypto import engine as ce
        eng = ce.CryptographyEngine()
        d, a, h, pd = (en(E.DigitalSignatureAlgorithm, p["dsa"]), en(E.CryptographicAlgorithm, p["alg"]),
                       en(E.HashingAlgorithm, p["hash"]), en(E.PaddingMethod, p["padding"]))
        msg = bytes.fromhex(rep["msg"])
        oc, sig = outcome(lambda: eng.sign(d, a, h, pd, priv, msg))
        if oc != "ok":
            return not oc.startswith("internal:")
        ov, v = outcome(lambda: eng.verify_signature(pub, msg, sig, pd, a, h, d))
        return ov == "ok" and v is True
    if op == "asym":
        p = rep["params"]
        pub, priv = rsa_pair_bytes(2048)
        from kmip.services.server.crypto import engine as ce
        eng = ce.CryptographyEngine()
        A, Pd, Hh = en(E.CryptographicAlgorithm, p["alg"]), en(E.PaddingMethod, p["padding"]), en(E.HashingAlgorithm, p["hash"])
        msg = bytes.fromhex(rep["msg"])
        oc, res = outcome(lambda: eng._encrypt_asymmetric(A, pub, msg, Pd, hashing_algorithm=Hh))
        if oc != "ok":
            return not oc.startswith("internal:")
        od, back = outcome(lambda: eng._decrypt_asymmetric(A, priv, res["cipher_text"], Pd, hashing_algorithm=Hh))
        return od == "ok" and back == msg
    if op in ("mac", "create", "pair", "wrap", "wrap-13"):
        # the monitors of these operations: no exception other than a KmipError; a created key has the requested length
        from kmip.services.server.crypto import engine as ce
        eng = ce.CryptographyEngine()
        if op == "mac":
            oc, _ = outcome(lambda: eng.mac(en(E.CryptographicAlgorithm, rep["alg"]), bytes.fromhex(rep["key"]),
                                            bytes.fromhex(rep["data"])))
        elif op == "create":
            oc, res = outcome(lambda: eng.create_symmetric_key(en(E.CryptographicAlgorithm, rep["alg"]), rep["length"]))
            if oc == "ok" and len(res["value"]) * 8 != rep["length"]:
                return False
        elif op == "pair":
            oc, _ = outcome(lambda: eng.create_asymmetric_key_pair(en(E.CryptographicAlgorithm, rep["alg"]), rep["length"]))
        elif op == "wrap":
            oc, _ = outcome(lambda: eng.wrap_key(b"\x00" * 16, en(E.WrappingMethod, rep["method"]),
                                                 en(E.BlockCipherMode, rep["mode"]), b"\x01" * 16))
        else:
            oc, _ = outcome(lambda: eng.wrap_key(b"\x00" * 13, E.WrappingMethod.ENCRYPT, E.BlockCipherMode.NIST_KEY_WRAP,
                                                 b"\x01" * 16))
        return not oc.startswith("internal:")
    if op == "get-wrap-server":
        class _Ctx(object):
            tier, seed, violations = "quick", 0, []

            def report(self, signature, what, replay_obj, no_input=False):
                self.violations.append(signature)
                return True

            def run_model(self, driver, lines):
                return []
        ck = Checker(_Ctx(), random.Random(0))
        run_wrap_server(ck, "quick")
        return not ck.ctx.violations
    return None


if __name__ == "__main__":
    # stand-alone run: python harness/lib/crypto_plans_check.py [quick|thorough] [seed]
    import vcheck
    tier = sys.argv[1] if len(sys.argv) > 1 else "quick"
    seed = int(sys.argv[2]) if len(sys.argv) > 2 else 0
    class DevCtx(vcheck.Ctx):
        """reports are collected, no replay file is written"""

        def report(self, signature, what, replay_obj, no_input=False):
            if not no_input and self.known_match(signature) is not None:
                self.known.append("KNOWN-FINDING: %s" % signature)
                return False
            for v in self.violations:
                if v["signature"] == signature:
                    v["count"] += 1
                    return True
            self.violations.append({"signature": signature, "what": what, "path": dumps(replay_obj)[:400],
                                    "no_input": no_input, "count": 1})
            return True
    ctx = DevCtx("C06", tier, seed, None)
    cov = run(ctx)
    cov.pop("plan_rule")
    print(json.dumps(cov, indent=1, default=str))
    for v in ctx.violations:
        print("VIOLATION", v["signature"], "|", v["what"][:300], "| x%d" % v["count"], "|", v["path"])
    for k in ctx.known:
        print(k)
