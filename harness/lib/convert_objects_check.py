"""
M13b correspondence: the object conversions of the storage path against the Lean model
(lean/KmipModel/ConvertObjects.lean, driver lean/Drivers/ConvertObjects.lean).

Every case goes through the REAL code hop by hop

    core secret --ObjectFactory.convert--> pie object --session.add/commit--> SQLite rows (read back with plain SQL)
        --query in a new session--> pie object --KmipEngine._build_core_object--> core secret
        --ObjectFactory.convert (the client's Get)--> pie object          and  pie --ObjectFactory.convert--> core

and each hop's result (a structural description: class, fields, raw column values) or refusal (exception class and
message) is compared with the model's answer on the REAL input of that hop.  Monitors (implementation alone): the
round trips the theorems of KmipModel.Props.C05Convert state.

`run(ctx, rng)` -> coverage dict;  `replay_case(ctx, case)` -> True iff the monitors hold on the case.
"""
import enum
import json
import logging
import os
import sys
import time
import warnings

warnings.filterwarnings("ignore")

CP_FIELDS = ["block_cipher_mode", "padding_method", "hashing_algorithm", "key_role_type",
             "digital_signature_algorithm", "cryptographic_algorithm", "random_iv", "iv_length", "tag_length",
             "fixed_field_length", "invocation_field_length", "counter_length", "initial_counter_value"]
VALID_FORMATS = {"publicKey": [1, 5, 3], "privateKey": [1, 3, 4]}     # Raw, X.509 / PKCS#8, PKCS#1
KINDS = ["certificate", "symmetric", "publicKey", "privateKey", "splitKey", "secretData", "opaque"]


def dumps(x):
    return json.dumps(x, sort_keys=True, separators=(",", ":"))


class Impl(object):
    """lazy imports of the code under verification + one in-memory database"""

    def __init__(self):
        logging.disable(logging.CRITICAL)
        # the implementation under check is VERIF_REPO's working tree, as in vcheck (which has set sys.path already)
        repo = os.environ.get("VERIF_REPO")
        if repo and repo not in sys.path:
            sys.path.insert(0, repo)
        import sqlalchemy
        from sqlalchemy.orm import sessionmaker
        from kmip.core import enums, objects as cobjects, secrets, misc, attributes, primitives
        from kmip.core.factories import attributes as attribute_factory
        from kmip.pie import objects as pobjects, sqltypes, factory
        from kmip.services.server import engine as engine_mod
        self.enums, self.co, self.secrets, self.misc, self.attributes = enums, cobjects, secrets, misc, attributes
        self.primitives, self.po, self.sqltypes = primitives, pobjects, sqltypes
        self.factory = factory.ObjectFactory()
        self.attribute_factory = attribute_factory.AttributeFactory()
        self.db = sqlalchemy.create_engine("sqlite://")
        sqltypes.Base.metadata.create_all(self.db)
        self.Session = sessionmaker(bind=self.db)
        self.sqlalchemy = sqlalchemy
        # the engine's own conversion; the method reads nothing of the engine instance
        self.kmip_engine = engine_mod.KmipEngine.__new__(engine_mod.KmipEngine)
        E = enums
        self.cp_enums = [E.BlockCipherMode, E.PaddingMethod, E.HashingAlgorithm, E.KeyRoleType,
                         E.DigitalSignatureAlgorithm, E.CryptographicAlgorithm]
        masks = [e.value for e in E.CryptographicUsageMask]
        assert masks == [1 << i for i in range(24)], "CryptographicUsageMask is not 24 single bits in order"

    def close(self):
        self.db.dispose()


# ------------------------------------------------------------------ JSON <-> Python values
def fv(v):
    if v is None:
        return {"k": "none"}
    if isinstance(v, bool):
        return {"k": "bool", "v": v}
    if isinstance(v, enum.Enum):
        return {"k": "enum", "v": v.value}
    if isinstance(v, int):
        return {"k": "int", "v": v}
    if isinstance(v, (bytes, bytearray)):
        return {"k": "bytes", "v": bytes(v).hex()}
    return {"k": "text", "v": str(v)}


def unfv(j, enum_cls=None):
    k = j["k"]
    if k == "none":
        return None
    if k == "enum":
        return enum_cls(j["v"])
    if k == "bytes":
        return bytes.fromhex(j["v"])
    return j["v"]


def ev(x):
    return None if x is None else x.value


def wrap_dict_of_json(I, w):
    """WrapDict JSON -> the dictionary a pie constructor takes (`None`: no wrapping data)"""
    if w is None:
        return None

    def ki(k):
        if k is None:
            return {}
        cp = k["cp"]
        return {"unique_identifier": unfv(k["uid"]),
                "cryptographic_parameters": None if cp is None else {
                    f: unfv(cp[i], I.cp_enums[i] if i < 6 else None) for i, f in enumerate(CP_FIELDS)}}
    return {"wrapping_method": unfv(w["method"], I.enums.WrappingMethod), "encryption_key_information": ki(w["eki"]),
            "mac_signature_key_information": ki(w["mski"]), "mac_signature": unfv(w["macSig"]),
            "iv_counter_nonce": unfv(w["iv"]), "encoding_option": unfv(w["encoding"], I.enums.EncodingOption)}


def wrap_json_of_dict(w):
    """the `key_wrapping_data` property's dictionary -> WrapDict JSON (`{}` / None = null)"""
    if not w:
        return None

    def ki(k):
        if not k:
            return None
        cp = k.get("cryptographic_parameters")
        return {"uid": fv(k.get("unique_identifier")), "cp": None if not cp else [fv(cp.get(f)) for f in CP_FIELDS]}
    return {"method": fv(w.get("wrapping_method")), "eki": ki(w.get("encryption_key_information")),
            "mski": ki(w.get("mac_signature_key_information")), "macSig": fv(w.get("mac_signature")),
            "iv": fv(w.get("iv_counter_nonce")), "encoding": fv(w.get("encoding_option"))}


# ------------------------------------------------------------------ core secrets
def build_core_wrap(I, w):
    if w is None:
        return None

    def ki(cls, k):
        if k is None:
            return None
        cp = k["cp"]
        cpo = None
        if cp is not None:
            cpo = I.attributes.CryptographicParameters(**{
                f: unfv(cp[i], I.cp_enums[i] if i < 6 else None) for i, f in enumerate(CP_FIELDS)})
        return cls(unique_identifier=unfv(k["uid"]), cryptographic_parameters=cpo)
    return I.co.KeyWrappingData(
        wrapping_method=unfv(w["method"], I.enums.WrappingMethod),
        encryption_key_information=ki(I.co.EncryptionKeyInformation, w["eki"]),
        mac_signature_key_information=ki(I.co.MACSignatureKeyInformation, w["mski"]),
        mac_signature=unfv(w["macSig"]), iv_counter_nonce=unfv(w["iv"]),
        encoding_option=unfv(w["encoding"], I.enums.EncodingOption))


def build_fld(j, make):
    """'absent' -> None, 'unset' -> a wrapper holding None, value -> wrapper"""
    if j == "absent":
        return None
    if j == "unset":
        w = make(None)
        w.value = None          # `CryptographicLength(None)` would hold 0
        return w
    return make(j)


def build_kb(I, kb):
    if kb is None:
        return None
    E = I.enums
    kv = None
    if kb["keyValue"] is not None:
        m = kb["keyValue"]["material"]
        attrs = [I.attribute_factory.create_attribute(E.AttributeType.CRYPTOGRAPHIC_LENGTH, 8 * (i + 1))
                 for i in range(kb["keyValue"]["attrs"])]
        if m == "struct":
            kv = I.co.KeyValue(attributes=attrs)
            kv.key_material = I.co.KeyMaterialStruct()       # what KeyValue.read builds for a transparent key
        else:
            kv = I.co.KeyValue(I.co.KeyMaterial(bytes.fromhex(m["bytes"])), attrs)
    return I.co.KeyBlock(
        key_format_type=build_fld(kb["format"], lambda v: I.misc.KeyFormatType(None if v is None else E.KeyFormatType(v))),
        key_compression_type=None if kb["compression"] is None else
        I.co.KeyBlock.KeyCompressionType(E.KeyCompressionType(kb["compression"])),
        key_value=kv,
        cryptographic_algorithm=build_fld(kb["alg"], lambda v: I.attributes.CryptographicAlgorithm(
            None if v is None else E.CryptographicAlgorithm(v))),
        cryptographic_length=build_fld(kb["len"], lambda v: I.attributes.CryptographicLength(v)),
        key_wrapping_data=build_core_wrap(I, kb["wrapping"]))


def build_core(I, c):
    E, S = I.enums, I.secrets
    t = c["t"]
    if t == "certificate":
        return S.Certificate(E.CertificateType(c["certType"]), bytes.fromhex(c["value"]))
    if t == "key":
        return {"symmetric": S.SymmetricKey, "publicKey": S.PublicKey, "privateKey": S.PrivateKey}[c["kk"]](build_kb(I, c["kb"]))
    if t == "splitKey":
        s = c["split"]
        return S.SplitKey(split_key_parts=s["parts"], key_part_identifier=s["partId"], split_key_threshold=s["threshold"],
                          split_key_method=None if s["method"] is None else E.SplitKeyMethod(s["method"]),
                          prime_field_size=s["primeFieldSize"], key_block=build_kb(I, c["kb"]))
    if t == "secretData":
        return S.SecretData(build_fld(c["dataType"], lambda v: S.SecretData.SecretDataType(
            None if v is None else E.SecretDataType(v))), build_kb(I, c["kb"]))
    if t == "opaque":
        return S.OpaqueObject(
            build_fld(c["opaqueType"], lambda v: S.OpaqueObject.OpaqueDataType(None if v is None else E.OpaqueDataType(v))),
            None if c["value"] is None else S.OpaqueObject.OpaqueDataValue(bytes.fromhex(c["value"])))
    raise ValueError(t)


def desc_fld(w):
    if w is None:
        return "absent"
    if w.value is None:
        return "unset"
    return ev(w.value) if isinstance(w.value, enum.Enum) else w.value


def desc_core_wrap(w):
    if w is None:
        return None

    def ki(k):
        if k is None:
            return None
        cp = k.cryptographic_parameters
        return {"uid": fv(k.unique_identifier), "cp": None if cp is None else [fv(getattr(cp, f)) for f in CP_FIELDS]}
    return {"method": fv(w.wrapping_method), "eki": ki(w.encryption_key_information),
            "mski": ki(w.mac_signature_key_information), "macSig": fv(w.mac_signature),
            "iv": fv(w.iv_counter_nonce), "encoding": fv(w.encoding_option)}


def desc_kb(I, kb):
    if kb is None:
        return None
    kv = None
    if kb.key_value is not None:
        m = kb.key_value.key_material
        kv = {"material": "struct" if isinstance(m, I.co.KeyMaterialStruct) else {"bytes": bytes(m.value).hex()},
              "attrs": len(kb.key_value.attributes)}
    return {"format": desc_fld(kb.key_format_type),
            "compression": None if kb.key_compression_type is None else ev(kb.key_compression_type.value),
            "keyValue": kv, "alg": desc_fld(kb.cryptographic_algorithm), "len": desc_fld(kb.cryptographic_length),
            "wrapping": desc_core_wrap(kb.key_wrapping_data)}


def desc_core(I, s):
    S = I.secrets
    if isinstance(s, S.Certificate):
        return {"t": "certificate", "certType": ev(s.certificate_type.value), "value": bytes(s.certificate_value.value).hex()}
    for kk, cls in (("symmetric", S.SymmetricKey), ("publicKey", S.PublicKey), ("privateKey", S.PrivateKey)):
        if isinstance(s, cls):
            return {"t": "key", "kk": kk, "kb": desc_kb(I, s.key_block)}
    if isinstance(s, S.SplitKey):
        return {"t": "splitKey", "kb": desc_kb(I, s.key_block),
                "split": {"parts": s.split_key_parts, "partId": s.key_part_identifier, "threshold": s.split_key_threshold,
                          "method": ev(s.split_key_method), "primeFieldSize": s.prime_field_size}}
    if isinstance(s, S.SecretData):
        return {"t": "secretData", "dataType": desc_fld(s.secret_data_type), "kb": desc_kb(I, s.key_block)}
    if isinstance(s, S.OpaqueObject):
        return {"t": "opaque", "opaqueType": desc_fld(s.opaque_data_type),
                "value": None if s.opaque_data_value is None else bytes(s.opaque_data_value.value).hex()}
    raise ValueError(type(s))


# ------------------------------------------------------------------ pie objects
KDW_CP = ["block_cipher_mode", "padding_method", "hashing_algorithm", "key_role_type", "digital_signature_algorithm",
          "cryptographic_algorithm", "random_iv", "iv_length", "tag_length", "fixed_field_length",
          "invocation_field_length", "counter_length", "initial_counter_value"]


KEY_COLUMNS = (["cryptographic_algorithm", "cryptographic_length", "key_format_type", "_kdw_wrapping_method",
                "_kdw_eki_unique_identifier"] + ["_kdw_eki_cp_" + f for f in KDW_CP] + ["_kdw_mski_unique_identifier"]
               + ["_kdw_mski_cp_" + f for f in KDW_CP] + ["_kdw_mac_signature", "_kdw_iv_counter_nonce",
                                                            "_kdw_encoding_option"])


def desc_cols(o):
    return {"method": fv(o._kdw_wrapping_method), "ekiUid": fv(o._kdw_eki_unique_identifier),
            "ekiCp": [fv(getattr(o, "_kdw_eki_cp_" + f)) for f in KDW_CP],
            "mskiUid": fv(o._kdw_mski_unique_identifier),
            "mskiCp": [fv(getattr(o, "_kdw_mski_cp_" + f)) for f in KDW_CP],
            "macSig": fv(o._kdw_mac_signature), "iv": fv(o._kdw_iv_counter_nonce), "encoding": fv(o._kdw_encoding_option)}


def desc_pie(I, o):
    P = I.po
    crypto = None
    if isinstance(o, P.CryptographicObject):
        crypto = {"masks": [m.value for m in o.cryptographic_usage_masks], "state": ev(o.state)}
    key = None
    if isinstance(o, P.Key):
        key = {"alg": ev(o.cryptographic_algorithm), "len": o.cryptographic_length, "format": ev(o.key_format_type),
               "cols": desc_cols(o)}
    if isinstance(o, P.X509Certificate):
        spec = {"t": "certificate", "crypto": crypto, "certType": ev(o.certificate_type)}
    elif isinstance(o, P.SplitKey):
        spec = {"t": "splitKey", "crypto": crypto, "key": key,
                "split": {"parts": o.split_key_parts, "partId": o.key_part_identifier, "threshold": o.split_key_threshold,
                          "method": ev(o.split_key_method), "primeFieldSize": o.prime_field_size}}
    elif isinstance(o, (P.SymmetricKey, P.PublicKey, P.PrivateKey)):
        kk = "symmetric" if isinstance(o, P.SymmetricKey) else "publicKey" if isinstance(o, P.PublicKey) else "privateKey"
        spec = {"t": "key", "crypto": crypto, "kk": kk, "key": key}
    elif isinstance(o, P.SecretData):
        spec = {"t": "secretData", "crypto": crypto, "dataType": ev(o.data_type)}
    elif isinstance(o, P.OpaqueObject):
        spec = {"t": "opaque", "opaqueType": ev(o.opaque_type)}
    else:
        raise ValueError(type(o))
    return {"spec": spec, "objectType": ev(o._object_type), "value": None if o.value is None else bytes(o.value).hex(),
            "names": [{"name": n.name, "index": n.index, "nameType": ev(n.name_type)} for n in o._names],
            "nameIndex": o.name_index, "policy": o.operation_policy_name, "sensitive": bool(o.sensitive),
            "initialDate": o.initial_date, "owner": o._owner}


def build_pie(I, a):
    """real constructor call from an argument description (may raise what the constructor raises)"""
    E, P = I.enums, I.po
    alg = None if a.get("alg") is None else E.CryptographicAlgorithm(a["alg"])
    fmt = None if a.get("format") is None else E.KeyFormatType(a["format"])
    val = None if a.get("value") is None else bytes.fromhex(a["value"])
    w = wrap_dict_of_json(I, a.get("wrap"))
    c = a["cls"]
    if c == "symmetric":
        return P.SymmetricKey(alg, a["len"], val, key_wrapping_data=w)
    if c == "publicKey":
        return P.PublicKey(alg, a["len"], val, fmt, key_wrapping_data=w)
    if c == "privateKey":
        return P.PrivateKey(alg, a["len"], val, fmt, key_wrapping_data=w)
    if c == "splitKey":
        s = a["split"]
        return P.SplitKey(cryptographic_algorithm=alg, cryptographic_length=a["len"], key_value=val, key_format_type=fmt,
                          key_wrapping_data=w, split_key_parts=s["parts"], key_part_identifier=s["partId"],
                          split_key_threshold=s["threshold"],
                          split_key_method=None if s["method"] is None else E.SplitKeyMethod(s["method"]),
                          prime_field_size=s["primeFieldSize"])
    if c == "certificate":
        return P.X509Certificate(val)
    if c == "secretData":
        return P.SecretData(val, None if a.get("type") is None else E.SecretDataType(a["type"]))
    if c == "opaque":
        return P.OpaqueObject(val, None if a.get("type") is None else E.OpaqueDataType(a["type"]))
    raise ValueError(c)


def mutate(I, o, mut):
    """what the engine / a client does to the attribute part after construction"""
    E, P = I.enums, I.po
    if not mut:
        return
    if "names" in mut:
        o.names = []                       # engine.py l.2034
        o.names.extend(mut["names"])        # engine.py l.885
    if "masks" in mut and isinstance(o, P.CryptographicObject):
        o.cryptographic_usage_masks = [E.CryptographicUsageMask(m) for m in mut["masks"]]
    if "state" in mut and isinstance(o, P.CryptographicObject):
        o.state = None if mut["state"] is None else E.State(mut["state"])
    if "policy" in mut:
        o.operation_policy_name = mut["policy"]
    if "sensitive" in mut:
        o.sensitive = mut["sensitive"]
    if "initialDate" in mut:
        o.initial_date = mut["initialDate"]
    if "owner" in mut:
        o._owner = mut["owner"]


# ------------------------------------------------------------------ raw rows
def read_row(I, uid):
    """the stored rows of one object, read with plain SQL (no type decorators)"""
    with I.db.connect() as c:
        def one(table, cols):
            r = c.exec_driver_sql("SELECT %s FROM %s WHERE uid = ?" % (", ".join('"%s"' % x for x in cols), table),
                                  (uid,)).fetchone()
            return None if r is None else dict(zip(cols, r))
        mo = one("managed_objects", ["object_type", "class_type", "value", "name_index", "operation_policy_name",
                                     "sensitive", "initial_date", "owner"])
        ct = mo["class_type"]
        names = c.exec_driver_sql("SELECT name, name_index, name_type FROM managed_object_names WHERE mo_uid = ? "
                                  "ORDER BY id", (uid,)).fetchall()
        co = one("crypto_objects", ["cryptographic_usage_mask", "state"])
        k = sp = ce = sd = op = None
        if ct in ("SymmetricKey", "PublicKey", "PrivateKey", "SplitKey"):
            k = one("keys", KEY_COLUMNS)
        if ct == "SplitKey":
            sp = one("split_keys", ["_split_key_parts", "_key_part_identifier", "_split_key_threshold",
                                    "_split_key_method", "_prime_field_size"])
        if ct == "X509Certificate":
            ce = one("certificates", ["certificate_type"])
        if ct == "SecretData":
            sd = one("secret_data_objects", ["data_type"])
        if ct == "OpaqueData":
            op = one("opaque_objects", ["opaque_type"])
    crypto = None if co is None else {"mask": co["cryptographic_usage_mask"], "state": co["state"]}
    key = None
    if k is not None:
        def rawfv(v, kind):
            if v is None:
                return {"k": "none"}
            if kind == "bool":
                return {"k": "bool", "v": bool(v)}
            if kind == "bytes":
                return {"k": "bytes", "v": bytes(v).hex()}
            if kind == "text":
                return {"k": "text", "v": v}
            return {"k": "int", "v": v}

        def cp(prefix):
            return [rawfv(k[prefix + f], "bool" if f == "random_iv" else "int") for f in KDW_CP]
        key = {"alg": k["cryptographic_algorithm"], "len": k["cryptographic_length"], "format": k["key_format_type"],
               "cols": {"method": rawfv(k["_kdw_wrapping_method"], "int"),
                        "ekiUid": rawfv(k["_kdw_eki_unique_identifier"], "text"), "ekiCp": cp("_kdw_eki_cp_"),
                        "mskiUid": rawfv(k["_kdw_mski_unique_identifier"], "text"), "mskiCp": cp("_kdw_mski_cp_"),
                        "macSig": rawfv(k["_kdw_mac_signature"], "bytes"), "iv": rawfv(k["_kdw_iv_counter_nonce"], "bytes"),
                        "encoding": rawfv(k["_kdw_encoding_option"], "int")}}
    if ct == "X509Certificate":
        spec = {"t": "certificate", "crypto": crypto, "certType": ce["certificate_type"]}
    elif ct in ("SymmetricKey", "PublicKey", "PrivateKey"):
        spec = {"t": "key", "crypto": crypto, "key": key,
                "kk": {"SymmetricKey": "symmetric", "PublicKey": "publicKey", "PrivateKey": "privateKey"}[ct]}
    elif ct == "SplitKey":
        spec = {"t": "splitKey", "crypto": crypto, "key": key,
                "split": {"parts": sp["_split_key_parts"], "partId": sp["_key_part_identifier"],
                          "threshold": sp["_split_key_threshold"], "method": sp["_split_key_method"],
                          "primeFieldSize": sp["_prime_field_size"]}}
    elif ct == "SecretData":
        spec = {"t": "secretData", "crypto": crypto, "dataType": sd["data_type"]}
    elif ct == "OpaqueData":
        spec = {"t": "opaque", "opaqueType": op["opaque_type"]}
    else:
        raise ValueError(ct)
    return {"spec": spec, "classType": ct, "objectType": mo["object_type"],
            "value": None if mo["value"] is None else bytes(mo["value"]).hex(), "nameIndex": mo["name_index"],
            "names": [{"name": n[0], "index": n[1], "nameType": n[2]} for n in names],
            "policy": mo["operation_policy_name"], "sensitive": bool(mo["sensitive"]),
            "initialDate": mo["initial_date"], "owner": mo["owner"]}


# ------------------------------------------------------------------ generation
def gen_bytes(r, lens=(0, 1, 8, 16, 24, 32, 33, 300, 1100)):
    n = r.choice(lens)
    return bytes(r.randrange(256) for _ in range(n)).hex() if n < 64 else (bytes([r.randrange(256)]) * n).hex()


def gen_cp(r, I):
    x = r.random()
    if x < 0.2:
        return None
    if x < 0.3:
        return [fv(None)] * 13
    out = []
    for i in range(13):
        y = r.random()
        if i < 6:
            out.append(fv(r.choice(list(I.cp_enums[i]))) if y < 0.25 else fv(None))
        elif i == 6:
            out.append(fv(r.choice([None, None, True, False])))
        else:
            out.append(fv(r.choice([None, None, 0, 0, 1, 16, 2147483647, -1])))
    return out


def gen_wrap(r, I):
    E = I.enums

    def ki():
        if r.random() < 0.3:
            return None
        return {"uid": fv(r.choice([None, "", "7", "abc"])), "cp": gen_cp(r, I)}
    return {"method": fv(r.choice([None] + list(E.WrappingMethod))), "eki": ki(), "mski": ki(),
            "macSig": fv(r.choice([None, None, b"", b"\x01\x02"])), "iv": fv(r.choice([None, None, b"", b"\x00" * 8])),
            "encoding": fv(r.choice([None] + list(E.EncodingOption)))}


def gen_kb(r, I, kind):
    E = I.enums
    value = gen_bytes(r)
    nbits = 8 * (len(value) // 2)
    x = r.random()
    wrapping = gen_wrap(r, I) if x < 0.35 else None
    if kind == "symmetric":
        fmt = r.choice([1, 1, 1, 1, 1, 1, r.choice([e.value for e in E.KeyFormatType])])
    elif kind == "secretData":
        fmt = r.choice([2, 2, 1, r.choice([e.value for e in E.KeyFormatType])])
    elif kind in VALID_FORMATS and r.random() < 0.7:
        fmt = r.choice(VALID_FORMATS[kind])
    else:
        fmt = r.choice([e.value for e in E.KeyFormatType])
    length = r.choice([nbits] * 12 + [0, 128, nbits + 8, -8, 2147483647])
    alg = r.choice([e.value for e in E.CryptographicAlgorithm])
    kb = {"format": fmt, "compression": None if r.random() < 0.93 else r.choice([e.value for e in E.KeyCompressionType]),
          "keyValue": {"material": {"bytes": value}, "attrs": 0 if r.random() < 0.93 else r.choice([1, 2])},
          "alg": alg, "len": length, "wrapping": wrapping}
    if kind == "secretData" and r.random() < 0.75:
        kb["alg"], kb["len"] = "absent", "absent"
    y = r.random()
    if y < 0.02:
        kb["alg"] = r.choice(["absent", "unset"])
    elif y < 0.04:
        kb["len"] = r.choice(["absent", "unset"])
    elif y < 0.06:
        kb["format"] = r.choice(["absent", "unset"])
    elif y < 0.07:
        kb["keyValue"] = None
    elif y < 0.09:
        kb["keyValue"]["material"] = "struct"
    elif y < 0.10:
        return None
    return kb


def gen_core(r, I, kind):
    E = I.enums
    if kind == "certificate":
        return {"t": "certificate", "certType": r.choice([1, 1, 1, 2]), "value": gen_bytes(r)}
    if kind in ("symmetric", "publicKey", "privateKey"):
        return {"t": "key", "kk": kind, "kb": gen_kb(r, I, kind)}
    if kind == "splitKey":
        big = r.choice([None, None, 7, 2 ** 63 - 1, 2 ** 63, 2 ** 200 + 3, -5])
        return {"t": "splitKey", "kb": gen_kb(r, I, kind),
                "split": {"parts": r.choice([None, 0, 3, 5, 2147483647]), "partId": r.choice([None, 1, 2, -1]),
                          "threshold": r.choice([None, 2, 3]),
                          "method": r.choice([None] + [e.value for e in E.SplitKeyMethod]), "primeFieldSize": big}}
    if kind == "secretData":
        x = r.random()
        return {"t": "secretData", "kb": gen_kb(r, I, kind),
                "dataType": "absent" if x < 0.03 else "unset" if x < 0.06 else r.choice([e.value for e in E.SecretDataType])}
    x = r.random()
    return {"t": "opaque", "opaqueType": "absent" if x < 0.03 else "unset" if x < 0.06 else E.OpaqueDataType.NONE.value,
            "value": None if r.random() < 0.03 else gen_bytes(r)}


def gen_mut(r, I):
    U = [e.value for e in I.enums.CryptographicUsageMask]
    mut = {}
    x = r.random()
    if x < 0.7:
        mut["masks"] = r.choice([[], list(U), list(reversed(U)), [U[2], U[3]], [U[3], U[2], U[3]], [U[23]],
                                 r.sample(U, r.randrange(1, 8))])
    if r.random() < 0.6:
        mut["names"] = r.choice([[], ["k"], ["key one", "key two"], ["a", "b", "a"], ["n-%d" % r.randrange(1000)], [""]])
    if r.random() < 0.4:
        mut["policy"] = r.choice([None, "default", "public", ""])
    if r.random() < 0.3:
        mut["sensitive"] = r.random() < 0.5
    if r.random() < 0.4:
        mut["initialDate"] = r.choice([0, 1, 1700000000, 2 ** 62])
    if r.random() < 0.5:
        mut["owner"] = r.choice([None, "alice", ""])
    if r.random() < 0.25:
        mut["state"] = r.choice([None] + [e.value for e in I.enums.State])
    return mut


def gen_pie_wrap(r, I):
    """dictionary for a pie constructor: typed as `gen_wrap`, sometimes with a value of another Python type"""
    w = gen_wrap(r, I)
    if r.random() < 0.25:
        bad = r.choice([("method", fv("x")), ("macSig", fv("text")), ("iv", fv(5)), ("encoding", fv(1)),
                        ("uid", fv(7)), ("cp-enum", fv(3)), ("cp-bool", fv(1)), ("cp-int", fv("16")), ("cp-int", fv(True)),
                        ("cp-int", fv(2 ** 31)), ("cp-int", fv(2 ** 70))])
        if bad[0] in ("method", "macSig", "iv", "encoding"):
            w[bad[0]] = bad[1]
        else:
            k = {"uid": fv("7"), "cp": [fv(None)] * 13}
            if bad[0] == "uid":
                k["uid"] = bad[1]
            else:
                k["cp"] = list(k["cp"])
                k["cp"][{"cp-enum": r.randrange(6), "cp-bool": 6, "cp-int": r.randrange(7, 13)}[bad[0]]] = bad[1]
            w[r.choice(["eki", "mski"])] = k
    return w


def gen_pie_args(r, I, kind):
    E = I.enums
    value = gen_bytes(r)
    nbits = 8 * (len(value) // 2)
    a = {"cls": kind, "value": value}
    if kind in ("symmetric", "publicKey", "privateKey", "splitKey"):
        a["alg"] = r.choice([e.value for e in E.CryptographicAlgorithm])
        a["len"] = r.choice([nbits] * 9 + [0, nbits + 8, 2 ** 31 - 1, 2 ** 31, 2 ** 40, -2 ** 31 - 1, 2 ** 70])
        a["format"] = r.choice(VALID_FORMATS[kind]) if kind in VALID_FORMATS and r.random() < 0.7 else \
            r.choice([e.value for e in E.KeyFormatType])
        a["wrap"] = gen_pie_wrap(r, I) if r.random() < 0.5 else None
        if kind != "splitKey" and r.random() < 0.08:
            a[r.choice(["alg", "len", "format"])] = None
    if kind == "splitKey":
        a["split"] = {"parts": r.choice([None, 3, 2 ** 31, 2 ** 64]), "partId": r.choice([None, 1, -2 ** 31 - 1]),
                      "threshold": r.choice([None, 2, 2 ** 63]), "method": r.choice([None] + [e.value for e in E.SplitKeyMethod]),
                      "primeFieldSize": r.choice([None, 7, 2 ** 63 - 1, 2 ** 63, -2 ** 63 - 1, 2 ** 130 + 1])}
        for f in ("alg", "len", "value", "format"):
            if r.random() < 0.12:
                a[f] = None
    if kind in ("secretData", "opaque"):
        pool = E.SecretDataType if kind == "secretData" else E.OpaqueDataType
        a["type"] = None if r.random() < 0.08 else r.choice([e.value for e in pool])
    return a


def desc_from_args(I, a):
    """description of the object the constructor WOULD hold (used when it refuses); checked against the real object
    whenever the constructor accepts"""
    kind = a["cls"]
    crypto = {"masks": [], "state": 1}
    dname = {"certificate": "X.509 Certificate", "symmetric": "Symmetric Key", "publicKey": "Public Key",
             "privateKey": "Private Key", "splitKey": "Split Key", "secretData": "Secret Data", "opaque": "Opaque Object"}
    ot = {"certificate": 1, "symmetric": 2, "publicKey": 3, "privateKey": 4, "splitKey": 5, "secretData": 7, "opaque": 8}
    if kind == "certificate":
        spec = {"t": "certificate", "crypto": crypto, "certType": 1}
    elif kind in ("secretData", "opaque"):
        spec = {"t": kind, ("dataType" if kind == "secretData" else "opaqueType"): a.get("type")}
        if kind == "secretData":
            spec["crypto"] = crypto
    else:
        # the columns are whatever the Key constructor stored: take them from a real SplitKey (no validation)
        probe = I.po.SplitKey(key_wrapping_data=wrap_dict_of_json(I, a.get("wrap")))
        key = {"alg": a.get("alg"), "len": a.get("len"), "format": 1 if kind == "symmetric" else a.get("format"),
               "cols": desc_cols(probe)}
        spec = {"t": "splitKey" if kind == "splitKey" else "key", "crypto": crypto, "key": key}
        if kind == "splitKey":
            spec["split"] = a["split"]
        else:
            spec["kk"] = kind
    return {"spec": spec, "objectType": ot[kind], "value": a.get("value"),
            "names": [{"name": dname[kind], "index": 0, "nameType": 1}], "nameIndex": 1, "policy": None,
            "sensitive": False, "initialDate": 0, "owner": None}


# ------------------------------------------------------------------ views for the monitors (implementation only)
def secret_view(I, o):
    """what C05 says must come back: class, value, algorithm, length, format, wrapping data, type-specific fields"""
    d = {"class": type(o).__name__, "value": None if o.value is None else bytes(o.value).hex()}
    for f in ("cryptographic_algorithm", "cryptographic_length", "key_format_type", "certificate_type", "data_type",
              "opaque_type", "split_key_parts", "key_part_identifier", "split_key_threshold", "split_key_method",
              "prime_field_size"):
        if hasattr(o, f):
            v = getattr(o, f)
            d[f] = getattr(v, "value", v)
    if hasattr(o, "key_wrapping_data"):
        d["wrapping"] = wrap_json_of_dict(o.key_wrapping_data)
    return d


def pie_eq(I, a, b):
    """the classes' own `__eq__`; SplitKey's also compares names and masks, which no conversion carries"""
    if isinstance(a, I.po.SplitKey):
        return isinstance(b, I.po.SplitKey)
    return bool(a == b)


def attr_view(I, o):
    d = {"names": [(n.name, n.index, ev(n.name_type)) for n in o._names], "name_index": o.name_index,
         "policy": o.operation_policy_name if o.operation_policy_name is not None else "default",
         "sensitive": bool(o.sensitive), "initial_date": o.initial_date, "owner": o._owner, "type": ev(o._object_type)}
    if hasattr(o, "cryptographic_usage_masks"):
        d["masks"] = sorted(set(m.value for m in o.cryptographic_usage_masks))
        d["state"] = ev(o.state)
    return d


def truthy(j):
    return j["k"] != "none" and (j["k"] == "enum" or bool(j["v"]))


def wrap_normal(w):
    """the Lean predicate WrapDict.Normal on a WrapDict JSON (domain of the fidelity theorems)"""
    if w is None:
        return True

    def ki_ok(k):
        if k is None:
            return True
        if k["cp"] is not None and not any(truthy(x) for x in k["cp"]):
            return False
        return truthy(k["uid"]) or k["cp"] is not None
    if not ki_ok(w["eki"]) or not ki_ok(w["mski"]):
        return False
    return any([truthy(w["method"]), w["eki"] is not None, w["mski"] is not None, truthy(w["macSig"]), truthy(w["iv"]),
                truthy(w["encoding"])])


# repaired in /repo (683f968, 8b96c42): such a secret must be REFUSED by the object factory; if it is accepted again the
# monitors below report it under these signatures with the secret as replay
REPAIRED = {"secret-data-wrapping-data-dropped": "c05:secret-data-wrapping-data-dropped",
            "split-key-prime-field-size-not-storable": "c05:split-key-prime-field-size-not-storable"}


def storable_exceptions(c):
    """why a core secret is outside the domain of `register_get_exact` (empty list: inside).  The REPAIRED classes
    are outside as well, but the factory refuses them, so nothing of them is ever stored."""
    out = []
    kb = c.get("kb")
    if kb is not None:
        if "unset" in (kb["format"], kb["alg"], kb["len"]):
            out.append("wrapper-without-value-not-encodable")
        if kb["compression"] is not None:
            out.append("key-compression-type-dropped")
        if kb["keyValue"] is not None and kb["keyValue"]["attrs"]:
            out.append("key-value-attributes-dropped")
        if c["t"] == "secretData":
            if kb["format"] != 2:
                out.append("secret-data-format-reported-opaque")
            if kb["alg"] != "absent" or kb["len"] != "absent":
                out.append("secret-data-algorithm-length-dropped")
            if kb["wrapping"] is not None:
                out.append("secret-data-wrapping-data-dropped")
        elif not wrap_normal(kb["wrapping"]):
            out.append("falsy-wrapping-parameters-dropped")
    if c["t"] == "splitKey" and c["split"]["primeFieldSize"] is not None \
            and not (-2 ** 63 <= c["split"]["primeFieldSize"] < 2 ** 63):
        out.append("split-key-prime-field-size-not-storable")
    return out


# ------------------------------------------------------------------ one case through the real code
def exc_desc(e):
    return {"cls": type(e).__name__, "msg": str(e)}


def store_and_load(I, o, then):
    """session add / commit, then a query in a new session; `then(loaded)` runs inside that session"""
    with I.Session() as s:
        s.add(o)
        s.commit()
        uid = o.unique_identifier
    row = read_row(I, uid)
    with I.Session() as s:
        b = s.query(I.po.ManagedObject).filter(I.po.ManagedObject.unique_identifier == uid).one()
        return row, then(b)


def run_case(I, case):
    """returns the list of hop records {hop, input, impl} (model input = the REAL input of the hop) and monitor
    failures [(signature, what)]"""
    hops, fails, notes = [], [], []
    o = None
    if case["kind"] == "core":
        c = case["core"]
        secret = build_core(I, c)
        back = desc_core(I, secret)
        if back != c:
            fails.append(("c05conv:harness:core-description", "description of the built core secret differs: %s vs %s"
                          % (dumps(back)[:300], dumps(c)[:300])))
        try:
            o = I.factory.convert(secret)
            hops.append({"hop": "coreToPie", "input": {"core": c}, "impl": {"ok": desc_pie(I, o)}})
        except (AttributeError, TypeError, ValueError) as e:
            hops.append({"hop": "coreToPie", "input": {"core": c}, "impl": {"err": exc_desc(e)}})
            return hops, fails, ["refused:" + type(e).__name__]
        # core -> pie -> core: the only differences are the characterised ones
        if not storable_exceptions(c):
            try:
                c2 = desc_core(I, I.factory.convert(o))
                if c2 != c:
                    fails.append(("c05conv:core-pie-core-differs:%s" % c["t"],
                                  "convert(convert(core)) = %s, core = %s" % (dumps(c2)[:400], dumps(c)[:400])))
            except Exception as e:
                fails.append(("c05conv:core-pie-core-raises:%s" % type(e).__name__, str(e)[:200]))
    else:
        a = case["args"]
        want = desc_from_args(I, a)
        try:
            o = build_pie(I, a)
        except (TypeError, ValueError) as e:
            hops.append({"hop": "pieOk", "input": {"pie": want}, "impl": {"ok": False, "err": exc_desc(e)}})
            return hops, fails, ["constructor-refused:" + type(e).__name__]
        got = desc_pie(I, o)
        if got != want:
            fails.append(("c05conv:harness:pie-description", "constructed object differs from the description built "
                          "from its arguments: %s vs %s" % (dumps(got)[:400], dumps(want)[:400])))
        hops.append({"hop": "pieOk", "input": {"pie": got}, "impl": {"ok": True}})
    mutate(I, o, case.get("mut"))
    p = desc_pie(I, o)
    view0, attrs0 = secret_view(I, o), attr_view(I, o)
    clean = all(view0.get(f, 0) is not None for f in ("value", "cryptographic_algorithm", "cryptographic_length",
                                                       "key_format_type"))
    # pie -> core (factory direction), and back
    try:
        core_f = I.factory.convert(o)
        cf = desc_core(I, core_f)
        hops.append({"hop": "pieToCore", "input": {"pie": p}, "impl": {"ok": cf}})
        try:
            q = I.factory.convert(core_f)
            hops.append({"hop": "coreToPie", "input": {"core": cf}, "impl": {"ok": desc_pie(I, q)}})
            if clean and (secret_view(I, q) != view0 or not pie_eq(I, q, o)):
                fails.append(("c05conv:pie-core-pie-differs:%s" % view0["class"],
                              "convert(convert(pie)) = %s, pie = %s" % (dumps(secret_view(I, q))[:400], dumps(view0)[:400])))
        except (AttributeError, TypeError, ValueError) as e:
            hops.append({"hop": "coreToPie", "input": {"core": cf}, "impl": {"err": exc_desc(e)}})
            if clean:
                fails.append(("c05conv:pie-core-pie-refused:%s" % view0["class"], "%s: %s" % (type(e).__name__, e)))
    except (AttributeError, TypeError, ValueError) as e:
        hops.append({"hop": "pieToCore", "input": {"pie": p}, "impl": {"err": exc_desc(e)}})
        notes.append("pieToCore-refused:" + type(e).__name__)
    if case["kind"] == "pie" and case.get("untyped"):
        return hops, fails, notes + ["untyped-columns"]
    # the database round trip, the engine's conversion, the client's conversion
    def then(b):
        rec = {"loaded": desc_pie(I, b), "view": secret_view(I, b), "attrs": attr_view(I, b)}
        try:
            core_e = I.kmip_engine._build_core_object(b)
            rec["core"] = {"ok": desc_core(I, core_e)}
            try:
                q = I.factory.convert(core_e)
                rec["client"] = {"ok": desc_pie(I, q)}
                rec["client_view"] = secret_view(I, q)
                rec["client_eq"] = pie_eq(I, q, b)
            except (AttributeError, TypeError, ValueError) as e:
                rec["client"] = {"err": exc_desc(e)}
        except (AttributeError, TypeError, ValueError) as e:
            rec["core"] = {"err": exc_desc(e)}
        return rec
    try:
        row, rec = store_and_load(I, o, then)
    except Exception as e:
        root = getattr(e, "orig", None) or e.__cause__ or e
        hops.append({"hop": "pieToRow", "input": {"pie": p}, "impl": {"err": exc_desc(root)}})
        if case["kind"] == "core":
            # whatever Register's conversion accepts can be stored (theorem registered_object_is_storable)
            exc = storable_exceptions(case["core"])
            sig = REPAIRED["split-key-prime-field-size-not-storable"] \
                if "split-key-prime-field-size-not-storable" in exc else \
                "c05conv:accepted-secret-not-storable:%s" % type(root).__name__
            fails.append((sig, "a secret the object factory accepted cannot be stored: %s: %s; secret %s"
                          % (type(root).__name__, str(root)[:120], dumps(case["core"])[:400])))
        return hops, fails, notes + ["store-refused:" + type(root).__name__]
    hops.append({"hop": "pieToRow", "input": {"pie": p}, "impl": {"ok": row}})
    hops.append({"hop": "rowToPie", "input": {"row": row}, "impl": {"ok": rec["loaded"]}})
    hops.append({"hop": "engineBuildCore", "input": {"pie": rec["loaded"]}, "impl": rec["core"]})
    if rec["view"] != view0:
        diff = sorted(k for k in set(view0) | set(rec["view"]) if view0.get(k) != rec["view"].get(k))
        fails.append(("c05conv:row-roundtrip-differs:%s" % ",".join(diff),
                      "loaded %s, stored %s" % ({k: rec["view"].get(k) for k in diff}, {k: view0.get(k) for k in diff})))
    if rec["attrs"] != attrs0:
        diff = sorted(k for k in set(attrs0) | set(rec["attrs"]) if attrs0.get(k) != rec["attrs"].get(k))
        fails.append(("c05conv:row-roundtrip-attributes-differ:%s" % ",".join(diff),
                      "loaded %s, stored %s" % ({k: rec["attrs"].get(k) for k in diff}, {k: attrs0.get(k) for k in diff})))
    if "ok" in rec["core"]:
        if "client" in rec:
            hops.append({"hop": "coreToPie", "input": {"core": rec["core"]["ok"]}, "impl": rec["client"]})
            if clean:
                if "err" in rec["client"]:
                    fails.append(("c05conv:client-cannot-convert:%s" % view0["class"], dumps(rec["client"]["err"])[:300]))
                elif rec["client_view"] != view0 or not rec["client_eq"]:
                    fails.append(("c05conv:client-sees-other-object:%s" % view0["class"],
                                  "client %s, stored %s" % (dumps(rec["client_view"])[:400], dumps(view0)[:400])))
        if case["kind"] == "core":
            exc = storable_exceptions(case["core"])
            if "secret-data-wrapping-data-dropped" in exc and \
                    rec["core"]["ok"]["kb"]["wrapping"] != case["core"]["kb"]["wrapping"]:
                fails.append((REPAIRED["secret-data-wrapping-data-dropped"],
                              "a wrapped Secret Data was registered and Get returns it without its key wrapping "
                              "data: registered %s, returned %s" % (dumps(case["core"])[:300],
                                                                   dumps(rec["core"]["ok"])[:300])))
            if exc:
                notes.extend("characterised:" + x for x in exc if x not in REPAIRED)
            elif rec["core"]["ok"] != case["core"]:
                c, g = case["core"], rec["core"]["ok"]
                fails.append(("c05conv:register-get-differs:%s" % c["t"],
                              "Get conversion returned %s, registered %s" % (dumps(g)[:500], dumps(c)[:500])))
    else:
        notes.append("engineBuildCore-refused:" + rec["core"]["err"]["cls"])
    return hops, fails, notes


# ------------------------------------------------------------------ comparison with the model
def agree(hop, impl, model):
    """observation: the whole structural description; for a refusal the exception class and the model's message
    fragment inside the real message"""
    if hop == "pieOk":
        return model.get("ok") == impl["ok"] if "ok" in model else False
    if "ok" in impl:
        return model.get("ok") == impl["ok"]
    if "err" not in model:
        return False
    return model["err"]["cls"] == impl["err"]["cls"] and model["err"]["msg"] in impl["err"]["msg"]


def gen_cases(rng, I, n):
    cases = []
    i = 0
    while len(cases) < n:
        kind = KINDS[i % len(KINDS)]
        i += 1
        if rng.random() < 0.62:
            cases.append({"kind": "core", "core": gen_core(rng, I, kind), "mut": gen_mut(rng, I)})
        else:
            a = gen_pie_args(rng, I, kind)
            case = {"kind": "pie", "args": a, "mut": gen_mut(rng, I)}
            cases.append(case)
    return cases


def is_untyped(I, p):
    """a `_kdw_*` attribute holds a value of another Python type than its column (SQLAlchemy refuses it at flush)"""
    k = p["spec"].get("key")
    if k is None:
        return False
    c = k["cols"]

    def ok(j, kinds):
        return j["k"] in kinds

    def cp_ok(l):
        return all(ok(l[i], ("none", "enum")) for i in range(6)) and ok(l[6], ("none", "bool")) \
            and all(ok(l[i], ("none", "int")) for i in range(7, 13))
    return not (ok(c["method"], ("none", "enum")) and ok(c["ekiUid"], ("none", "text")) and cp_ok(c["ekiCp"])
                and ok(c["mskiUid"], ("none", "text")) and cp_ok(c["mskiCp"]) and ok(c["macSig"], ("none", "bytes"))
                and ok(c["iv"], ("none", "bytes")) and ok(c["encoding"], ("none", "enum")))


def check_cases(ctx, I, cases):
    """run the cases, compare with the model; returns statistics"""
    stats = {"cases": 0, "hops": {}, "per_type": {}, "refusals": {}, "notes": {}, "monitor_failures": 0,
             "divergences": 0, "distinct": set()}
    records = []
    for case in cases:
        if case["kind"] == "pie":
            w = case["args"].get("wrap")
            if w is not None:
                try:
                    probe = I.po.SplitKey(key_wrapping_data=wrap_dict_of_json(I, w))
                    case["untyped"] = is_untyped(I, {"spec": {"key": {"cols": desc_cols(probe)}}})
                except Exception:
                    case["untyped"] = True
        hops, fails, notes = run_case(I, case)
        records.append((case, hops))
        stats["cases"] += 1
        t = case["core"]["t"] if case["kind"] == "core" else case["args"]["cls"]
        t = {"key": case.get("core", {}).get("kk")}.get(t, t) if case["kind"] == "core" else t
        pt = stats["per_type"].setdefault(t, {"cases": 0, "stored": 0, "refused": 0})
        pt["cases"] += 1
        if any(h["hop"] == "pieToRow" and "ok" in h["impl"] for h in hops):
            pt["stored"] += 1
        if any(n.startswith(("refused:", "constructor-refused:")) for n in notes):
            pt["refused"] += 1
        for n in notes:
            stats["notes"][n] = stats["notes"].get(n, 0) + 1
        stats["distinct"].add((t, case["kind"], tuple(sorted(notes)), tuple(h["hop"] + ("+" if "ok" in h["impl"] and
                               h["impl"]["ok"] is not False else "-") for h in hops)))
        for sig, what in fails:
            stats["monitor_failures"] += 1
            ctx.report(sig, what, {"kind": "convert-objects", "case": case})
        if REPORT_CHARACTERISED:
            for n in notes:
                if n.startswith("characterised:") and n[len("characterised:"):] in CHARACTERISED:
                    ctx.report(CHARACTERISED[n[len("characterised:"):]], "Register ; database ; Get does not return "
                               "the registered secret (%s)" % n[len("characterised:"):],
                               {"kind": "convert-objects", "case": case})
    lines, index = [], []
    for ci, (case, hops) in enumerate(records):
        for hi, h in enumerate(hops):
            d = {"cmd": h["hop"]}
            d.update(h["input"])
            lines.append(dumps(d))
            index.append((ci, hi))
    t1 = time.time()
    out = ctx.run_model("ConvertObjects", lines)
    stats["model_seconds"] = time.time() - t1
    for (ci, hi), line, res in zip(index, lines, out):
        case, hops = records[ci]
        h = hops[hi]
        stats["hops"][h["hop"]] = stats["hops"].get(h["hop"], 0) + 1
        if "err" in h["impl"]:
            key = "%s:%s" % (h["hop"], h["impl"]["err"]["cls"])
            stats["refusals"][key] = stats["refusals"].get(key, 0) + 1
        try:
            model = json.loads(res)
        except ValueError:
            model = {"bad": res}
        if not agree(h["hop"], h["impl"], model):
            stats["divergences"] += 1
            ctx.report("correspondence:convert-objects:%s" % h["hop"],
                       "the %s hop of the real code disagrees with the Lean model" % h["hop"],
                       {"kind": "convert-objects", "broken": "correspondence Drivers/ConvertObjects.lean (%s) vs the real "
                        "conversion" % h["hop"], "case": case, "line": line, "impl": h["impl"], "model": model},
                       no_input=True)
    return stats


# the points outside the domain of `register_get_exact` (each has a witness theorem in KmipModel.Props.C05Convert);
# with REPORT_CHARACTERISED they are reported under these signatures instead of only counted
CHARACTERISED = {
    "secret-data-format-reported-opaque": "c05:secret-data-format-reported-opaque",
    "secret-data-algorithm-length-dropped": "c05:secret-data-algorithm-length-dropped",
    "falsy-wrapping-parameters-dropped": "c05:falsy-wrapping-parameters-dropped",
    "key-compression-type-dropped": "c05:key-compression-type-dropped",
    "key-value-attributes-dropped": "c05:key-value-attributes-dropped",
}
REPORT_CHARACTERISED = False


def run(ctx, rng, n=None):
    t0 = time.time()
    I = Impl()
    try:
        if n is None:
            n = 1610 if ctx.tier == "quick" else 20000
        cases = gen_cases(rng, I, n)
        stats = {"cases": 0, "hops": {}, "per_type": {}, "refusals": {}, "notes": {}, "monitor_failures": 0,
                 "divergences": 0, "distinct": set()}
        for i in range(0, len(cases), 6000):
            s = check_cases(ctx, I, cases[i:i + 6000])
            for k in ("cases", "monitor_failures", "divergences", "model_seconds"):
                stats[k] = stats.get(k, 0) + s[k]
            for k in ("hops", "refusals", "notes"):
                for a, b in s[k].items():
                    stats[k][a] = stats[k].get(a, 0) + b
            for a, b in s["per_type"].items():
                d = stats["per_type"].setdefault(a, {"cases": 0, "stored": 0, "refused": 0})
                for f in d:
                    d[f] += b[f]
            stats["distinct"] |= s["distinct"]
    finally:
        I.close()
    return {"convert_objects": stats["cases"], "convert_objects_hops_compared": sum(stats["hops"].values()),
            "convert_objects_hops": stats["hops"], "convert_objects_per_type": stats["per_type"],
            "convert_objects_refusals": stats["refusals"], "convert_objects_notes": stats["notes"],
            "convert_objects_characterised": {k[len("characterised:"):]: v for k, v in stats["notes"].items()
                                              if k.startswith("characterised:")},
            "convert_objects_distinct": len(stats["distinct"]), "convert_objects_divergences": stats["divergences"],
            "convert_objects_monitor_failures": stats["monitor_failures"],
            "convert_objects_sample": cases[0] if cases else None,
            "convert_objects_seconds": round(time.time() - t0, 1),
            "convert_objects_model_seconds": round(stats.get("model_seconds", 0), 1)}


def replay_case(ctx, case, signature=None):
    """re-run one case under the monitors (and the model comparison); True iff everything holds.  For a report made
    under one of the CHARACTERISED signatures: True iff the secret now comes back as registered."""
    I = Impl()
    try:
        hops, fails, notes = run_case(I, json.loads(json.dumps(case)))
        for sig, what in fails:
            print("  monitor:", sig, "-", what[:300])
        ok = not fails
        for k, sig in CHARACTERISED.items():
            if signature == sig and ("characterised:" + k) in notes:
                print("  still outside exact fidelity:", k)
                ok = False
        lines = []
        for h in hops:
            d = {"cmd": h["hop"]}
            d.update(h["input"])
            lines.append(dumps(d))
        for h, res in zip(hops, ctx.run_model("ConvertObjects", lines)):
            try:
                model = json.loads(res)
            except ValueError:
                model = {"bad": res}
            if not agree(h["hop"], h["impl"], model):
                print("  model differs at %s: impl %s model %s" % (h["hop"], dumps(h["impl"])[:300], dumps(model)[:300]))
                ok = False
        return ok
    finally:
        I.close()
