"""
Driving the real policy directory monitor and policy-file parser in-process (C18).

  ImplMonitor      a real PolicyDirectoryMonitor on a private temp directory; files are
                   written / removed / touched with explicit os.utime stamps and
                   scan_policies() is called directly (live_monitoring=False, never start()ed)
  impl_read(text)  read_policy_from_file on a document, observed as
                   ("ok", canonical value) | ("reject",) | ("crash", ExceptionClass)
  canon(value)     canonical JSON text of a parsed policy (enum members by name, empty sections dropped)
  model helpers    encoding of JSON documents / snapshots for Drivers/Monitor.lean, and a
                   run_model usable from worker processes (same command as Ctx.run_model)

No source hooks: `kmip.services.server.monitor.time` is replaced by a counter (the value is only
stored in cache entries, never compared) so that runs are deterministic.
"""
import copy
import json
import logging
import os
import shutil
import signal
import subprocess
import sys
import tempfile
import traceback
import warnings

warnings.filterwarnings("ignore")
logging.disable(logging.CRITICAL)

from kmip.core import enums  # noqa: E402
from kmip.core import policy as core_policy  # noqa: E402
from kmip.services.server import monitor as monitor_mod  # noqa: E402

HERE = os.path.dirname(os.path.abspath(__file__))
LEAN = os.path.join(os.path.dirname(os.path.dirname(HERE)), "lean")


def silence():
    """library noise off (the shared table generator switches logging back on after it ran)"""
    warnings.filterwarnings("ignore")
    logging.disable(logging.CRITICAL)


class _Clock(object):
    """stands in for the `time` module inside kmip.services.server.monitor"""

    def __init__(self):
        self.t = 0.0

    def time(self):
        self.t += 1.0
        return self.t

    def sleep(self, s):
        pass


monitor_mod.time = _Clock()


# ---------------------------------------------------------------------------
# canonical forms
def _conv(v):
    if isinstance(v, dict):
        return {(_k.name if isinstance(_k, enums.enum.Enum) else str(_k)): _conv(x) for _k, x in v.items()}
    if isinstance(v, enums.enum.Enum):
        return v.name
    return v


def canon_obj(value):
    """parsed policy value -> plain dict with enum names; empty / missing sections dropped"""
    c = _conv(value)
    if isinstance(c, dict):
        c = {k: x for k, x in c.items() if not (k in ("preset", "groups") and not x)}
    return c


def canon(value):
    return json.dumps(canon_obj(value), sort_keys=True, separators=(",", ":"))


BUILTIN = {name: canon(v) for name, v in core_policy.policies.items()}     # 'default', 'public'


def live_tables():
    """the name tables the Lean driver must be running with"""
    return {"objectTypes": [t.name for t in enums.ObjectType],
            "operations": [o.name for o in enums.Operation],
            "permissions": [p.name for p in enums.Policy],
            "reserved": _reserved()}


def _reserved():
    m = _new_monitor(tempfile.gettempdir(), {})
    return list(m.reserved_policies)


def _new_monitor(directory, store):
    old_int = signal.getsignal(signal.SIGINT)
    old_term = signal.getsignal(signal.SIGTERM)
    try:
        return monitor_mod.PolicyDirectoryMonitor(directory, store, live_monitoring=False)
    finally:
        try:
            signal.signal(signal.SIGINT, old_int)
            signal.signal(signal.SIGTERM, old_term)
        except (ValueError, TypeError):
            pass


def _scratch_base():
    for d in ("/dev/shm",):
        if os.path.isdir(d) and os.access(d, os.W_OK):
            return d
    return None


def classify_exception(e):
    """(class name, 'parser' | 'scan'): where an exception that escaped scan_policies came from"""
    where = "scan"
    for fr in traceback.extract_tb(e.__traceback__):
        fn = fr.filename.replace("\\", "/")
        if fn.endswith("kmip/core/policy.py") or "/json/" in fn:
            where = "parser"
    return type(e).__name__, where


class ImplMonitor(object):
    def __init__(self):
        silence()
        self.dir = tempfile.mkdtemp(prefix="verif-c18-[site-a]*?-", dir=_scratch_base())   # (a directory name is a name, not a pattern)
        self.builtin_mutated = False       # a built-in policy OBJECT was modified in place
        self.reset()

    def reset(self):
        for fn in os.listdir(self.dir):
            p = os.path.join(self.dir, fn)
            if os.path.isdir(p):
                shutil.rmtree(p)
            else:
                os.remove(p)
        self._memo = {}
        # what server.py l.242-246 puts into the shared store (a private deep copy, made once and
        # re-verified against the pristine canonical form before every reuse)
        b = getattr(self, "_builtins", None)
        if b is not None and any(canon(b[n]) != BUILTIN[n] for n in BUILTIN):
            self.builtin_mutated = True
            b = None
        if b is None:
            b = self._builtins = copy.deepcopy(core_policy.policies)
        self.store = {}
        for name, pol in b.items():
            self.store[name] = pol
        self.mon = _new_monitor(self.dir, self.store)

    # -- directory events ---------------------------------------------------
    def write(self, fname, text, mtime):
        p = os.path.join(self.dir, fname)
        with open(p, "w") as f:
            f.write(text)
        os.utime(p, (mtime, mtime))

    def touch(self, fname, mtime):
        os.utime(os.path.join(self.dir, fname), (mtime, mtime))

    def remove(self, fname):
        os.remove(os.path.join(self.dir, fname))

    # -- one scan -----------------------------------------------------------
    def scan(self):
        """scan_policies(); returns (store as {name: canonical text}, None | (ExceptionClass, where))"""
        exn = None
        try:
            self.mon.scan_policies()
        except Exception as e:  # the monitor process would die here
            exn = classify_exception(e)
        return {k: self._canon(v) for k, v in self.mon.policy_store.items()}, exn

    def _canon(self, v):
        """canon() memoised per policy object (the built-in policies are large); the object is kept
        alive in the memo so its id cannot be reused"""
        e = self._memo.get(id(v))
        if e is None or e[0] is not v:
            e = (v, canon(v))
            self._memo[id(v)] = e
        return e[1]

    def internals(self):
        m = self.mon
        return {"map": {k: os.path.basename(v) for k, v in m.policy_map.items()},
                "cache": {k: [(os.path.basename(e[1]), canon(e[2])) for e in v][::-1] for k, v in m.policy_cache.items()},
                "timestamps": {os.path.basename(k): v for k, v in m.file_timestamps.items()}}

    def close(self):
        shutil.rmtree(self.dir, ignore_errors=True)


_READ_DIR = [None]


def impl_read(text):
    """read_policy_from_file on a document with this text"""
    silence()
    if _READ_DIR[0] is None or not os.path.isdir(_READ_DIR[0]):
        _READ_DIR[0] = tempfile.mkdtemp(prefix="verif-c18r-", dir=_scratch_base())
    p = os.path.join(_READ_DIR[0], "doc-%d.json" % os.getpid())
    with open(p, "w") as f:
        f.write(text)
    try:
        r = core_policy.read_policy_from_file(p)
    except ValueError:
        return ("reject",)
    except Exception as e:
        return ("crash", type(e).__name__)
    return ("ok", {k: canon(v) for k, v in r.items()})


def cleanup_read_dir():
    if _READ_DIR[0] is not None:
        shutil.rmtree(_READ_DIR[0], ignore_errors=True)
        _READ_DIR[0] = None


# ---------------------------------------------------------------------------
# model side
def enc_doc(v):
    """JSON value (as json.loads returns it) -> DOC encoding of Drivers/Monitor.lean (keeps key order)"""
    if isinstance(v, dict):
        return {"o": [[k, enc_doc(x)] for k, x in v.items()]}
    if isinstance(v, list):
        return [enc_doc(x) for x in v]
    if isinstance(v, bool) or v is None or isinstance(v, str):
        return v
    if isinstance(v, int):
        return v if abs(v) < 2 ** 53 else 1
    if isinstance(v, float):
        return 0 if v == 0 else 1          # only truthiness of a number is ever read
    raise TypeError(type(v))


def read_line(text):
    """the `read` line for a document text"""
    try:
        v = json.loads(text)
    except Exception:
        return json.dumps({"op": "read", "unparsable": True})
    return json.dumps({"op": "read", "doc": enc_doc(v)}, separators=(",", ":"))


def model_read_obs(out_line):
    """answer of a `read` line -> the same observation shape as impl_read"""
    if out_line.startswith("bad-op"):
        raise RuntimeError("model driver refused a read line: " + out_line)
    o = json.loads(out_line)
    if "reject" in o:
        return ("reject",)
    if "crash" in o:
        return ("crash", o["crash"])
    res = {}
    for name, pv in o["ok"]:
        val = {}
        if pv["preset"] is not None:
            val["preset"] = {ot: dict(ops) for ot, ops in pv["preset"]}
        if pv["groups"] is not None:
            val["groups"] = {g: {ot: dict(ops) for ot, ops in t} for g, t in pv["groups"]}
        res[name] = canon(val)
    return ("ok", res)


def run_model(lines, timeout=3000):
    """Same command as Ctx.run_model("Monitor", lines); usable from worker processes."""
    data = "\n".join(lines) + "\n"
    cmd = ["lake", "env", "lean", "--run", os.path.join("Drivers", "Monitor.lean")]
    for attempt in range(6):
        p = subprocess.run(cmd, cwd=LEAN, input=data, text=True, timeout=timeout,
                           stdout=subprocess.PIPE, stderr=subprocess.PIPE)
        if p.returncode == 0:
            break
        # another check may be rebuilding the shared library right now (.olean files are replaced
        # under its build lock): wait for it and try again; a real failure persists
        import time as _t
        _t.sleep(5 * (attempt + 1))
    if p.returncode != 0:
        raise RuntimeError("model driver Monitor failed: %s\n%s" % (p.stderr[-2000:], p.stdout[-2000:]))
    out = p.stdout.split("\n")
    if out and out[-1] == "":
        out.pop()
    if len(out) != len(lines):
        raise RuntimeError("model driver Monitor: %d lines in, %d out; stderr=%s" % (len(lines), len(out), p.stderr[-2000:]))
    return out


if __name__ == "__main__":
    im = ImplMonitor()
    try:
        im.write("a.json", json.dumps({"p": {"preset": {"SYMMETRIC_KEY": {"GET": "ALLOW_ALL"}}}}), 1010)
        print(im.scan(), im.internals())
        print(impl_read("[1,2]"), impl_read("{}"), impl_read("nope"))
        print(live_tables()["reserved"])
    finally:
        im.close()
        cleanup_read_dir()
    sys.exit(0)
