"""
Identifier spellings.  The server looks objects up by handing the request's Unique Identifier TEXT to SQLite, which
compares it with the INTEGER identifier column under numeric affinity: "06", " 6", "+6", "6.0", "60e-1", "6\\n" all
address object 6; "0_6", "６" (fullwidth), "6\\xa0" address nothing.  The engine model takes canonical decimal
identifiers only (`parseUid`), and the monitors key their bookkeeping by the store's identifiers.  This module is the
bridge: `canon(text)` asks SQLite ITSELF (an in-memory table of integers - no PyKMIP code involved) which identifier a
spelling addresses and returns its canonical spelling, or the text unchanged when it addresses none; `canon_line` /
`canon_out` rewrite a request line and the implementation's answer accordingly (echoed identifiers and the
"Could not locate object: <text>" messages), so that model and monitors see the request the server's own identifier
grammar makes of it.  What a change to /repo does to that grammar then shows as a divergence and under the monitors.
"""
import copy
import sqlite3
import threading

_LOCK = threading.Lock()        # the model drivers are fed from several threads (diff_engine.run_model_many)
_CON = None
_CACHE = {}
_MAX = 20000


def _con():
    global _CON
    if _CON is None:
        _CON = sqlite3.connect(":memory:", check_same_thread=False)
        _CON.execute("create table t(x INTEGER PRIMARY KEY)")
        _CON.executemany("insert into t values(?)", [(i,) for i in range(0, _MAX)])
    return _CON


def canon(s):
    if not isinstance(s, str):
        return s
    c = _CACHE.get(s)
    if c is None:
        if s.isascii() and s.isdigit() and (s == "0" or not s.startswith("0")):
            c = s
        else:
            with _LOCK:
                rows = _con().execute("select x from t where x = ?", (s,)).fetchall()
            c = str(rows[0][0]) if len(rows) == 1 else s
        if len(_CACHE) < 100000:
            _CACHE[s] = c
    return c


def exotic(s):
    return isinstance(s, str) and canon(s) != s


def _item_uids(it):
    out = []
    if isinstance(it.get("uid"), str):
        out.append(it["uid"])
    for u in it.get("uids") or []:
        if isinstance(u, str):
            out.append(u)
    w = it.get("wrap")
    if isinstance(w, dict) and isinstance(w.get("enckey"), str):
        out.append(w["enckey"])
    return out


def line_has_exotic(j):
    if j.get("cmd") != "req":
        return False
    return any(exotic(u) for it in j["req"]["items"] for u in _item_uids(it))


def canon_line(j):
    """the request line as the server's identifier grammar reads it (a copy; the line itself when nothing changes)"""
    if not line_has_exotic(j):
        return j
    j = copy.deepcopy(j)
    for it in j["req"]["items"]:
        if isinstance(it.get("uid"), str):
            it["uid"] = canon(it["uid"])
        if it.get("uids"):
            it["uids"] = [canon(u) for u in it["uids"]]
        w = it.get("wrap")
        if isinstance(w, dict) and isinstance(w.get("enckey"), str):
            w["enckey"] = canon(w["enckey"])
    return j


def canon_out(j, o):
    """the implementation's answer to raw line j with echoed identifier spellings replaced by the canonical ones"""
    if not line_has_exotic(j) or not isinstance(o, dict) or "results" not in o:
        return o
    o = copy.deepcopy(o)
    for it, r in zip(j["req"]["items"], o["results"]):
        for raw in _item_uids(it):
            c = canon(raw)
            if c == raw:
                continue
            d = r.get("data")
            if isinstance(d, dict):
                for k in ("uid", "pub", "priv"):
                    if d.get(k) == raw:
                        d[k] = c
            m = r.get("msg")
            if isinstance(m, str) and m.endswith(": " + raw):
                r["msg"] = m[:len(m) - len(raw)] + c
    return o
