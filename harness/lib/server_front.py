"""The REAL server front end (kmip/services/server/server.py): a KmipServer built from a configuration file, its own
logging set-up, its own way of dedicating a KmipSession thread to a connection (`_setup_connection_handler`), in front
of a real KmipEngine on a temporary database.  Only the listening socket / TLS wrapping and the policy monitor PROCESS
of `start()` are left out (the engine is created the way `start()` creates it)."""
import copy
import logging
import os
import shutil
import tempfile
import threading

import impl_session as S


class FrontServer(object):
    def __init__(self, logging_level=None, extra_conf="", tls_client_auth=True, tls_line=None):
        from kmip.services.server import server as kmip_server
        from kmip.services.server import engine as server_engine
        from kmip.core import policy as operation_policy
        import keygen_cap
        keygen_cap.install()
        self.dir = tempfile.mkdtemp(prefix="front-", dir="/dev/shm" if os.access("/dev/shm", os.W_OK) else None)
        for name in ("server.crt", "server.key", "ca.crt"):
            with open(os.path.join(self.dir, name), "w") as f:
                f.write("placeholder\n")
        os.mkdir(os.path.join(self.dir, "policies"))
        self.config_path = os.path.join(self.dir, "server.conf")
        with open(self.config_path, "w") as f:
            f.write("[server]\nhostname=127.0.0.1\nport=5696\ncertificate_path={0}/server.crt\nkey_path={0}/server.key\n"
                    "ca_path={0}/ca.crt\nauth_suite=TLS1.2\npolicy_path={0}/policies\n{1}"
                    "database_path={0}/pykmip.db\n".format(
                        self.dir, tls_line if tls_line is not None else
                        "enable_tls_client_auth=%s\n" % ("True" if tls_client_auth else "False")))
            if logging_level is not None:
                f.write("logging_level=%s\n" % logging_level)
            f.write(extra_conf)
        self.log_path = os.path.join(self.dir, "log", "server.log")
        self.logger = logging.getLogger("kmip.server")
        self._saved = (list(self.logger.handlers), self.logger.level)
        self.server = kmip_server.KmipServer(config_path=self.config_path, log_path=self.log_path)
        self.server._engine = server_engine.KmipEngine(policies=copy.deepcopy(operation_policy.policies),
                                                       database_path=self.server.config.settings.get("database_path"))

    def serve(self, events, der, timeout=120.0):
        """one connection through KmipServer._setup_connection_handler -> the FakeConn (out = frames sent)"""
        conn = S.FakeConn(events, der)
        before = set(threading.enumerate())
        self.server._setup_connection_handler(conn, ("127.0.0.1", 40404))
        for t in set(threading.enumerate()) - before:
            t.join(timeout)
        return conn

    def log_text(self):
        for h in self.logger.handlers:
            try:
                h.flush()
            except Exception:
                pass
        try:
            with open(self.log_path, "r", errors="replace") as f:
                return f.read()
        except OSError:
            return ""

    def close(self):
        for h in list(self.logger.handlers):
            if h not in self._saved[0]:
                self.logger.removeHandler(h)
                try:
                    h.close()
                except Exception:
                    pass
        self.logger.setLevel(self._saved[1])
        try:
            self.server._engine._data_store_session_factory.close_all()
        except Exception:
            pass
        shutil.rmtree(self.dir, ignore_errors=True)
