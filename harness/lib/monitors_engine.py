"""
Property monitors evaluated on the implementation's behaviour alone (no Lean model):
executable readings of the property statements over recorded histories
(request line, response, store dump before/after).  A monitor failure on a
concrete history is what makes a VIOLATION.
"""
import copy

POLICY_OP = {"get": 10, "getAttributes": 11, "getAttributeList": 12, "activate": 18, "revoke": 19, "destroy": 20,
             "encrypt": 10, "decrypt": 10, "sign": 10, "signatureVerify": 10, "mac": 10,
             "setAttribute": 49, "modifyAttribute": 14, "deleteAttribute": 15}
RANK = {None: 0, 1: 0, 2: 1, 3: 2, 4: 3, 5: 4, 6: 5}


import uidcanon  # noqa: E402


def iter_requests(h, outs):
    """yield (index, line, out, dump_before, dump_after, policies) for every request line"""
    last_dump = None
    pol = None
    for i, (j, o) in enumerate(zip(h, outs)):
        c = j.get("cmd")
        if c == "policies":
            pol = j["policies"]
        elif c == "dump":
            last_dump = o
        elif c == "req":
            after = None
            if i + 1 < len(h) and h[i + 1].get("cmd") == "dump":
                after = outs[i + 1]
            # identifier spellings are read as the server's identifier grammar (SQLite's numeric affinity, asked of
            # SQLite itself) reads them: " 6" and "06" address object 6, "0_6" addresses nothing
            yield i, uidcanon.canon_line(j), uidcanon.canon_out(j, o), last_dump, after, pol


def by_uid(dump):
    return {} if dump is None or "objs" not in dump else {str(o["uid"]): o for o in dump["objs"]}


def builtin_policies_json():
    import impl_engine
    return impl_engine.policies_to_json(impl_engine.core_policy.policies)


# ------------------------------------------------------------------ C03 oracle
def text_grant(policies, name, user, groups, owner, otype, op, preset_fallback=True):
    """The property's sentence, read literally (independent of engine.py):
    'allow all' to anyone, 'allow owner' only to the creator, anything else - incl. a
    missing policy / object-type / operation / group entry - to nobody; with group
    information the most permissive applicable group section decides (the preset
    section when the policy defines no groups), without it only the preset section."""
    b = None
    for n, bb in policies:
        if n == name:
            b = bb
    if b is None:
        return False

    def sec_grants(sec):
        if sec is None:
            return False
        for ot, ops in sec:
            if ot == otype:
                for o, p in ops:
                    if o == op:
                        return p == "ALLOW_ALL" or (p == "ALLOW_OWNER" and user == owner)
        return False
    if groups is None:
        return sec_grants(b.get("preset"))
    if not b.get("groups"):
        return preset_fallback and sec_grants(b.get("preset")) and len(groups) > 0
    gmap = dict((g, t) for g, t in b["groups"])
    return any(sec_grants(gmap.get(g)) for g in groups)


def batch_placeholder(items, results, k):
    """identifier the k-th item addresses when it names none: object created earlier in the same request"""
    ph = None
    for it, r in list(zip(items, results))[:k]:
        if r.get("status") == "ok":
            d = r.get("data") or {}
            if it["op"] in ("create", "register", "deriveKey"):
                ph = d.get("uid")
            elif it["op"] == "createKeyPair":
                ph = d.get("priv")
    return ph


def mon_c03(h, outs):
    fails = []
    owners = {}
    for i, j, o, before, after, pol in iter_requests(h, outs):
        if pol is None:
            pol = builtin_policies_json()
        if "results" not in o:
            continue
        ident = j["id"]
        objs = by_uid(before)
        touched = set()
        items = j["req"]["items"]
        for k, (it, r) in enumerate(zip(items, o["results"])):
            op = it["op"]
            d = r.get("data") or {}
            if r.get("status") == "ok":
                if op in ("create", "register", "deriveKey"):
                    owners.setdefault(d.get("uid"), ident["user"])
                    touched.add(d.get("uid"))
                elif op == "createKeyPair":
                    owners.setdefault(d.get("pub"), ident["user"])
                    owners.setdefault(d.get("priv"), ident["user"])
                    touched.update([d.get("pub"), d.get("priv")])
            if op == "locate" and r.get("status") == "ok":
                cur = by_uid(after) if len(items) == 1 else objs
                for u in d.get("uids", []):
                    ob = cur.get(u)
                    if ob is None:
                        continue
                    if not text_grant(pol, ob["policy"], ident["user"], ident["groups"], ob["owner"], ob["otype"], 8):
                        fails.append(("c03:locate-lists-unpermitted", "Locate returned %s which %s may not locate" % (u, ident["user"]), i))
            if op not in POLICY_OP:
                continue
            uid = it.get("uid") or batch_placeholder(items, o["results"], k)
            if uid is None or uid not in objs or uid in touched:
                if op in ("destroy",) and r.get("status") == "ok":
                    touched.add(uid)
                continue
            ob = objs[uid]
            granted = text_grant(pol, ob["policy"], ident["user"], ident["groups"], ob["owner"], ob["otype"], POLICY_OP[op])
            if r.get("status") == "ok" and op in ("destroy", "activate", "revoke", "setAttribute", "modifyAttribute", "deleteAttribute"):
                touched.add(uid)
            if granted:
                # indirect object: a wrapping key the requester may not use must be indistinguishable from one
                # that does not exist ("Wrapping key does not exist."), never the permission / locate texts
                w = it.get("wrap") if op == "get" else None
                if w and w.get("enckey") is not None and r.get("status") != "ok":
                    kob = objs.get(str(w["enckey"]))
                    if kob is not None and str(w["enckey"]) not in touched and not text_grant(
                            pol, kob["policy"], ident["user"], ident["groups"], kob["owner"], kob["otype"], 10):
                        m = r.get("msg") or ""
                        if str(w["enckey"]) != str(uid) and m == "Could not locate object: %s" % w["enckey"]:
                            fails.append(("c03:denial-not-masked:wrapping-key",
                                          "Get with wrapping key %s (exists, not granted to %s) answered reason %s %r; a "
                                          "non-existent key is answered 'Wrapping key does not exist.'"
                                          % (w["enckey"], ident["user"], r.get("reason"), m), i))
                continue
            # not granted: must fail, masked, no disclosure
            if r.get("status") == "ok":
                fails.append(("c03:effect-without-grant:%s" % op,
                              "%s by %s/%s on object %s (owner %s, policy %s) succeeded without a grant"
                              % (op, ident["user"], ident["groups"], uid, ob["owner"], ob["policy"]), i))
                continue
            reason, msg = r.get("reason"), r.get("msg") or ""
            if reason == 12 or reason == 1:
                if msg != "Could not locate object: %s" % uid:
                    fails.append(("c03:denial-not-masked:%s" % op, "denied %s answered %r" % (op, msg), i))
            elif not (reason == 5 or (op == "get" and reason == 17)):
                fails.append(("c03:denial-wrong-error:%s:%s" % (op, reason),
                              "denied %s on %s answered reason %s %r (object-dependent error?)" % (op, uid, reason, msg), i))
            for secret in (ob.get("value") or "",):
                if len(secret) >= 8 and secret in msg:
                    fails.append(("c03:denial-discloses-value", "message of denied %s contains the value" % op, i))
        # denied-only requests change nothing
        if after is not None and before is not None and all(r.get("status") != "ok" for r in o["results"]):
            if before.get("objs") != after.get("objs"):
                fails.append(("c03:failed-request-changed-store", "a request whose items all failed changed the store", i))
        # an object changes only through a successful item that ADDRESSES it (whose grant was checked above): whatever
        # another requester does to his own objects leaves it as it was
        if after is not None and before is not None:
            an = by_uid(after)
            for u, ob in objs.items():
                if u in touched:
                    continue
                if u not in an:
                    fails.append(("c03:object-removed-without-addressed-operation",
                                  "object %s (owner %s) disappeared; no successful item of %s's request addressed it"
                                  % (u, ob["owner"], ident["user"]), i))
                elif an[u] != ob:
                    diff = sorted(k for k in ob if an[u].get(k) != ob[k])
                    fails.append(("c03:object-changed-without-addressed-operation:%s" % ",".join(diff),
                                  "%s of object %s (owner %s) changed %r -> %r; no successful item of %s's request "
                                  "addressed it" % (diff, u, ob["owner"], [ob[k] for k in diff],
                                                    [an[u].get(k) for k in diff], ident["user"]), i))
        # owner immutable
        for u, ob in by_uid(after).items():
            if u in owners and ob["owner"] != owners[u]:
                fails.append(("c03:owner-changed", "owner of %s is %r, creator was %r" % (u, ob["owner"], owners[u]), i))
    return fails


# ------------------------------------------------------------------ C04
def mon_c04(h, outs):
    fails = []
    for i, j, o, before, after, pol in iter_requests(h, outs):
        if "results" not in o or before is None or after is None:
            continue
        b, a = by_uid(before), by_uid(after)
        items = j["req"]["items"]
        # monotone
        for u, ob in b.items():
            if u in a:
                if RANK.get(a[u]["state"], 9) < RANK.get(ob["state"], 0):
                    fails.append(("c04:state-went-back", "object %s state %s -> %s" % (u, ob["state"], a[u]["state"]), i))
                if a[u]["state"] not in (None, 1, 2, 3, 4):
                    fails.append(("c04:illegal-state", "object %s has state %s" % (u, a[u]["state"]), i))
        ok_ops = [(it, r) for it, r in zip(items, o["results"]) if r.get("status") == "ok"]
        changers = set()
        for it, r in ok_ops:
            if it["op"] in ("activate", "revoke"):
                changers.add((r.get("data") or {}).get("uid"))
        for u, ob in b.items():
            if u in a and a[u]["state"] != ob["state"] and u not in changers:
                fails.append(("c04:state-changed-by-other-op", "object %s changed state %s->%s without Activate/Revoke"
                              % (u, ob["state"], a[u]["state"]), i))
        # exact transitions + guards.  `shadow` tracks the state of every object through the batch
        # (states are known exactly from the reported outcomes); objects created inside the batch have
        # an unknown mask and are skipped by the mask checks.
        shadow = {u: dict(ob) for u, ob in b.items()}
        for k, (it, r) in enumerate(zip(items, o["results"])):
            op = it["op"]
            d = r.get("data") or {}
            uid = it.get("uid") or batch_placeholder(items, o["results"], k)
            ob = shadow.get(uid) if uid else None
            if r.get("status") != "ok":
                continue
            if op == "create":
                shadow[d.get("uid")] = {"state": 1, "otype": 2, "mask": None, "fresh": True}
            elif op == "register":
                shadow[d.get("uid")] = {"state": None if (it.get("obj") or {}).get("otype") == 8 else 1,
                                        "otype": (it.get("obj") or {}).get("otype"), "mask": None, "fresh": True}
            elif op == "deriveKey":
                shadow[d.get("uid")] = {"state": 1, "otype": it.get("otype"), "mask": None, "fresh": True}
            elif op == "createKeyPair":
                shadow[d.get("pub")] = {"state": 1, "otype": 3, "mask": None, "fresh": True}
                shadow[d.get("priv")] = {"state": 1, "otype": 4, "mask": None, "fresh": True}
            if ob is None and op not in ("deriveKey", "get"):
                continue
            if op == "activate":
                if ob["state"] != 1:
                    fails.append(("c04:bad-activate", "Activate %s succeeded from state %s" % (uid, ob["state"]), i))
                ob["state"] = 2
            elif op == "revoke":
                code = it.get("code")
                if code != 2 and ob["state"] != 2:
                    fails.append(("c04:bad-revoke", "Revoke(code %s) %s succeeded from state %s" % (code, uid, ob["state"]), i))
                ob["state"] = 4 if code == 2 else 3
            elif op == "destroy":
                if ob["state"] == 2:
                    fails.append(("c04:destroyed-active", "Destroy succeeded on Active object %s (type %s)" % (uid, ob["otype"]), i))
                shadow.pop(uid, None)
            need = {"encrypt": (2, 0x4), "decrypt": (2, 0x8), "sign": (4, 0x1), "signatureVerify": (3, 0x2), "mac": (None, 0x80)}
            if op in need:
                kind, bit = need[op]
                bad_mask = (not ob.get("fresh")) and not ((ob["mask"] or 0) & bit)
                if ob["state"] != 2 or (kind is not None and ob["otype"] != kind) or bad_mask:
                    fails.append(("c04:crypto-without-guard:%s" % op,
                                  "%s succeeded with key %s state=%s type=%s mask=%s" % (op, uid, ob["state"], ob["otype"], ob.get("mask")), i))
            if op == "get" and it.get("wrap") and d.get("wrapped"):
                kk = shadow.get(it["wrap"].get("enckey"))
                if kk is None or kk["state"] != 2 or kk["otype"] != 2 or ((not kk.get("fresh")) and not ((kk["mask"] or 0) & 0x10)):
                    fails.append(("c04:wrap-without-guard", "Get wrapped with key %s: %s"
                                  % (it["wrap"].get("enckey"), kk and (kk["state"], kk["otype"], kk.get("mask"))), i))
            if op == "deriveKey":
                for u in it.get("uids", []):
                    kk = shadow.get(u)
                    if kk is None or ((not kk.get("fresh")) and not ((kk["mask"] or 0) & 0x200)):
                        fails.append(("c04:derive-without-mask", "DeriveKey used %s without the Derive Key bit" % u, i))
        # the store must agree with the shadow states
        for u, ob in shadow.items():
            if u in a and a[u]["state"] != ob["state"]:
                fails.append(("c04:unexpected-state", "object %s is in state %s, the reported operations imply %s"
                              % (u, a[u]["state"], ob["state"]), i))
    return fails


# ------------------------------------------------------------------ C07
def mon_c07(h, outs):
    fails = []
    issued = {}
    dead = set()
    for i, j, o, before, after, pol in iter_requests(h, outs):
        if "results" not in o:
            continue
        for it, r in zip(j["req"]["items"], o["results"]):
            d = r.get("data") or {}
            op = it["op"]
            if r.get("status") == "ok":
                new = []
                if op in ("create", "register", "deriveKey"):
                    new = [d.get("uid")]
                elif op == "createKeyPair":
                    new = [d.get("pub"), d.get("priv")]
                for u in new:
                    if u in issued:
                        fails.append(("c07:identifier-reused", "identifier %s issued at step %s and again" % (u, issued[u]), i))
                    issued[u] = i
                if op == "destroy":
                    dead.add(d.get("uid"))
                if op == "locate":
                    for u in d.get("uids", []):
                        if u in dead:
                            fails.append(("c07:locate-returns-dead", "Locate returned destroyed %s" % u, i))
                if op in POLICY_OP and op != "destroy":
                    u = it.get("uid")
                    if u in dead:
                        fails.append(("c07:operation-on-dead-succeeded:%s" % op, "%s succeeded on destroyed %s" % (op, u), i))
                # objects an operation reaches INDIRECTLY: every derivation object of DeriveKey, the wrapping key of Get
                if op == "deriveKey":
                    for u in it.get("uids") or []:
                        if u in dead:
                            fails.append(("c07:operation-on-dead-succeeded:deriveKey",
                                          "DeriveKey succeeded although its derivation object %s is destroyed (identifiers "
                                          "%s)" % (u, it.get("uids")), i))
                if op == "get" and isinstance(it.get("wrap"), dict) and it["wrap"].get("enckey") in dead \
                        and (d.get("wrapped") or it["wrap"].get("enckey") is not None):
                    fails.append(("c07:operation-on-dead-succeeded:get-wrapping-key",
                                  "Get succeeded with the destroyed wrapping key %s" % it["wrap"].get("enckey"), i))
            else:
                u = it.get("uid")
                if op in POLICY_OP and u in dead and r.get("reason") in (1, 12):
                    if r.get("reason") != 1 or r.get("msg") != "Could not locate object: %s" % u:
                        fails.append(("c07:dead-not-not-found", "%s on destroyed %s: reason %s %r" % (op, u, r.get("reason"), r.get("msg")), i))
        if after is not None:
            uids = [str(x["uid"]) for x in after.get("objs", [])]
            if len(set(uids)) != len(uids):
                fails.append(("c07:duplicate-identifier-in-store", "store holds duplicate identifiers", i))
            for u in uids:
                if u in dead:
                    fails.append(("c07:dead-identifier-in-store", "destroyed identifier %s is in the store again" % u, i))
            if before is not None:
                for u, ob in by_uid(before).items():
                    if u not in by_uid(after) and u not in dead:
                        fails.append(("c07:object-vanished", "object %s disappeared without a reported Destroy" % u, i))
    return fails


# ------------------------------------------------------------------ C08
PLACEHOLDER_USERS = ("get", "getAttributes", "getAttributeList", "activate", "revoke", "destroy", "encrypt", "decrypt",
                     "sign", "signatureVerify", "mac", "setAttribute", "modifyAttribute", "deleteAttribute")


def mon_c08(h, outs):
    fails = []
    for i, j, o, before, after, pol in iter_requests(h, outs):
        items = j["req"]["items"]
        if "rejected" in o:
            if before is not None and after is not None and before.get("objs") != after.get("objs"):
                fails.append(("c08:rejected-request-had-effect",
                              "request rejected as a whole (reason %s) but the store changed" % o["rejected"], i))
            continue
        if "results" not in o:
            continue
        rs = o["results"]
        if len(rs) > len(items):
            fails.append(("c08:too-many-results", "%d results for %d items" % (len(rs), len(items)), i))
            continue
        for it, r in zip(items, rs):
            if r.get("bid") != it.get("bid"):
                fails.append(("c08:batch-id-not-echoed", "item id %r answered as %r" % (it.get("bid"), r.get("bid")), i))
        stop = j["req"].get("bopt") in (None, 2)
        if stop:
            for r in rs[:-1]:
                if r.get("status") != "ok":
                    fails.append(("c08:continued-after-failure", "processing continued after a failed item under Stop", i))
            if rs and rs[-1].get("status") == "ok" and len(rs) != len(items):
                fails.append(("c08:stopped-without-failure", "results end early without a failed item", i))
            if not rs and items:
                fails.append(("c08:no-results", "no result for a non-empty batch", i))
        else:
            if len(rs) != len(items):
                fails.append(("c08:continue-skipped-items", "%d results for %d items under Continue" % (len(rs), len(items)), i))
        # the ID placeholder: an item that names no identifier works on the object the most recent successful creating
        # item of this batch reported - whatever failed in between
        for k, (it, r) in enumerate(zip(items, rs)):
            if it["op"] not in PLACEHOLDER_USERS or it.get("uid") is not None:
                continue
            want = batch_placeholder(items, rs, k)
            if want is None:
                continue
            d = r.get("data") or {}
            if r.get("status") == "ok" and d.get("uid") is not None and str(d.get("uid")) != str(want):
                fails.append(("c08:placeholder-addressed-another-object",
                              "item %d (%s, no identifier) worked on %s; the batch created %s" % (k, it["op"], d.get("uid"), want), i))
            if r.get("status") != "ok" and "locate object: None" in (r.get("msg") or ""):
                fails.append(("c08:placeholder-lost",
                              "item %d (%s, no identifier) was answered %r although an earlier item of the batch "
                              "created %s" % (k, it["op"], r.get("msg"), want), i))
        if before is not None and after is not None:
            if all(r.get("status") != "ok" for r in rs) and before.get("objs") != after.get("objs"):
                fails.append(("c08:failed-items-left-trace", "every item failed but the store changed", i))
            # created objects are all reported
            nb, na = by_uid(before), by_uid(after)
            reported = set()
            for it, r in zip(items, rs):
                d = r.get("data") or {}
                if r.get("status") == "ok":
                    reported.update(x for x in (d.get("uid"), d.get("pub"), d.get("priv")) if x)
            for u in na:
                if u not in nb and u not in reported:
                    fails.append(("c08:unreported-effect", "object %s appeared but no result reports it" % u, i))
    return fails


# ------------------------------------------------------------------ C15
PROTECTED = ("otype", "owner", "policy", "mask", "alg", "len", "date")


def sole_ok_items(items, o, op):
    """the successful items of operation `op` of a request that are the ONLY successful item addressing their object
    (explicit identifier; no successful item of the batch goes through the ID placeholder): what the request did to
    that object is what this item did"""
    res = o.get("results") or []
    ok = [(it, r) for it, r in zip(items, res) if r.get("status") == "ok"]
    if any(it.get("uid") is None and it["op"] not in ("create", "register", "createKeyPair", "locate", "query",
                                                       "discoverVersions") for it, r in ok):
        return []
    out = []
    for it, r in ok:
        if it["op"] == op and it.get("uid") is not None and \
                sum(1 for it2, r2 in ok if it2.get("uid") == it["uid"] or it["uid"] in (it2.get("uids") or [])) == 1:
            out.append(it)
    return out


def mon_c15(h, outs):
    fails = []
    for i, j, o, before, after, pol in iter_requests(h, outs):
        if before is None or after is None:
            continue
        b, a = by_uid(before), by_uid(after)
        items = j["req"]["items"]
        attr_only = all(it["op"] in ("setAttribute", "modifyAttribute", "deleteAttribute") for it in items)
        for u, ob in b.items():
            if u not in a:
                continue
            for f in PROTECTED:
                if a[u][f] != ob[f]:
                    fails.append(("c15:protected-changed:%s" % f,
                                  "%s of object %s changed %r -> %r (ops %s)" % (f, u, ob[f], a[u][f], [it["op"] for it in items]), i))
            if attr_only and a[u]["state"] != ob["state"]:
                fails.append(("c15:state-changed-by-attribute-op", "state of %s changed by attribute operations" % u, i))
        # a successful ModifyAttribute of one instance of a multi-valued attribute replaces THAT instance in place:
        # the other instances keep their value and their position (index)
        for it in sole_ok_items(items, o, "modifyAttribute"):
            u = it.get("uid")
            ver = j["req"]["version"]
            if u in b and u in a:
                if ver < 20 and it.get("attr"):
                    nm, idx, cur, new = it["attr"]["name"], it["attr"].get("index") or 0, None, it["attr"]["value"]
                else:
                    nm = (it.get("new") or {}).get("name")
                    idx, cur, new = None, (it.get("current") or {}).get("value"), (it.get("new") or {}).get("value")
                fld = {"Name": "names", "Application Specific Information": "appinfo", "Object Group": "groups"}.get(nm)

                def plain(v):
                    if v is None:
                        return None
                    if fld == "appinfo":
                        return [v.get("ns"), v.get("d")]
                    return v.get("v")
                if fld is not None and new is not None:
                    was = [list(x) if isinstance(x, (list, tuple)) else x for x in b[u][fld]]
                    now = [list(x) if isinstance(x, (list, tuple)) else x for x in a[u][fld]]
                    if idx is None:
                        c = plain(cur)
                        idx = was.index(c) if c in was else None
                    if idx is not None and not (0 <= idx < len(was)) and now != was:
                        fails.append(("c15:nonexistent-instance-changed:%s" % nm,
                                      "ModifyAttribute of instance %d of %s on object %s succeeded: the object has instances 0..%d "
                                      "only; instances were %s, are now %s" % (idx, nm, u, len(was) - 1, was, now), i))
                    if idx is not None and 0 <= idx < len(was):
                        want = was[:idx] + [plain(new)] + was[idx + 1:]
                        if now != want and sorted(map(str, now)) != sorted(map(str, want)):
                            fails.append(("c15:modified-instance-wrong-value:%s" % nm,
                                          "ModifyAttribute of instance %d of %s on object %s to %s: instances were %s, are "
                                          "now %s (expected %s)" % (idx, nm, u, plain(new), was, now, want), i))
                        if now != want and sorted(map(str, now)) == sorted(map(str, want)):
                            fails.append(("c15:modified-instance-moved:%s" % nm,
                                          "ModifyAttribute of instance %d of %s on object %s: instances were %s, are now "
                                          "%s (expected %s: the others keep their position)" % (idx, nm, u, was, now, want), i))
        # a successful DeleteAttribute of one instance of a multi-valued attribute removes exactly THAT instance
        # (KMIP 1.x: the instance with the given index, index 0 when none is given; KMIP 2.0: the instance with the
        # given current value)
        for it in sole_ok_items(items, o, "deleteAttribute"):
            u = it.get("uid")
            ver = j["req"]["version"]
            if u in b and u in a:
                nm = it.get("name") if ver < 20 else (it.get("current") or {}).get("name")
                fld = {"Name": "names", "Application Specific Information": "appinfo", "Object Group": "groups"}.get(nm)
                if fld is not None:
                    was = [list(x) if isinstance(x, (list, tuple)) else x for x in b[u][fld]]
                    now = [list(x) if isinstance(x, (list, tuple)) else x for x in a[u][fld]]
                    idx = None
                    if ver < 20:
                        idx = it.get("index") or 0
                    else:
                        cv = (it.get("current") or {}).get("value") or {}
                        c = [cv.get("ns"), cv.get("d")] if fld == "appinfo" else cv.get("v")
                        idx = was.index(c) if c in was else None
                    if idx is None and ver >= 20 and now != was:
                        # the addressed instance (this very value) does not exist: whatever went, it was not addressed
                        fails.append(("c15:delete-removed-unaddressed-instance:%s" % nm,
                                      "DeleteAttribute of the instance of %s with value %r on object %s (KMIP 2.0) succeeded: "
                                      "the object has no such instance; instances were %s, are now %s" % (nm, c, u, was, now), i))
                    if idx is not None and ver < 20 and not (0 <= idx < len(was)) and now != was:
                        fails.append(("c15:nonexistent-instance-changed:%s" % nm,
                                      "DeleteAttribute of instance %d of %s on object %s succeeded: the object has instances 0..%d "
                                      "only; instances were %s, are now %s" % (idx, nm, u, len(was) - 1, was, now), i))
                    if idx is not None and 0 <= idx < len(was):
                        want = was[:idx] + was[idx + 1:]
                        if now != want:
                            fails.append(("c15:delete-removed-other-instances:%s" % nm,
                                          "DeleteAttribute of instance %d of %s on object %s (KMIP %s): instances were %s, "
                                          "are now %s (expected %s)" % (idx, nm, u, ver, was, now, want), i))
        if attr_only and "results" in o:
            targets = set(it.get("uid") for it, r in zip(items, o["results"]) if r.get("status") == "ok")
            for u, ob in b.items():
                if u in a and u not in targets and a[u] != ob and None not in targets:
                    fails.append(("c15:other-object-changed", "object %s changed though not addressed" % u, i))
            if set(a) != set(b):
                fails.append(("c15:objects-added-or-removed", "attribute operations added/removed objects", i))
    return fails


# ------------------------------------------------------------------ C14
# "Applies to Object Types" of the filter attributes the property lists, written down from the KMIP specification
# (1 Certificate, 2 Symmetric Key, 3 Public Key, 4 Private Key, 5 Split Key, 6 Template, 7 Secret Data, 8 Opaque
# Object) - NOT read from kmip/services/server/policy.py: the oracle must not share the table it judges
# (the same constants are a `decide` obligation over the regenerated table in lean/KmipModel/Props/C14Table.lean)
_ALL_OT = {1, 2, 3, 4, 5, 6, 7, 8}
SPEC_APPLIES = {
    "Unique Identifier": _ALL_OT, "Name": _ALL_OT, "Object Type": _ALL_OT,
    "Cryptographic Algorithm": {1, 2, 3, 4, 5, 6}, "Cryptographic Length": {1, 2, 3, 4, 5, 6},
    "Certificate Type": {1}, "Cryptographic Usage Mask": {1, 2, 3, 4, 5, 6, 7}, "State": {1, 2, 3, 4, 5, 7},
    "Initial Date": _ALL_OT, "Operation Policy Name": _ALL_OT, "Object Group": _ALL_OT,
    "Application Specific Information": _ALL_OT, "Sensitive": _ALL_OT,
}


def applies_to(name):
    return SPEC_APPLIES.get(name)


LISTED = {"Name", "State", "Object Type", "Cryptographic Algorithm", "Cryptographic Length",
          "Cryptographic Usage Mask", "Operation Policy Name", "Object Group", "Application Specific Information",
          "Certificate Type", "Unique Identifier", "Sensitive", "Initial Date"}


def spec_match(ob, attrs):
    """does the stored object match every filter (property text)?  None = outside the oracle's domain"""
    dates = []
    for a in attrs:
        n, v = a["name"], a["value"]
        if n not in LISTED:
            return None
        app = applies_to(n)
        if app is None or ob["otype"] not in app:
            return False
        if n == "Name":
            if not (v.get("t") == 1 and v["v"] in ob["names"]):
                return False
        elif n == "State":
            if ob["state"] != v["v"]:
                return False
        elif n == "Object Type":
            if ob["otype"] != v["v"]:
                return False
        elif n == "Cryptographic Algorithm":
            if ob["alg"] != v["v"]:
                return False
        elif n == "Cryptographic Length":
            if ob["len"] != v["v"]:
                return False
        elif n == "Cryptographic Usage Mask":
            want = v["v"] & 0xFFFFFF
            if ob["mask"] is None or (want & ~ob["mask"]):
                return False
        elif n == "Operation Policy Name":
            if ob["policy"] != v["v"]:
                return False
        elif n == "Object Group":
            if v["v"] not in ob["groups"]:
                return False
        elif n == "Application Specific Information":
            if [v["ns"], v["d"]] not in ob["appinfo"]:
                return False
        elif n == "Certificate Type":
            if ob["subtype"] != v["v"]:
                return False
        elif n == "Unique Identifier":
            if str(ob["uid"]) != v["v"]:
                return False
        elif n == "Sensitive":
            if bool(ob["sensitive"]) != bool(v["v"]):
                return False
        elif n == "Initial Date":
            dates.append(v["v"])
    if len(dates) == 1:
        return ob["date"] == dates[0]
    if len(dates) == 2:
        return min(dates) <= ob["date"] <= max(dates)
    if len(dates) > 2:
        return None
    return True


def spec_locate(dump, pol, ident, it):
    objs = dump.get("objs", [])
    res = []
    for ob in objs:
        # permission as characterised by C03 (`Grant`; with group information only group sections count)
        if not text_grant(pol, ob["policy"], ident["user"], ident["groups"], ob["owner"], ob["otype"], 8,
                          preset_fallback=False):
            continue
        m = spec_match(ob, it["attrs"])
        if m is None:
            return None
        if m:
            res.append(ob)
    res = sorted(res, key=lambda o: -o["date"])      # stable: ties keep identifier order
    off = it.get("offset") or 0
    if off < 0 or (it.get("max") is not None and it["max"] < 0):
        return None
    res = res[off:]
    if it.get("max") is not None:
        res = res[:it["max"]]
    return [str(o["uid"]) for o in res]


def mon_c14(h, outs):
    fails = []
    for i, j, o, before, after, pol in iter_requests(h, outs):
        if pol is None:
            pol = builtin_policies_json()
        if "results" not in o or before is None:
            continue
        items = j["req"]["items"]
        if len(items) != 1 or items[0]["op"] != "locate" or j["req"]["version"] < 10:
            continue
        it, r = items[0], o["results"][0]
        # with group information and a policy without group sections the server is stricter than the
        # property text (observation O-1); the oracle follows the server there
        exp = spec_locate(before, pol, j["id"], it)
        if exp is None:
            continue
        names = sorted(set(a["name"] for a in it["attrs"]))
        if r.get("status") != "ok":
            fails.append(("c14:locate-failed:%s:%s" % (r.get("reason"), ",".join(names)),
                          "Locate with filters %s failed (reason %s) although the specification yields %s"
                          % (names, r.get("reason"), exp), i))
            continue
        got = (r.get("data") or {}).get("uids")
        if got != exp:
            if True:
                fails.append(("c14:locate-differs-from-spec:%s" % ",".join(names),
                              "Locate(%s, offset=%s, max=%s) returned %s, specification says %s"
                              % (it["attrs"], it.get("offset"), it.get("max"), got, exp), i))
    return fails


# ------------------------------------------------------------------ C05 (histories: interleavings and restarts)
MUTATORS = ("activate", "revoke", "destroy", "setAttribute", "modifyAttribute", "deleteAttribute")
CREATORS = ("create", "register", "deriveKey", "createKeyPair")


def _supplied(tmpl):
    """names / groups / application-specific information supplied in a template, in order"""
    names, groups, appinfo = [], [], []
    for a in (tmpl or {}).get("attrs", []):
        v = a["value"]
        if a["name"] == "Name" and v.get("k") == "name":
            names.append(v["v"])
        elif a["name"] == "Object Group" and v.get("k") == "text":
            groups.append(v["v"])
        elif a["name"] == "Application Specific Information" and v.get("k") == "appinfo":
            appinfo.append([v["ns"], v["d"]])
    return names, groups, appinfo


def mon_c05(h, outs):
    """A stored object stays exactly as stored at any later time: between two store dumps (a request, possibly
    an engine restart in between) an object differs only if a successful item of that request addressed it with
    an operation that changes objects; its value, type, format and creation date never change; a new object
    carries exactly the names, groups and application-specific information supplied when it was made."""
    fails = []
    for i, j, o, before, after, pol in iter_requests(h, outs):
        if before is None or after is None:
            continue
        b, a = by_uid(before), by_uid(after)
        items = j["req"]["items"]
        results = o.get("results") or []
        touched, made = set(), {}
        for k, (it, r) in enumerate(zip(items, results)):
            if r.get("status") != "ok":
                continue
            if it["op"] in MUTATORS:
                u = it.get("uid")
                touched.add(str(u) if u is not None else str(batch_placeholder(items, results, k)))
            d = r.get("data") or {}
            if it["op"] in ("create", "register", "deriveKey") and d.get("uid") is not None:
                made[str(d["uid"])] = it.get("tmpl")
            elif it["op"] == "createKeyPair":
                for side in ("pub", "priv"):
                    if d.get(side) is not None:
                        # attributes of the specific template replace same-named ones of the common template
                        own = (it.get(side) or {}).get("attrs", [])
                        own_names = set(x["name"] for x in own)
                        made[str(d[side])] = {"attrs": [x for x in (it.get("common") or {}).get("attrs", [])
                                                        if x["name"] not in own_names] + own,
                                              "tnames": max((it.get(t) or {}).get("tnames", 0) for t in ("common", side))}
        for u, ob in b.items():
            if u not in a:
                if u not in touched:
                    fails.append(("c05:stored-object-vanished", "object %s disappeared (ops %s)" % (u, [it["op"] for it in items]), i))
                continue
            if a[u] == ob:
                continue
            diff = sorted(f for f in ob if a[u].get(f) != ob[f])
            frozen = [f for f in diff if f in ("value", "otype", "format", "subtype", "date", "owner")]
            if frozen:
                fails.append(("c05:stored-field-changed:%s" % ",".join(frozen),
                              "%s of object %s changed: %r -> %r" % (frozen, u, [ob[f] for f in frozen], [a[u][f] for f in frozen]), i))
            elif u not in touched:
                fails.append(("c05:stored-object-changed:%s" % ",".join(diff),
                              "%s of object %s changed %r -> %r though no successful operation addressed it (ops %s)"
                              % (diff, u, [ob[f] for f in diff], [a[u][f] for f in diff],
                                 [(it["op"], it.get("uid")) for it in items]), i))
        # "GetAttributes / GetAttributeList report exactly the attributes supplied at creation plus the server-assigned
        # ones ... under every KMIP version": the NAMES a full listing reports are a function of the stored object and
        # the request's version alone (whatever versions the server spoke before)
        ver = j["req"]["version"]
        if len(items) == 1 and results and results[0].get("status") == "ok" and ver in (10, 11, 12, 13, 14, 20):
            it, d = items[0], results[0].get("data") or {}
            got_names = None
            if it["op"] == "getAttributeList":
                got_names = set(d.get("names") or [])
            elif it["op"] == "getAttributes" and not it.get("names"):
                got_names = set(x["name"] for x in d.get("attrs") or [])
            ob = b.get(str(it.get("uid")))
            if got_names is not None and ob is not None:
                want = {"Unique Identifier", "Object Type", "Initial Date"}
                if ob.get("names"):
                    want.add("Name")
                if ob.get("groups"):
                    want.add("Object Group")
                if ob.get("appinfo"):
                    want.add("Application Specific Information")
                if ver < 20:
                    want.add("Operation Policy Name")
                if ver >= 14:
                    want.add("Sensitive")
                if ob["otype"] != 8:
                    want |= {"State", "Cryptographic Usage Mask"}
                if ob["otype"] in (2, 3, 4, 5):
                    want |= {"Cryptographic Algorithm", "Cryptographic Length"}
                if ob["otype"] == 1:
                    want.add("Certificate Type")
                core = {"Unique Identifier", "Object Type", "Initial Date", "Name", "Object Group", "Operation Policy Name",
                        "Sensitive", "State", "Cryptographic Usage Mask", "Cryptographic Algorithm", "Cryptographic Length",
                        "Application Specific Information", "Certificate Type"}
                miss, extra = (want - got_names), ((got_names & core) - want)
                if miss or extra:
                    fails.append(("c05:attribute-listing-differs:%s" % ",".join(sorted(miss | extra)),
                                  "%s of object %s (type %s) under KMIP %s reports %s; missing %s, unexpected %s"
                                  % (it["op"], it.get("uid"), ob["otype"], ver, sorted(got_names), sorted(miss), sorted(extra)), i))
        for u, tmpl in made.items():
            if u in a and u not in touched and tmpl is not None and not tmpl.get("tnames"):
                names, groups, appinfo = _supplied(tmpl)
                got = a[u]
                have_app = [list(x) if isinstance(x, (list, tuple)) else x for x in got.get("appinfo", [])]
                if got.get("names") != names or got.get("groups") != groups or (appinfo and have_app != appinfo):
                    fails.append(("c05:created-attributes-differ",
                                  "object %s was made with names %r groups %r appinfo %r, store has %r %r %r"
                                  % (u, names, groups, appinfo, got.get("names"), got.get("groups"), have_app), i))
    return fails
