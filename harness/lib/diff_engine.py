"""
Differential execution of engine histories: real KmipEngine (impl_engine) vs the
Lean model (Drivers/Engine.lean), compared under an observation function.
"""
import json
import multiprocessing
import os
import sys

HERE = os.path.dirname(os.path.abspath(__file__))
sys.path.insert(0, HERE)

from gen_engine import dumps  # noqa: E402


import uidcanon  # noqa: E402
UNBUILDABLE = [0]      # requests dropped because /repo refused to construct them (per process)


def obs_item(r):
    """What is compared for one batch item: status, reason, data; the message only for the
    not-found / permission family (C03 needs the text), never the wording elsewhere."""
    o = {"op": r.get("op"), "bid": r.get("bid"), "status": r.get("status")}
    if r.get("status") == "ok":
        o["data"] = r.get("data")
    else:
        o["reason"] = r.get("reason")
        m = r.get("msg") or ""
        if m.startswith("Could not locate object"):
            o["msg"] = m
    return o


def obs_out(out):
    if isinstance(out, str):
        return out
    if "rejected" in out:
        return {"rejected": out["rejected"]}
    if "results" in out:
        return {"results": [obs_item(r) for r in out["results"]]}
    if "objs" in out:
        return {"objs": out["objs"]}          # placeholder is transient, compared by C11 only
    return out


def run_impl(lines, scripted=True, keep_internal=False):
    """Run a list of command dicts on a fresh ImplEngine; returns list of outputs."""
    import impl_engine
    E = impl_engine.ImplEngine(scripted_crypto=scripted)
    outs = []
    try:
        for j in lines:
            try:
                try:
                    o = E.handle(j)
                except impl_engine.BuildRefused as e:
                    outs.append({"unbuildable": str(e)})
                    continue
                if keep_internal and isinstance(o, dict) and "results" in o and E.internal_errors:
                    o = dict(o)
                    o["_internal"] = list(E.internal_errors)
                outs.append(o)
            except Exception as e:  # harness-level failure: report as such
                import traceback
                outs.append({"harness_error": "%s: %s" % (type(e).__name__, e), "tb": traceback.format_exc()[-1500:]})
    finally:
        E.close()
    return outs


def gen_and_run(seed, length, profile=None, scripted=True, policies=True, extra=None):
    """Adaptive generation: the generator learns identifiers from the implementation's answers.
    Returns (history, impl_outputs)."""
    import gen_engine
    import impl_engine
    g = gen_engine.Gen(seed, profile)
    E = impl_engine.ImplEngine(scripted_crypto=scripted)
    h, outs = [], []

    def do(j):
        h.append(j)
        try:
            o = E.handle(j)
        except impl_engine.BuildRefused as e:
            h.pop()                          # never sent: neither side sees it
            UNBUILDABLE[0] += 1
            return {"unbuildable": str(e)}
        except Exception as e:
            import traceback
            o = {"harness_error": "%s: %s" % (type(e).__name__, e), "tb": traceback.format_exc()[-1500:]}
        if isinstance(o, dict) and "results" in o and E.internal_errors:
            o = dict(o)
            o["_internal"] = list(E.internal_errors)
        outs.append(o)
        g.observe(j, o)
    try:
        if policies:
            pol = impl_engine.policies_to_json(impl_engine.core_policy.policies) + gen_engine.random_policies(g)
            do({"cmd": "policies", "policies": pol})
        for _ in range(length):
            do(g.line())
            if extra is not None:
                for j in extra(g, h[-1], outs[-1]):
                    do(j)
            if g.p(0.2):
                do({"cmd": "dump"})
            if g.p(0.03):
                do({"cmd": "restart"})
                if policies:
                    do({"cmd": "policies", "policies": pol})
        do({"cmd": "dump"})
    finally:
        E.close()
    return h, outs


def _gen_worker(args):
    return gen_and_run(*args)


def gen_and_run_many(seeds, length, profile=None, scripted=True, policies=True, procs=None):
    procs = procs or min(16, max(1, os.cpu_count() or 1))
    args = [(s, length, profile, scripted, policies) for s in seeds]
    if len(seeds) <= 2 or procs == 1:
        return [gen_and_run(*a) for a in args]
    ctx = multiprocessing.get_context("fork")
    with ctx.Pool(procs) as pool:
        return pool.map(_gen_worker, args, chunksize=max(1, len(seeds) // (procs * 4)))


def _worker(args):
    lines, scripted, keep = args
    return run_impl(lines, scripted, keep)


def run_impl_many(histories, scripted=True, keep_internal=False, procs=None):
    procs = procs or min(16, max(1, os.cpu_count() or 1))
    if len(histories) <= 2 or procs == 1:
        return [run_impl(h, scripted, keep_internal) for h in histories]
    ctx = multiprocessing.get_context("fork")
    with ctx.Pool(procs) as pool:
        return pool.map(_worker, [(h, scripted, keep_internal) for h in histories], chunksize=max(1, len(histories) // (procs * 4)))


def _run_model_chunk(ctx, histories):
    lines = []
    for h in histories:
        lines.append(dumps({"cmd": "reset"}))
        lines.extend(dumps(uidcanon.canon_line(j)) for j in h)      # the request as the server's identifier grammar reads it
    raw = ctx.run_model("Engine", lines)
    outs = []
    i = 0
    for h in histories:
        i += 1  # reset answer
        hs = []
        for _ in h:
            s = raw[i]
            i += 1
            try:
                hs.append(json.loads(s))
            except ValueError:
                hs.append({"model_error": s})
        outs.append(hs)
    return outs


def run_model_many(ctx, histories, max_procs=8):
    """All histories through the Lean model (each preceded by a reset); large inputs are split over several
    driver processes (the driver is single-threaded)."""
    total = sum(len(h) + 1 for h in histories)
    nproc = max(1, min(max_procs, total // 4000, len(histories)))
    if nproc == 1:
        return _run_model_chunk(ctx, histories)
    chunks = [[] for _ in range(nproc)]
    loads = [0] * nproc
    order = sorted(range(len(histories)), key=lambda k: -len(histories[k]))
    where = {}
    for k in order:
        c = loads.index(min(loads))
        where[k] = (c, len(chunks[c]))
        chunks[c].append(histories[k])
        loads[c] += len(histories[k]) + 1
    import concurrent.futures
    with concurrent.futures.ThreadPoolExecutor(nproc) as ex:
        res = list(ex.map(lambda ch: _run_model_chunk(ctx, ch), chunks))
    return [res[where[k][0]][where[k][1]] for k in range(len(histories))]


def first_divergence(h, impl, model, obs=obs_out):
    for k, (j, a, b) in enumerate(zip(h, impl, model)):
        if isinstance(a, dict) and "harness_error" in a:
            return k, "harness", a, b
        if isinstance(b, dict) and "model_error" in b:
            return k, "model-error", a, b
        a = uidcanon.canon_out(j, a)
        if obs(a) != obs(b):
            return k, "diff", obs(a), obs(b)
    return None
