"""
Generators for the session properties (C12, C17): valid requests for many operations and
versions (built with the repo's own message classes and encoded with .write), grammar-aware
mutations of them, chunkings of byte streams.
All randomness comes from the random.Random handed in.
"""
import os
import sys

HERE = os.path.dirname(os.path.abspath(__file__))
sys.path.insert(0, HERE)

import gen_engine  # noqa: E402
import impl_engine  # noqa: E402
from kmip.core import enums, utils  # noqa: E402
from kmip.core.messages import contents  # noqa: E402

VERSIONS = [10, 11, 12, 13, 14, 20]
BAD_VERSIONS = [(9, 9), (1, 5), (2, 1), (0, 0), (3, 0), (1, 255)]
READ_ONLY = {"query", "discoverVersions", "locate", "get", "getAttributes", "getAttributeList"}


def encode_request(req):
    m = impl_engine.build_request(req)
    v = req["version"]
    kv = contents.protocol_version_to_kmip_version(contents.ProtocolVersion(v // 10, v % 10)) \
        or enums.KMIPVersion.KMIP_1_2
    s = utils.BytearrayStream()
    m.write(s, kmip_version=kv)
    return bytes(s.buffer)


def mkreq(v, items, maxsize=None, ts=None):
    return {"version": v, "ts": ts, "async": None, "bopt": None, "maxsize": maxsize, "items": items}


def aes_template(length=256, name=None):
    attrs = [{"name": "Cryptographic Algorithm", "index": None, "value": {"k": "enum", "v": 3}},
             {"name": "Cryptographic Length", "index": None, "value": {"k": "int", "v": length}},
             {"name": "Cryptographic Usage Mask", "index": None, "value": {"k": "int", "v": 12}}]
    if name:
        attrs.append({"name": "Name", "index": 0, "value": {"k": "name", "v": name, "t": 1}})
    return {"tnames": 0, "attrs": attrs}


def sure_items(v):
    """items that succeed on the base store (objects 1..4 owned by alice) under version v (1.x) or are plain reads"""
    its = [
        ("query", {"op": "query", "bid": None, "crypto": None, "functions": [1, 2, 3]}),
        ("locate", {"op": "locate", "bid": None, "crypto": None, "max": None, "offset": None, "attrs": []}),
        ("get", {"op": "get", "bid": None, "crypto": None, "uid": "1", "format": None, "compression": False, "wrap": None}),
        ("getAttributes", {"op": "getAttributes", "bid": None, "crypto": None, "uid": "1", "names": []}),
        ("getAttributeList", {"op": "getAttributeList", "bid": None, "crypto": None, "uid": "2"}),
        ("activate", {"op": "activate", "bid": None, "crypto": None, "uid": "2"}),
        ("destroy", {"op": "destroy", "bid": None, "crypto": None, "uid": "3"}),
        ("create", {"op": "create", "bid": None, "crypto": None, "otype": 2, "tmpl": aes_template(256)}),
    ]
    if v >= 11:
        its.append(("discoverVersions", {"op": "discoverVersions", "bid": None, "crypto": None, "versions": []}))
    return its


def big_register(v, n=9000):
    """a Register whose encoding is larger than two receive buffers"""
    obj = {"otype": 8, "value": "5a" * n, "alg": None, "len": None, "format": None, "subtype": 0x80000000}
    return {"op": "register", "bid": None, "crypto": None, "otype": 8, "tmpl": {"tnames": 0, "attrs": []}, "obj": obj}


class SessGen(object):
    def __init__(self, rnd):
        self.r = rnd
        self.g = gen_engine.Gen(rnd.randrange(1 << 30), {"no_internal_script": True,
                                                         "ops": {"create": 6, "createKeyPair": 0.3, "register": 6,
                                                                 "deriveKey": 1, "locate": 6, "get": 8,
                                                                 "getAttributes": 5, "getAttributeList": 3,
                                                                 "activate": 4, "revoke": 3, "destroy": 3, "query": 6,
                                                                 "discoverVersions": 3, "encrypt": 2, "decrypt": 1,
                                                                 "sign": 1, "signatureVerify": 1, "mac": 2,
                                                                 "setAttribute": 2, "modifyAttribute": 3,
                                                                 "deleteAttribute": 3, "unsupported": 1}})
        self.g.live = {"1": {"otype": 2, "owner": "alice", "state": 1}, "2": {"otype": 2, "owner": "alice", "state": 1},
                       "3": {"otype": 2, "owner": "alice", "state": 1}, "4": {"otype": 8, "owner": "alice", "state": 1}}
        self.g.created = 4
        self.skipped = 0

    def ch(self, xs):
        return xs[self.r.randrange(len(xs))]

    # ---- valid requests ---------------------------------------------------
    def valid(self, v=None, op=None, maxsize=None, sure=None):
        """-> (frame bytes, meta) or None when the repo cannot encode the generated request"""
        v = v if v is not None else self.ch(VERSIONS)
        if sure is None:
            sure = self.r.random() < 0.45
        if sure and v != 20:
            name, it = self.ch(sure_items(v)) if op is None else \
                next((x for x in sure_items(v) if x[0] == op), self.ch(sure_items(v)))
            items = [dict(it)]
        else:
            n = self.ch([1, 1, 1, 2, 3])
            items = []
            for i in range(n):
                it = self.g.item(op=op, version=v)
                it["bid"] = ("b%d" % i) if n > 1 else None
                items.append(it)
        req = mkreq(v, items, maxsize=maxsize)
        if self.r.random() < 0.08:
            # a header Time Stamp: in range (accepted / stale / future) or anywhere in the signed 64-bit range
            req["ts"] = self.ch([1000, 10 ** 9, 2 ** 60, -2 ** 60, 2 ** 63 - 1, -2 ** 63, 2 ** 56, 253402300800])
        if n_items(req) > 1:
            req["bopt"] = self.ch([None, 1, 2])
        try:
            frame = encode_request(req)
        except Exception:
            self.skipped += 1
            return None
        ops = [it["op"] for it in req["items"]]
        return frame, {"class": "valid", "ops": ops, "version": v, "readonly": all(o in READ_ONLY for o in ops)}

    def valid_big(self, v=None):
        v = v if v is not None else self.ch([10, 12, 14])
        frame = encode_request(mkreq(v, [big_register(v, self.ch([5000, 9000, 20000]))]))
        return frame, {"class": "valid-big", "ops": ["register"], "version": v, "readonly": False}

    # ---- mutations --------------------------------------------------------
    def mutate(self, frame, kind=None):
        """one grammar-aware mutation of a valid frame; the OUTER length is made consistent again
        (so the result is a complete frame) unless the mutation is about the outer length itself."""
        kinds = ["truncate", "truncate", "inflate", "deflate", "type", "tag", "nest", "count", "version",
                 "version0", "flip", "trailing", "textlen"]
        kind = kind or self.ch(kinds)
        b = bytearray(frame)
        idx = ttlv_index(frame)
        inner = [e for e in idx if e["depth"] >= 1]
        r = self.r
        if kind == "truncate":
            cut = r.randrange(8, max(9, len(b)))
            b = b[:cut]
            if r.random() < 0.3:
                b = b[:8 + ((cut - 8) // 8) * 8]
        elif kind in ("inflate", "deflate"):
            e = self.ch(inner)
            d = self.ch([1, 7, 8, 16, 0x100, 0x7FFFFFF0, 0xFFFFFFFF - e["len"]])
            new = (e["len"] + d) if kind == "inflate" else max(0, e["len"] - self.ch([1, 4, 8, e["len"]]))
            b[e["off"] + 4:e["off"] + 8] = (new & 0xFFFFFFFF).to_bytes(4, "big")
        elif kind == "type":
            e = self.ch(inner)
            b[e["off"] + 3] = self.ch([t for t in (0, 1, 2, 3, 4, 5, 6, 7, 8, 9, 10, 11, 0x7F, 0xFF) if t != e["type"]])
        elif kind == "tag":
            e = self.ch(inner)
            if r.random() < 0.5:
                other = self.ch(inner)
                b[e["off"]:e["off"] + 3] = frame[other["off"]:other["off"] + 3]
            else:
                b[e["off"]:e["off"] + 3] = self.ch([b"\x42\x00\x00", b"\x42\xff\xff", b"\x00\x00\x00", b"\x54\x00\x01",
                                                   bytes([0x42, 0, r.randrange(1, 0xA5)])])
        elif kind == "nest":
            depth = self.ch([10, 100, 1200, 5000])
            body = bytes(b[8:])
            if r.random() < 0.5:
                # wrap the whole content in `depth` nested structures
                for _ in range(depth):
                    body = b"\x42\x00\x77\x01" + len(body).to_bytes(4, "big") + body
            else:
                # put the nest where the first batch item is
                nest = b""
                for _ in range(depth):
                    nest = b"\x42\x00\x0f\x01" + len(nest).to_bytes(4, "big") + nest
                hdrs = [e for e in idx if e["depth"] == 1 and e["tag"] == 0x420077]
                cut = hdrs[0]["end"] if hdrs else 8
                body = bytes(b[8:cut]) + nest
            b = bytearray(frame[:8]) + body
        elif kind == "count":
            cs = [e for e in idx if e["tag"] == 0x42000D]
            if cs:
                b[cs[0]["off"] + 8:cs[0]["off"] + 12] = self.ch([0x7FFFFFFF, 0xFFFFFFFF, 0, 2, 1000000]).to_bytes(4, "big")
        elif kind in ("version", "version0"):
            mj = [e for e in idx if e["tag"] == 0x42006A]
            mn = [e for e in idx if e["tag"] == 0x42006B]
            maj, mnr = self.ch(BAD_VERSIONS)
            if mj and mn:
                b[mj[0]["off"] + 8:mj[0]["off"] + 12] = maj.to_bytes(4, "big")
                b[mn[0]["off"] + 8:mn[0]["off"] + 12] = mnr.to_bytes(4, "big")
            if kind == "version0":
                # unsupported version with an empty batch: decodable, refused by the engine
                hdrs = [e for e in idx if e["depth"] == 1 and e["tag"] == 0x420077]
                cs = [e for e in idx if e["tag"] == 0x42000D]
                if hdrs and cs:
                    b[cs[0]["off"] + 8:cs[0]["off"] + 12] = (0).to_bytes(4, "big")
                    b = b[:hdrs[0]["end"]]
        elif kind == "flip":
            for _ in range(self.ch([1, 1, 2, 5, 20])):
                p = r.randrange(8, len(b))
                b[p] ^= 1 << r.randrange(8)
        elif kind == "trailing":
            b += bytes(r.randrange(256) for _ in range(self.ch([1, 8, 24])))
        elif kind == "cutvalue":
            # cut the frame INSIDE the value of a primitive and make every enclosing structure consistent with
            # the shorter extent: all lengths are honest except that primitive's, whose declared bytes are not
            # there.  Ground truth: such a frame cannot be decoded.
            prims = [e for e in inner if e["type"] != 1 and e["len"] > 0 and 2 <= e["type"] <= 10]
            strings = [e for e in prims if e["type"] in (7, 8, 4)]
            if strings and r.random() < 0.7:
                prims = strings
            if prims:
                e = self.ch(prims)
                keep = r.randrange(0, e["len"])
                if e["len"] >= 16 and r.random() < 0.6:
                    keep = (keep // 8) * 8          # keep the remainder 8-aligned: only the length gives it away
                cut = e["off"] + 8 + keep
                b = b[:cut]
                for a in idx:
                    if a["type"] == 1 and a["off"] < e["off"] < a["end"]:
                        b[a["off"] + 4:a["off"] + 8] = (cut - a["off"] - 8).to_bytes(4, "big")
        elif kind == "itemcut":
            # the failure sits exactly at the START of an announced batch item: the Batch Count announces more items
            # than the frame holds, or the frame ends at an item boundary, or the 3 tag bytes of an item are not the
            # Request Batch Item tag.  Ground truth: such a frame cannot be decoded (Batch Count items are announced).
            items = [e for e in idx if e["depth"] == 1 and e["tag"] == 0x42000F]
            cs = [e for e in idx if e["tag"] == 0x42000D and e["depth"] == 2]
            if items and cs:
                how = self.ch(["count", "boundary", "tag"])
                if how == "count":
                    b[cs[0]["off"] + 8:cs[0]["off"] + 12] = (len(items) + self.ch([1, 1, 2, 7, 1000])).to_bytes(4, "big")
                elif how == "boundary":
                    j = r.randrange(len(items))
                    b = b[:items[j]["off"]]
                else:
                    j = r.randrange(len(items))
                    b[items[j]["off"]:items[j]["off"] + 3] = self.ch([b"\x42\x00\x10", b"\x42\x00\x7b", b"\x42\x00\x79",
                                                                   b"\x42\x00\x0e", b"\x54\x00\x0f", b"\x42\x01\x0f"])
        elif kind == "transparent":
            # Key Material given as a STRUCTURE holding the key in a Key byte string (transparent key material) in place
            # of the plain byte string; every enclosing length adjusted
            ks = [e for e in inner if e["tag"] == 0x420043 and e["type"] == 8]
            if ks:
                e = ks[0]
                val = bytes(b[e["off"] + 8:e["end"]])              # value + padding
                inner_item = b"\x42\x00\x3f\x08" + e["len"].to_bytes(4, "big") + val
                new = b"\x42\x00\x43\x01" + len(inner_item).to_bytes(4, "big") + inner_item
                grow = len(new) - (e["end"] - e["off"])
                b[e["off"]:e["end"]] = new
                for a in idx:
                    if a["type"] == 1 and a["off"] < e["off"] < a["end"]:
                        b[a["off"] + 4:a["off"] + 8] = (a["len"] + grow).to_bytes(4, "big")
        elif kind == "emptystring":
            # a Text String / Byte String value made EMPTY (length 0, no value bytes), every enclosing length adjusted:
            # a legal encoding that constructors guarding against empty values never see - it arrives through read()
            ts = [e for e in inner if e["type"] in (7, 8) and e["len"] > 0 and e["depth"] >= 3]
            if ts:
                e = self.ch(ts)
                gone = e["end"] - (e["off"] + 8)
                b[e["off"] + 4:e["off"] + 8] = (0).to_bytes(4, "big")
                del b[e["off"] + 8:e["end"]]
                for a in idx:
                    if a["type"] == 1 and a["off"] < e["off"] < a["end"]:
                        b[a["off"] + 4:a["off"] + 8] = (a["len"] - gone).to_bytes(4, "big")
        elif kind == "textlen":
            ts = [e for e in inner if e["type"] in (7, 8)]
            if ts:
                e = self.ch(ts)
                b[e["off"] + 4:e["off"] + 8] = self.ch([0xFFFFFFFF, 0x7FFFFFFF, e["len"] + 1000]).to_bytes(4, "big")
        # make the outer length consistent
        b[4:8] = (len(b) - 8).to_bytes(4, "big")
        return bytes(b), kind

    def raw(self):
        """random bytes behind a consistent 8-byte header (tag/type random or plausible)"""
        n = self.ch([0, 1, 7, 8, 16, 40, 200, 1000])
        body = bytes(self.r.randrange(256) for _ in range(n))
        head = self.ch([b"\x42\x00\x78\x01", bytes(self.r.randrange(256) for _ in range(4)), b"\x00\x00\x00\x00"])
        return head + n.to_bytes(4, "big") + body

    # ---- chunkings --------------------------------------------------------
    def chunking(self, stream, kind=None):
        kinds = ["whole", "bytes", "header", "random", "big", "random"]
        kind = kind or self.ch(kinds)
        r = self.r
        if not stream:
            return [], kind
        if kind == "whole":
            return [stream], kind
        if kind == "bytes":
            return [stream[i:i + 1] for i in range(len(stream))], kind
        out = []
        i = 0
        while i < len(stream):
            if kind == "header":
                n = self.ch([1, 3, 4, 7, 8, 9, 12])
            elif kind == "big":
                n = self.ch([4095, 4096, 4097, 8192, 10000, 70000])
            else:
                n = self.ch([1, 2, 5, 8, 16, 61, 300, 4096, 5000])
            out.append(stream[i:i + n])
            i += n
        return out, kind


def n_items(req):
    return len(req["items"])


def ttlv_index(b):
    """offsets of every item of a VALID encoding: {off, tag, type, len, depth, end}"""
    out = []

    def walk(lo, hi, depth):
        i = lo
        while i + 8 <= hi:
            tag = int.from_bytes(b[i:i + 3], "big")
            typ = b[i + 3]
            ln = int.from_bytes(b[i + 4:i + 8], "big")
            pad = (8 - ln % 8) % 8
            end = min(hi, i + 8 + ln + pad)
            out.append({"off": i, "tag": tag, "type": typ, "len": ln, "depth": depth, "end": end})
            if typ == 1:
                walk(i + 8, min(hi, i + 8 + ln), depth + 1)
            i = end
    walk(0, len(b), 0)
    return out


def spec_frames(stream):
    """independent reading of the framing rule: 8-byte header, big-endian length in bytes 4..7.
    -> (frames, residue)"""
    frames = []
    i = 0
    while True:
        if len(stream) - i < 8:
            return frames, stream[i:]
        n = int.from_bytes(stream[i + 4:i + 8], "big")
        if len(stream) - i - 8 < n:
            return frames, stream[i:]
        frames.append(stream[i:i + 8 + n])
        i += 8 + n
