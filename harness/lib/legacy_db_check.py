"""
The implementation-side parts of C07 / C05 / C13 on database files an EARLIER run of the server wrote
(corpus/legacy_db/*.sql, made once by tools/make_legacy_db.py; loader lib/legacy_db.py).

Every other check starts from a database file the code UNDER TEST created a few seconds earlier.  A user's file was
created long ago: `Base.metadata.create_all` never alters a table that exists, so column types / affinities, foreign
keys, `sqlite_sequence`, `PRAGMA user_version` (0) and the orphaned child rows of destroyed objects are what the old code
wrote.  The three functions start the engine under test on such a file (the way a restarted server does) and read the
PROPERTY off the real engine's answers - no model is needed here (the engine model is tied to the engine on fresh stores
by the other parts):

    run_c07(ctx)   identifiers of the old file are never handed out again, its dead identifiers stay dead, its live
                   objects stay - over seeded histories of creating / destroying operations with restarts
    run_c05(ctx)   what the old file stores comes back exactly (six versions, real client), and NEW objects registered
                   into the old file come back exactly, numeric edges of every integer-valued field included
    run_c13(ctx)   the grid operation x object (old and new) x version of well-formed requests by the owner is never
                   answered General Failure

each `(ctx) -> coverage dict`, reporting through `ctx.report(signature, what, replay)` with
replay = {"kind": "legacy-db", "part": ..., "fixture": name, "steps": [...]}; `replay(ctx, rep)` re-runs one
(`is_mine(rep)` says whether a replay file is one of these).  For a property module:
    run():     legacy_db_check.hook(ctx, "c07")           (after the module's own coverage is in place)
    replay():  if legacy_db_check.is_mine(rep): return legacy_db_check.replay(ctx, rep)
Signatures: c07:legacy:<fixture>:identifier-reused | dead-identifier-answers | dead-identifier-located |
live-object-lost;  c05:legacy:<fixture>:stored-object-differs:<type>:<field> | new-object-differs:<type>:<field>;
c13:legacy:general-failure:<op>:<otype>.
`schema_same_as_current` in every coverage dict says whether a database created NOW has the same sqlite_master text as
the fixture (information, not a violation: a changed schema is exactly the situation an upgrade meets).

    /venv/bin/python harness/lib/legacy_db_check.py [c07|c05|c13] [quick|thorough]      (the interpreter ./check uses)
"""
import collections
import logging
import os
import random
import sys
import time
import warnings

HERE = os.path.dirname(os.path.abspath(__file__))
sys.path.insert(0, HERE)
sys.path.insert(0, os.path.join(HERE, ".."))
warnings.filterwarnings("ignore")

USERS = ["alice", "bob"]
VERS6 = [10, 11, 12, 13, 14, 20]
VERS4 = [10, 12, 14, 20]
ALLMASK = 0xFFFFFF
NOT_FOUND = 1
GENERAL_FAILURE = 256
KIND = {1: "cert", 2: "sym", 3: "pub", 4: "priv", 5: "split", 7: "secret", 8: "opaque"}


def _workdir():
    """a memory-backed directory for the database files when there is one (an fsync on the shared disk costs ~80 ms)"""
    d = "/dev/shm"
    return d if os.path.isdir(d) and os.access(d, os.W_OK) else None


def _legacy():
    import legacy_db
    logging.disable(logging.CRITICAL)
    return legacy_db


def T(attrs):
    return {"tnames": 0, "attrs": attrs}


def A(name, kind, v, index=None, **kw):
    d = {"k": kind, "v": v}
    d.update(kw)
    return {"name": name, "index": index, "value": d}


def APPINFO(ns, d, index=None):
    return {"name": "Application Specific Information", "index": index, "value": {"k": "appinfo", "ns": ns, "d": d}}


def key_attrs(alg, length, mask=ALLMASK):
    return [A("Cryptographic Algorithm", "enum", alg), A("Cryptographic Length", "int", length),
            A("Cryptographic Usage Mask", "int", mask)]


def line(user, version, item, now):
    it = {"bid": None, "crypto": None}
    it.update(item)
    return {"cmd": "req", "now": now, "id": {"user": user, "groups": None},
            "req": {"version": version, "ts": None, "async": None, "bopt": None, "maxsize": None, "items": [it]}}


def run_line(E, j):
    """one recorded step on the engine; -> output (internal errors of the engine attached)"""
    import impl_engine
    if j.get("cmd") == "restart":
        E.restart()
        return "ok"
    try:
        o = E.handle(j)
    except impl_engine.BuildRefused as e:
        return {"unbuildable": str(e)}
    if isinstance(o, dict) and E.internal_errors:
        o = dict(o)
        o["_internal"] = list(E.internal_errors)
    return o


def new_ids(item, res):
    """identifiers a successful creating item handed out"""
    if res.get("status") != "ok":
        return []
    d = res.get("data") or {}
    if item["op"] in ("create", "register", "deriveKey"):
        return [str(d.get("uid"))]
    if item["op"] == "createKeyPair":
        return [str(d.get("pub")), str(d.get("priv"))]
    return []


def _rep(part, fixture, steps, **kw):
    r = {"kind": "legacy-db", "part": part, "fixture": fixture, "steps": steps}
    r.update(kw)
    return r


# ======================================================================================================== C07
def mon_c07(entry, steps, outs):
    """The property read off one history on a fixture: -> [(kind, what, step index)].
    * a creating operation never hands out an identifier the MANIFEST lists as ever used (live or dead) or one seen
      earlier in the history;
    * every operation addressing a dead identifier (dead in the fixture, or destroyed in the history) fails with Item
      Not Found, whoever asks; Locate never lists one;
    * a live object of the fixture (not destroyed in the history) is listed to its owner by an unfiltered Locate, and
      Get by its owner returns the value the MANIFEST records."""
    used = set(entry["ever_used"])
    dead = set(entry["dead"])
    live = {o["uid"]: o for o in entry["objects"]}
    fails = []
    for i, (j, o) in enumerate(zip(steps, outs)):
        if j.get("cmd") != "req" or not isinstance(o, dict) or "results" not in o:
            continue
        user = j["id"]["user"]
        for it, r in zip(j["req"]["items"], o["results"]):
            op = it["op"]
            for u in new_ids(it, r):
                if u in used:
                    fails.append(("identifier-reused", "%s by %s under KMIP %s was given identifier %s, which %s"
                                  % (op, user, j["req"]["version"], u,
                                     "the old database file had used already (%s there)"
                                     % ("destroyed" if u in entry["dead"] else "live")
                                     if u in entry["ever_used"] else "was handed out earlier in this history"), i))
                used.add(u)
            uid = it.get("uid")
            if uid is not None and str(uid) in dead and op in ("get", "getAttributes", "getAttributeList", "activate",
                                                                 "revoke", "destroy"):
                if r.get("status") == "ok" or r.get("reason") != NOT_FOUND:
                    fails.append(("dead-identifier-answers", "%s of the destroyed identifier %s by %s answered %s"
                                  % (op, uid, user, "success" if r.get("status") == "ok" else
                                     "reason %s (%s)" % (r.get("reason"), (r.get("msg") or "")[:80])), i))
            if op == "locate" and r.get("status") == "ok":
                got = set(str(u) for u in r["data"]["uids"])
                if got & dead:
                    fails.append(("dead-identifier-located", "Locate by %s lists destroyed identifier(s) %s"
                                  % (user, sorted(got & dead, key=str)), i))
                if not it.get("attrs") and it.get("max") is None and it.get("offset") is None:
                    mine = [u for u, ob in live.items() if ob["owner"] == user]
                    lost = [u for u in mine if u not in got]
                    if lost:
                        fails.append(("live-object-lost", "Locate by %s no longer lists the object(s) %s of the old "
                                      "database file (listed: %s)" % (user, lost, sorted(got, key=str)), i))
            if op == "get" and uid is not None and str(uid) in live and live[str(uid)]["owner"] == user \
                    and it.get("wrap") is None and it.get("format") is None:
                ob = live[str(uid)]
                if r.get("status") != "ok":
                    fails.append(("live-object-lost", "Get of object %s of the old database file by its owner %s fails: "
                                  "reason %s (%s)" % (uid, user, r.get("reason"), (r.get("msg") or "")[:80]), i))
                elif r["data"].get("value") != ob["get"]["value"] or r["data"].get("otype") != ob["otype"]:
                    fails.append(("live-object-lost", "Get of object %s of the old database file returns another object: "
                                  "type %s value %s.., recorded type %s value %s.."
                                  % (uid, r["data"].get("otype"), str(r["data"].get("value"))[:24], ob["otype"],
                                     ob["get"]["value"][:24]), i))
            if op == "destroy" and r.get("status") == "ok":
                dead.add(str(uid))
                live.pop(str(uid), None)
    return fails


def c07_history(rng, fixture, E):
    """one adaptive history on the opened fixture: -> (steps, outs)"""
    entry = _legacy().describe(fixture)
    steps, outs = [], []
    clock = [5000]
    alive = []                      # (uid, owner) made in this history and not destroyed by it
    dead = list(entry["dead"])
    fix_live = {o["uid"]: o for o in entry["objects"]}

    def do(j):
        o = run_line(E, j)
        if isinstance(o, dict) and "unbuildable" in o:
            return o
        steps.append(j)
        outs.append(o)
        return o

    def req(user, item, version=None):
        clock[0] += 7
        return do(line(user, version or rng.choice([10, 11, 12, 13, 14, 14, 20]), item, clock[0]))

    def res0(o):
        return (o.get("results") or [{}])[0] if isinstance(o, dict) else {}

    def probe(full):
        ds = list(entry["dead"]) + rng.sample([d for d in dead if d not in entry["dead"]],
                                              min(3, len([d for d in dead if d not in entry["dead"]])))
        for d in ds:
            for u in USERS:
                for op in (("get", "getAttributes", "activate", "destroy") if full else ("get",)):
                    it = {"op": op, "uid": d}
                    if op == "get":
                        it.update(format=None, compression=False, wrap=None)
                    if op == "getAttributes":
                        it.update(names=[])
                    req(u, it)
        for u in USERS:
            req(u, {"op": "locate", "max": None, "offset": None, "attrs": []})
        for uid, ob in sorted(fix_live.items(), key=lambda kv: int(kv[0])):
            if full or rng.random() < 0.3:
                req(ob["owner"], {"op": "get", "uid": uid, "format": None, "compression": False, "wrap": None})

    def extra_attrs():
        a = []
        if rng.random() < 0.5:
            a.append(A("Name", "name", "h-%d" % rng.randrange(10 ** 6), 0, t=1))
        if rng.random() < 0.3:
            a.append(A("Object Group", "text", rng.choice(["g1", "g2", "hg"]), 0))
        if dead and rng.random() < 0.2:
            a.append(A("Unique Identifier", "text", rng.choice(dead)))     # a template naming a destroyed object
        return a

    def creating(kind, user):
        hexb = lambda n: bytes(rng.randrange(256) for _ in range(n)).hex()
        if kind == "create":
            n = rng.choice([16, 24, 32])
            it = {"op": "create", "otype": 2, "tmpl": T(key_attrs(3, n * 8) + extra_attrs()),
                  "crypto": {"k": "ok", "t": hexb(n)}}
        elif kind == "createKeyPair":
            it = {"op": "createKeyPair", "common": T(key_attrs(4, 1024, 3) + extra_attrs()), "priv": None, "pub": None,
                  "crypto": {"k": "ok2", "pub": hexb(20), "priv": hexb(30), "pubfmt": 3, "privfmt": 4}}
        elif kind == "register":
            ot = rng.choice([2, 7, 8, 1, 5])
            ob = {2: {"otype": 2, "value": hexb(16), "alg": 3, "len": 128, "format": 1, "subtype": None},
                  5: {"otype": 5, "value": hexb(16), "alg": 3, "len": 128, "format": 1, "subtype": None},
                  7: {"otype": 7, "value": hexb(9), "alg": None, "len": None, "format": None, "subtype": 1},
                  8: {"otype": 8, "value": hexb(5), "alg": None, "len": None, "format": None, "subtype": 0x80000000},
                  1: {"otype": 1, "value": "3003020101" + hexb(4), "alg": None, "len": None, "format": None,
                      "subtype": 1}}[ot]
            it = {"op": "register", "otype": ot, "obj": ob,
                  "tmpl": T(([] if ot == 8 else [A("Cryptographic Usage Mask", "int", ALLMASK)]) + extra_attrs())}
        else:
            bases = [u for u, w in alive if w == user] + \
                    [u for u, ob in fix_live.items() if ob["owner"] == user and (ob["mask"] or 0) & 0x200]
            if not bases:
                return creating("create", user)
            it = {"op": "deriveKey", "otype": 2, "uids": [rng.choice(bases)], "tmpl": T(key_attrs(3, 128)),
                  "crypto": {"k": "ok", "t": hexb(16)}}
        r = res0(req(user, it))
        for u in new_ids(it, r):
            alive.append((u, user))

    def destroy(uid, user):
        r = res0(req(user, {"op": "destroy", "uid": uid}))
        if r.get("status") == "ok":
            alive[:] = [(u, w) for u, w in alive if u != uid]
            fix_live.pop(uid, None)
            dead.append(uid)

    probe(True)
    n_ops = rng.randint(6, 15)
    restarts = rng.randint(0, 2)
    restart_at = set(rng.sample(range(1, n_ops + 1), restarts))
    purge_at = rng.randrange(2, n_ops) if rng.random() < 0.45 else None
    k = 0
    while k < n_ops:
        k += 1
        user = rng.choice(USERS)
        if purge_at == k and alive:
            # destroy everything this history made, (restart,) create: the newest identifiers are all dead then
            for u, w in list(alive):
                destroy(u, w)
                k += 1
            if restarts and rng.random() < 0.8:
                do({"cmd": "restart"})
                probe(False)
            creating(rng.choice(["create", "register"]), user)
            continue
        x = rng.random()
        if x < 0.58 or not (alive or fix_live or dead):
            creating(rng.choice(["create"] * 4 + ["register"] * 3 + ["createKeyPair"] * 2 + ["deriveKey"] * 2), user)
        else:
            y = rng.random()
            if y < 0.45 and alive:
                u, w = alive[-1]                                  # the newest
            elif y < 0.7 and alive:
                u, w = rng.choice(alive)
            elif y < 0.85 and [1 for ob in fix_live.values() if ob["state"] in (1, 3, 4, None)]:
                ob = rng.choice([ob for ob in sorted(fix_live.values(), key=lambda ob: int(ob["uid"]))
                                 if ob["state"] in (1, 3, 4, None)])
                u, w = ob["uid"], ob["owner"]
            elif dead:
                u, w = rng.choice(dead), user
            else:
                creating("create", user)
                continue
            destroy(u, w if rng.random() < 0.85 else [x_ for x_ in USERS if x_ != w][0])
        if k in restart_at:
            do({"cmd": "restart"})
            probe(False)
    probe(True)
    return steps, outs


def _c07_one(fixture, seed_key, ctx, stats):
    L = _legacy()
    rng = random.Random(seed_key)
    E = L.LegacyEngine(fixture, scripted_crypto=True, workdir=_workdir())
    try:
        steps, outs = c07_history(rng, fixture, E)
    finally:
        E.close()
    fails = mon_c07(L.describe(fixture), steps, outs)
    for kind, what, i in fails:
        ctx.report("c07:legacy:%s:%s" % (fixture, kind), "old database file '%s': %s" % (fixture, what),
                   _rep("c07", fixture, steps[:i + 1], failing_step=i))
    stats["histories"] += 1
    for j, o in zip(steps, outs):
        if j.get("cmd") == "restart":
            stats["restarts"] += 1
            continue
        stats["operations"] += 1
        for it, r in zip(j["req"]["items"], (o.get("results") or []) if isinstance(o, dict) else []):
            stats["ops"]["%s:%s" % (it["op"], "ok" if r.get("status") == "ok" else "fail:%s" % r.get("reason"))] += 1
            stats["new_identifiers"] += len(new_ids(it, r))
            if it["op"] == "destroy" and r.get("status") == "ok":
                stats["destroyed"] += 1
    return fails, steps, outs


def run_c07(ctx):
    L = _legacy()
    t0 = time.time()
    n = 10 if ctx.tier == "quick" else 40
    stats = {"histories": 0, "operations": 0, "restarts": 0, "new_identifiers": 0, "destroyed": 0,
             "ops": collections.Counter()}
    per_fixture, sample = {}, None
    for fixture in L.names():
        bad = 0
        for k in range(n):
            fails, steps, outs = _c07_one(fixture, "legacy-c07-%s-%s-%d" % (ctx.seed, fixture, k), ctx, stats)
            bad += 1 if fails else 0
            if sample is None and fixture == "mixed":
                sample = {"fixture": fixture, "steps": [s for s in steps if s.get("cmd") == "restart" or
                                                        s["req"]["items"][0]["op"] not in ("get", "getAttributes", "locate",
                                                                                          "activate")][:8]}
        per_fixture[fixture] = {"histories": n, "histories_with_a_failing_monitor": bad}
    cov = {"fixtures": per_fixture, "histories": stats["histories"], "operations": stats["operations"],
           "restarts": stats["restarts"], "new_identifiers": stats["new_identifiers"],
           "destroyed_in_histories": stats["destroyed"], "outcomes": dict(stats["ops"]),
           "evaluations": stats["operations"], "schema_same_as_current": L.schema_report(),
           "sample": sample, "wall_s": round(time.time() - t0, 1),
           "rule": "per fixture (mixed, emptied, fresh): seeded histories of 6-15 creating (Create, CreateKeyPair, "
                   "Register, DeriveKey) / destroying operations by alice and bob with 0-2 restarts, the engine under "
                   "test started on the OLD database file; monitors: no new identifier is one the old file ever used "
                   "or one seen in the history, dead identifiers answer Item Not Found to both users and are never "
                   "located, live objects of the old file stay listed and readable"}
    return cov


# ======================================================================================================== C05
EDGES = [0, 1, 2 ** 31 - 1, 2 ** 31, 2 ** 32, 2 ** 53 + 1, 2 ** 62 + 57, 2 ** 63 - 25, 2 ** 63 - 1,
         2 ** 63, 2 ** 64, 2 ** 64 + 13, 2 ** 127 - 1, -1, -2 ** 63]
SPLIT_BASE = {"kind": "split", "alg": 3, "len": 128, "value": "00112233445566778899aabbccddeeff", "format": 1,
              "parts": 5, "ident": 2, "threshold": 3, "method": 3, "prime": 2 ** 61 - 1, "mask": 12, "names": ["new-split"]}
CP_INT_FIELDS = ["iv_length", "tag_length", "fixed_field_length", "invocation_field_length", "counter_length",
                 "initial_counter_value"]


def new_object_specs(rng, tier):
    """JSON specs of the NEW objects registered into the old file: C05's zoo of all seven types, and the numeric edges of
    every integer-valued field"""
    from props import c05
    specs = []
    nz = len(c05.make_objects(random.Random(0), 14))
    for rep in range(1 if tier == "quick" else 4):
        for li in range(nz):
            specs.append({"kind": "zoo", "seed": rng.randrange(10 ** 9), "label": li})
    for f in ("parts", "ident", "threshold", "prime"):
        for e in EDGES:
            s = dict(SPLIT_BASE)
            s[f] = e
            specs.append(s)
    for k in range(6 if tier == "quick" else 40):       # several edges at once
        s = dict(SPLIT_BASE)
        for f in ("parts", "ident", "threshold"):
            s[f] = rng.choice([0, 1, 2 ** 31 - 1, -1, -2 ** 31, 7])
        s["method"] = rng.choice([1, 2, 3, 4])
        s["prime"] = rng.choice(EDGES + ([None] * 8 if s["method"] != 3 else []))
        specs.append(s)
    for ln in (0, 1, 8, 2 ** 31 - 1, 2 ** 31, 2 ** 32, -1):
        specs.append(dict(SPLIT_BASE, len=ln))
        specs.append({"kind": "pub", "alg": 4, "len": ln, "value": "30818902818100aa", "format": 3, "mask": 2,
                      "names": ["new-pub"]})
        specs.append({"kind": "priv", "alg": 4, "len": ln, "value": "3082027602010030", "format": 4, "mask": 1,
                      "names": ["new-priv"]})
    for f in CP_INT_FIELDS:
        for e in (0, 1, 2 ** 31 - 1, 2 ** 31):
            specs.append({"kind": "symwrapped", "cp": {f: e}, "value": "aa" * 24, "mask": 4, "names": ["new-wrapped"]})
    return specs


def _wrap_of(spec):
    from kmip.core import enums
    cp = {"block_cipher_mode": enums.BlockCipherMode.NIST_KEY_WRAP}
    cp.update(spec["cp"])
    return {"wrapping_method": enums.WrappingMethod.ENCRYPT,
            "encryption_key_information": {"unique_identifier": "1", "cryptographic_parameters": cp},
            "encoding_option": enums.EncodingOption.NO_ENCODING}


def expected_get(spec):
    """what Get must return for an explicit spec, written from the spec's numbers (not read off the pie object the code
    under test built from them); None for the zoo (whose objects are described by c05.describe)"""
    from props import c05
    k = spec["kind"]
    if k == "split":
        return {"type": 5, "value": spec["value"], "cryptographic_algorithm": spec["alg"],
                "cryptographic_length": spec["len"], "key_format_type": spec["format"],
                "split_key_parts": spec["parts"], "key_part_identifier": spec["ident"],
                "split_key_threshold": spec["threshold"], "split_key_method": spec["method"],
                "prime_field_size": spec["prime"], "wrapping": None}
    if k in ("pub", "priv"):
        return {"type": 3 if k == "pub" else 4, "value": spec["value"], "cryptographic_algorithm": spec["alg"],
                "cryptographic_length": spec["len"], "key_format_type": spec["format"], "wrapping": None}
    if k == "symwrapped":
        return {"type": 2, "value": spec["value"], "cryptographic_algorithm": 3, "cryptographic_length": 128,
                "key_format_type": 1, "wrapping": c05.wrap_json(_wrap_of(spec))}
    return None


def build_pie(spec):
    """the pie object of a spec (what a user of the client library writes)"""
    from kmip.core import enums
    from kmip.pie import objects as po
    k = spec["kind"]
    if k == "zoo":
        from props import c05
        r = random.Random(spec["seed"])
        label, mk = c05.make_objects(r, spec.get("version", 14))[spec["label"]]
        return mk()
    masks = [m for m in enums.CryptographicUsageMask if m.value & (spec.get("mask") or 0)]
    val = bytes.fromhex(spec["value"])
    if k == "split":
        o = po.SplitKey(cryptographic_algorithm=enums.CryptographicAlgorithm(spec["alg"]),
                        cryptographic_length=spec["len"], key_value=val,
                        key_format_type=enums.KeyFormatType(spec["format"]), split_key_parts=spec["parts"],
                        key_part_identifier=spec["ident"], split_key_threshold=spec["threshold"],
                        split_key_method=enums.SplitKeyMethod(spec["method"]), prime_field_size=spec["prime"])
    elif k == "pub":
        o = po.PublicKey(enums.CryptographicAlgorithm(spec["alg"]), spec["len"], val, enums.KeyFormatType(spec["format"]))
    elif k == "priv":
        o = po.PrivateKey(enums.CryptographicAlgorithm(spec["alg"]), spec["len"], val, enums.KeyFormatType(spec["format"]))
    elif k == "symwrapped":
        o = po.SymmetricKey(enums.CryptographicAlgorithm.AES, 128, val, key_wrapping_data=_wrap_of(spec))
    else:
        raise ValueError(k)
    o.names = list(spec["names"])
    o.cryptographic_usage_masks = masks
    return o


def describe_core(secret):
    """c05.describe of a core (wire-level) split key, without the pie class"""
    kb = secret.key_block
    ev = lambda x: None if x is None else getattr(getattr(x, "value", x), "value", getattr(x, "value", x))
    return {"type": 5, "value": bytes(kb.key_value.key_material.value).hex(),
            "cryptographic_algorithm": ev(kb.cryptographic_algorithm), "cryptographic_length": ev(kb.cryptographic_length),
            "key_format_type": ev(kb.key_format_type), "split_key_parts": secret.split_key_parts,
            "key_part_identifier": secret.key_part_identifier, "split_key_threshold": secret.split_key_threshold,
            "split_key_method": ev(secret.split_key_method), "prime_field_size": secret.prime_field_size,
            "wrapping": None if kb.key_wrapping_data is None else "present"}


def raw_get(E, user, version, uid):
    """Get through the encoder / bytes door / decoder without the client's conversion to pie: -> core secret | reason"""
    import impl_e2e
    import impl_engine
    from kmip.core import enums, utils
    from kmip.core.messages import messages
    j = line(user, version, {"op": "get", "uid": uid, "format": None, "compression": False, "wrap": None}, 0)
    msg = impl_engine.build_request(j["req"])
    kv = impl_e2e.VERSIONS[version]
    st = utils.BytearrayStream()
    msg.write(st, kmip_version=kv)
    resp = messages.ResponseMessage()
    resp.read(utils.BytearrayStream(E.handle_bytes(bytes(st.buffer), user)), kmip_version=kv)
    bi = resp.batch_items[0]
    if bi.result_status.value == enums.ResultStatus.SUCCESS:
        return bi.response_payload.secret
    return "fail:%s" % (bi.result_reason.value.name if bi.result_reason else None)


def attr_map(attrs):
    have = {}
    for a in attrs:
        have.setdefault(a.attribute_name.value, []).append(a.attribute_value)
    return have


def attr_plain(name, v):
    """an attribute value of the client's answer as plain data"""
    if name == "Name":
        return v.name_value.value
    if name == "Application Specific Information":
        return [v.application_namespace, v.application_data]
    x = getattr(v, "value", v)
    return getattr(x, "value", x)


def expected_attrs(exp, version):
    """{attribute name: [plain values]} an object holding `exp` (the MANIFEST fields / the registered fields) must list
    under a full GetAttributes of its owner at `version`"""
    want = {"Unique Identifier": [exp["uid"]], "Object Type": [exp["otype"]]}
    if exp.get("initial_date") is not None:
        want["Initial Date"] = [exp["initial_date"]]
    if exp["names"]:
        want["Name"] = list(exp["names"])
    if version < 20:
        want["Operation Policy Name"] = [exp.get("policy", "default")]
    if version >= 14:
        want["Sensitive"] = [bool(exp.get("sensitive", False))]
    if exp["otype"] != 8:
        want["State"] = [exp["state"]]
        want["Cryptographic Usage Mask"] = [exp["mask"] or 0]
    if exp["otype"] in (2, 3, 4, 5):
        want["Cryptographic Algorithm"] = [exp["get"]["cryptographic_algorithm"]]
        want["Cryptographic Length"] = [exp["get"]["cryptographic_length"]]
    if exp["otype"] == 1:
        want["Certificate Type"] = [exp["get"]["certificate_type"]]
    if exp.get("groups"):
        want["Object Group"] = list(exp["groups"])
    if exp.get("appinfo"):
        want["Application Specific Information"] = [list(x) for x in exp["appinfo"]]
    return want


def compare_object(E, exp, version, user, raw=False):
    """Get + GetAttributes + GetAttributeList of exp["uid"] by `user` under `version`; -> [(field, what)] where the
    answers differ from `exp`"""
    from props import c05
    diffs = []
    uid = exp["uid"]
    c = E.client(version, user)
    try:
        if raw:
            s = raw_get(E, user, version, uid)
            got = describe_core(s) if not isinstance(s, str) else {"get-failed": s}
        else:
            got = c05.describe(c.get(uid))
    except Exception as e:
        got = {"get-failed": "%s: %s" % (type(e).__name__, str(e)[:160])}
    want = dict(exp["get"])
    if raw:
        want["wrapping"] = None
    for k in sorted(set(want) | set(got)):
        if want.get(k) != got.get(k):
            diffs.append((k, "Get under KMIP %s: %s is %s, stored %s" % (version, k, _short(got.get(k)), _short(want.get(k)))))
    try:
        _, attrs = c.get_attributes(uid)
        names = c.get_attribute_list(uid)
    except Exception as e:
        diffs.append(("attributes", "GetAttributes / GetAttributeList under KMIP %s fails: %s: %s"
                      % (version, type(e).__name__, str(e)[:160])))
        return diffs
    have = attr_map(attrs)
    wanta = expected_attrs(exp, version)
    if sorted(set(names)) != sorted(set(have)):
        diffs.append(("attribute-list", "GetAttributeList %s, GetAttributes %s" % (sorted(names), sorted(have))))
    for nm in sorted(set(have) | set(wanta)):
        g = None if nm not in have else [attr_plain(nm, v) for v in have[nm]]
        w = wanta.get(nm)
        if g != w:
            diffs.append(("attr:" + nm, "GetAttributes under KMIP %s: %s is %s, stored %s" % (version, nm, _short(g), _short(w))))
    return diffs


def _short(v):
    s = repr(v)
    return s if len(s) <= 90 else s[:90] + ".."


def c05_stored(E, fixture, ob, version, ctx, stats, steps_before=()):
    diffs = compare_object(E, ob, version, ob["owner"])
    stats["objects_compared"] += 1
    for field, what in diffs:
        ctx.report("c05:legacy:%s:stored-object-differs:%s:%s" % (fixture, KIND[ob["otype"]], field),
                   "object %s (%s of %s) of the old database file '%s': %s" % (ob["uid"], ob["type"], ob["owner"], fixture, what),
                   _rep("c05", fixture, list(steps_before) + [{"do": "stored", "uid": ob["uid"], "version": version}]))
    return diffs


def c05_new(E, fixture, spec, version, user, ctx, stats):
    """register one new object into the old file, read it before and after a restart; -> (outcome, diffs)"""
    from props import c05
    from kmip.pie import exceptions as pex
    step = {"do": "new", "spec": spec, "version": version, "user": user}
    spec = dict(spec, version=version)
    kind = spec["kind"]
    raw = False
    E.clock.now = 7000 + stats["new_cases"]
    stats["new_cases"] += 1
    try:
        o = build_pie(spec)
    except Exception as e:
        o = None
        outcome = "client-refused:%s" % type(e).__name__
    exp = None
    if o is not None:
        c = E.client(version, user)
        try:
            uid = c.register(o)
            outcome = "stored"
            d = expected_get(spec)
            if d is None:
                d = c05.describe(o)
                names, mask = [str(n) for n in o.names], 0
                for m in (getattr(o, "cryptographic_usage_masks", None) or []):
                    mask |= m.value
            else:
                names, mask = list(spec["names"]), spec["mask"]
            exp = {"uid": uid, "otype": d["type"], "get": d, "names": names, "mask": mask,
                   "state": 1, "initial_date": E.clock.now, "policy": "default", "sensitive": False}
        except pex.KmipOperationFailure as e:
            outcome = "server-refused:%s" % getattr(e.reason, "name", e.reason)
        except _legacy().EngineRaised as e:
            outcome = "server-raised:%s" % str(e).split(":")[0]
        except Exception as e:
            outcome = "client-refused:%s" % type(e).__name__
    if o is None and kind == "split":
        # what the pie class refuses can still arrive at the server from another client: the wire-level object
        raw = True
        L = _legacy()
        try:
            sk = L.core_split_key(spec["alg"], spec["len"], bytes.fromhex(spec["value"]), spec["format"], spec["parts"],
                                  spec["ident"], spec["threshold"], spec["method"], spec["prime"])
            res = L.register_core(E, user, version if version < 20 else 14, 5, sk,
                                  [A("Cryptographic Usage Mask", "int", spec["mask"])] +
                                  [A("Name", "name", n, i, t=1) for i, n in enumerate(spec["names"])])
        except L.EngineRaised as e:
            res = ("raised", str(e).split(":")[0])
        except Exception as e:
            res = ("unsendable", type(e).__name__)
        if res[0] == "ok":
            outcome += "+raw-stored"
            exp = {"uid": res[1], "otype": 5, "names": list(spec["names"]), "mask": spec["mask"], "state": 1,
                   "initial_date": E.clock.now, "policy": "default", "sensitive": False, "get": expected_get(spec)}
        else:
            outcome += "+raw-%s:%s" % (res[0] if res[0] != "fail" else "server-refused", res[1])
    diffs = []
    if exp is not None:
        label = KIND[exp["otype"]]
        for phase in ("before-restart", "after-restart"):
            if phase == "after-restart":
                E.restart()
            for field, what in compare_object(E, exp, version, user, raw=raw):
                diffs.append((field, "%s, %s" % (what, phase)))
            stats["objects_compared"] += 1
        for field, what in diffs:
            ctx.report("c05:legacy:%s:new-object-differs:%s:%s" % (fixture, label, field),
                       "a %s registered by %s into the old database file '%s' (%s) is not returned as stored: %s"
                       % (label, user, fixture, _short({k: v for k, v in spec.items() if k not in ("value", "names")}), what),
                       _rep("c05", fixture, [step]))
    stats["new_outcomes"]["%s:%s" % (kind if kind != "zoo" else "zoo", outcome)] += 1
    return outcome, diffs


def run_c05(ctx):
    L = _legacy()
    t0 = time.time()
    stats = {"objects_compared": 0, "new_cases": 0, "new_outcomes": collections.Counter()}
    per_fixture = {}
    samples = []
    for fixture in ("mixed", "fresh"):
        entry = L.describe(fixture)
        rng = random.Random("legacy-c05-%s-%s" % (ctx.seed, fixture))
        E = L.LegacyEngine(fixture, scripted_crypto=False, workdir=_workdir())
        stored_bad = new_bad = 0
        try:
            # (a) what the old file stores, under every version, before anything is written; and after a restart
            for version in VERS6:
                for ob in entry["objects"]:
                    stored_bad += 1 if c05_stored(E, fixture, ob, version, ctx, stats) else 0
            E.restart()
            for version in (10, 14, 20):
                for ob in entry["objects"]:
                    stored_bad += 1 if c05_stored(E, fixture, ob, version, ctx, stats, [{"do": "restart"}]) else 0
            # (b) new objects into the old file
            specs = new_object_specs(rng, ctx.tier)
            for k, spec in enumerate(specs):
                version = VERS6[(k + rng.randrange(6)) % 6]
                outcome, diffs = c05_new(E, fixture, spec, version, USERS[k % 2], ctx, stats)
                new_bad += 1 if diffs else 0
                if len(samples) < 4 and spec["kind"] == "split" and k % 17 == 0:
                    samples.append({"fixture": fixture, "spec": {x: y for x, y in spec.items() if x != "value"},
                                    "version": version, "outcome": outcome})
            # the old objects once more, after everything that was written next to them
            for ob in entry["objects"]:
                stored_bad += 1 if c05_stored(E, fixture, ob, 14, ctx, stats, [{"do": "new-objects"}]) else 0
        finally:
            E.close()
        per_fixture[fixture] = {"stored_objects": len(entry["objects"]), "new_object_cases": len(specs),
                                "stored_comparisons_that_differ": stored_bad, "new_cases_that_differ": new_bad}
    cov = {"fixtures": per_fixture, "objects_compared": stats["objects_compared"], "new_object_cases": stats["new_cases"],
           "new_object_outcomes": dict(stats["new_outcomes"]), "evaluations": stats["objects_compared"],
           "edge_values": [str(e) for e in EDGES], "schema_same_as_current": L.schema_report(), "samples": samples,
           "wall_s": round(time.time() - t0, 1),
           "rule": "fixtures mixed and fresh: (a) Get + GetAttributes + GetAttributeList of every live object of the old "
                   "file by its owner through the real ProxyKmipClient under the six versions (and after a restart) equal "
                   "the MANIFEST; (b) new objects of all seven types (C05's zoo) and split keys / key pairs / wrapped keys "
                   "with the numeric edges of every integer-valued field are registered through the real client into the "
                   "old file (values the pie class refuses are sent as wire-level objects): refused with a KMIP error, or "
                   "returned exactly as registered before and after a restart"}
    return cov


# ======================================================================================================== C13
def c13_cells(uid, otype, version, name, wrapkey):
    """the well-formed requests about one object (reads, cryptographic use, derivation, attribute operations)"""
    def it(op, **kw):
        d = {"op": op, "uid": uid}
        d.update(kw)
        return d
    cells = [it("getAttributeList"), it("getAttributes", names=[]),
             it("getAttributes", names=["Name", "State", "Object Type", "x-custom", "Link"]),
             it("get", format=None, compression=False, wrap=None),
             it("get", format=1, compression=False, wrap=None),
             it("get", format=None, compression=False,
                wrap={"method": 1, "enckey": wrapkey, "encparams": True, "mackey": False, "attrnames": 0, "encoding": 1})]
    cells += [{"op": "locate", "max": None, "offset": None, "attrs": [A("Name", "name", name, None, t=1)]},
              {"op": "locate", "max": None, "offset": None, "attrs": [A("Object Type", "enum", otype)]}]
    aes = {"alg": 3, "mode": 1, "padding": 3}
    cells += [it("encrypt", params=True, cp=aes, data_hex="00" * 16, iv_hex="00" * 16),
              it("decrypt", params=True, cp=aes, data_hex="00" * 16, iv_hex="00" * 16),
              it("encrypt", params=True, cp={"alg": 4, "padding": 8, "hash": 6}, data_hex="00" * 16, iv_hex=None),
              it("mac", alg=9, data=True), it("mac", alg=None, data=True),
              it("sign", params=True, cp={"alg": 4, "padding": 10, "hash": 6}),
              it("signatureVerify", params=True, cp={"alg": 4, "padding": 10, "hash": 6}, sig_hex="00" * 128)]
    for method, cp in ((3, {"hash": 6}), (1, {"hash": 6}), (4, aes)):
        cells.append({"op": "deriveKey", "otype": 2, "uids": [uid], "method": method, "cp": cp,
                      "tmpl": T(key_attrs(3, 128))})
    samples = [A("Name", "name", "renamed-%s" % uid, None, t=1), A("Object Group", "text", "g9"),
               APPINFO("ssl", "changed"), A("Sensitive", "bool", True), A("Cryptographic Usage Mask", "int", 12),
               A("State", "enum", 2), {"name": "x-custom", "index": None, "value": {"k": "text", "v": "v"}}]
    for ta in samples:
        nm = ta["name"]
        if version >= 20:
            if nm != "x-custom":
                cells.append(it("setAttribute", attr=ta))
                cells.append(it("modifyAttribute", attr=None, current=None, new=ta))
                cells.append(it("modifyAttribute", attr=None, current=ta, new=ta))
                cells.append(it("deleteAttribute", name=None, index=None, current=ta, reference=None))
            cells.append(it("deleteAttribute", name=None, index=None, current=None, reference=nm))
        else:
            for idx in (None, 0, 1):
                cells.append(it("modifyAttribute", attr=dict(ta, index=idx), current=None, new=None))
            cells.append(it("deleteAttribute", name=nm, index=1, current=None, reference=None))
            cells.append(it("deleteAttribute", name=nm, index=0, current=None, reference=None))
    return cells


def c13_setup_lines(version, now=9000):
    """one NEW object per type, registered / created by alice into the old file"""
    regs = [(2, {"otype": 2, "value": "0f" * 16, "alg": 3, "len": 128, "format": 1, "subtype": None}),
            (5, {"otype": 5, "value": "00" * 16, "alg": 3, "len": 128, "format": 1, "subtype": None}),
            (1, {"otype": 1, "value": "3003020101", "alg": None, "len": None, "format": None, "subtype": 1}),
            (7, {"otype": 7, "value": "0102030405060708", "alg": None, "len": None, "format": None, "subtype": 1}),
            (8, {"otype": 8, "value": "0102", "alg": None, "len": None, "format": None, "subtype": 0x80000000})]
    ls = []
    for ot, ob in regs:
        ls.append(line("alice", version, {"op": "register", "otype": ot, "obj": ob, "tmpl": T(
            ([] if ot == 8 else [A("Cryptographic Usage Mask", "int", ALLMASK)]) +
            [A("Name", "name", "new-%s" % KIND[ot], 0, t=1), A("Object Group", "text", "gnew", 0)])}, now))
    ls.append(line("alice", version, {"op": "createKeyPair", "priv": None, "pub": None, "common": T(
        key_attrs(4, 1024, 3) + [A("Name", "name", "new-pair", 0, t=1)])}, now))
    return ls


def mon_c13(j, o):
    """-> [(op, what)] of the items of one request answered General Failure (or whose handling raised inside the engine,
    or whose answer the session cannot encode)"""
    bad = []
    if not isinstance(o, dict):
        return bad
    if "rejected" in o:
        if o["rejected"] == GENERAL_FAILURE:
            bad.append((j["req"]["items"][0]["op"], "the request was answered General Failure as a whole (%s)"
                        % o.get("_exception", o.get("msg"))))
        return bad
    ints = list(o.get("_internal") or [])
    for it, r in zip(j["req"]["items"], o.get("results") or []):
        if r.get("reason") == GENERAL_FAILURE:
            ie = ints.pop(0) if ints else {"exc": "?", "site": "?", "msg": "?"}
            bad.append((it["op"], "answered General Failure: %s at %s: %s" % (ie["exc"], ie["site"], ie["msg"][:140])))
    if not bad and ints:
        bad.append((j["req"]["items"][0]["op"], "the engine raised %s at %s (%s)" % (ints[0]["exc"], ints[0]["site"],
                                                                                   ints[0]["msg"][:140])))
    ee = o.get("_encode_error")
    if ee and not bad:
        bad.append((j["req"]["items"][0]["op"], "the answer cannot be encoded (%s: %s), the session answers General Failure"
                    % (ee["exc"], ee["msg"][:140])))
    return bad


def run_c13(ctx):
    import shutil
    import tempfile
    L = _legacy()
    t0 = time.time()
    fixture = "mixed"
    entry = L.describe(fixture)
    rng = random.Random("legacy-c13-%s" % ctx.seed)
    sample = 0.5 if ctx.tier == "quick" else 1.0
    stats = {"cells": 0, "destroys_on_copies": 0, "outcomes": collections.Counter(), "general_failures": 0}
    by_op = collections.Counter()
    scratch = tempfile.mkdtemp(prefix="vlegacy13", dir=_workdir())
    try:
        for version in VERS4:
            E = L.LegacyEngine(fixture, scripted_crypto=False, workdir=_workdir())
            steps = []
            clock = [9000]

            def do(E_, steps_, j, otype):
                o = run_line(E_, j)
                if isinstance(o, dict) and "unbuildable" in o:
                    stats["outcomes"]["unbuildable"] += 1
                    return o
                steps_.append(j)
                stats["cells"] += 1
                it0 = j["req"]["items"][0]
                by_op[it0["op"]] += 1
                r0 = (o.get("results") or [{}])[0] if isinstance(o, dict) else {}
                stats["outcomes"]["ok" if r0.get("status") == "ok" else "fail:%s" % r0.get("reason", o.get("rejected")
                                  if isinstance(o, dict) else None)] += 1
                for op, what in mon_c13(j, o):
                    stats["general_failures"] += 1
                    ctx.report("c13:legacy:general-failure:%s:%s" % (op, otype),
                               "old database file '%s', KMIP %s, %s by %s on a %s: %s (item %s)"
                               % (fixture, version, op, j["id"]["user"], otype, what, _short(it0)),
                               _rep("c13", fixture, list(steps_), on_copy=E_ is not E))
                return o
            try:
                targets = [(ob["uid"], ob["owner"], ob["otype"], ob["names"][0], "old") for ob in entry["objects"]]
                for j in c13_setup_lines(version):
                    o = do(E, steps, j, KIND.get(j["req"]["items"][0].get("otype"), "pair"))
                    r0 = (o.get("results") or [{}])[0]
                    it0 = j["req"]["items"][0]
                    if it0["op"] == "register" and r0.get("status") == "ok":
                        targets.append((str(r0["data"]["uid"]), "alice", it0["otype"], "new-%s" % KIND[it0["otype"]], "new"))
                    elif it0["op"] == "createKeyPair" and r0.get("status") == "ok":
                        targets.append((str(r0["data"]["pub"]), "alice", 3, "new-pair", "new"))
                        targets.append((str(r0["data"]["priv"]), "alice", 4, "new-pair", "new"))
                setup = list(steps)
                snap = E.copy_db(os.path.join(scratch, "snap-%d.sqlite" % version))
                E._open()

                def req(user, item, otype, E_=E, steps_=steps):
                    clock[0] += 3
                    return do(E_, steps_, line(user, version, item, clock[0]), otype)

                def cells_pass(only=None):
                    for uid, owner, ot, name, age in targets:
                        for c in c13_cells(uid, ot, version, name, "1"):
                            if only is not None and c["op"] not in only:
                                continue
                            if sample < 1.0 and rng.random() >= sample:
                                continue
                            req(owner, c, KIND[ot])
                    for u in USERS:
                        req(u, {"op": "locate", "max": None, "offset": None, "attrs": []}, "any")
                # the objects as the old file holds them
                cells_pass()
                # Destroy of every object as it was found: each on its own copy of the file, so the grid stays complete
                for uid, owner, ot, name, age in targets:
                    E2 = L.LegacyEngine(src_db=snap, scripted_crypto=False, workdir=_workdir())
                    try:
                        s2 = list(setup)
                        req(owner, {"op": "destroy", "uid": uid}, KIND[ot], E2, s2)
                        req(owner, {"op": "get", "uid": uid, "format": None, "compression": False, "wrap": None},
                            KIND[ot], E2, s2)
                        req(owner, {"op": "locate", "max": None, "offset": None, "attrs": []}, "any", E2, s2)
                        stats["destroys_on_copies"] += 1
                    finally:
                        E2.close()
                # the lifecycle on the working file: activate all, use, revoke all, read, destroy all, read
                use = ("get", "getAttributes", "encrypt", "decrypt", "mac", "sign", "signatureVerify", "deriveKey")
                for uid, owner, ot, name, age in targets:
                    req(owner, {"op": "activate", "uid": uid}, KIND[ot])
                cells_pass(use)
                for uid, owner, ot, name, age in targets:
                    req(owner, {"op": "revoke", "uid": uid, "code": rng.choice([1, 2, 6])}, KIND[ot])
                cells_pass(("get", "getAttributes", "getAttributeList", "encrypt", "mac"))
                E.restart()
                steps.append({"cmd": "restart"})
                for uid, owner, ot, name, age in targets:
                    req(owner, {"op": "destroy", "uid": uid}, KIND[ot])
                cells_pass(("get", "getAttributes", "locate"))
            finally:
                E.close()
    finally:
        shutil.rmtree(scratch, ignore_errors=True)
    cov = {"fixture": fixture, "grid_cells": stats["cells"], "versions": VERS4, "objects_old": len(entry["objects"]),
           "objects_new_per_version": 7, "destroys_on_copies": stats["destroys_on_copies"],
           "cells_by_operation": dict(by_op), "outcomes": dict(stats["outcomes"]),
           "general_failures": stats["general_failures"], "grid_sample_fraction": sample,
           "evaluations": stats["cells"], "schema_same_as_current": L.schema_report(),
           "wall_s": round(time.time() - t0, 1),
           "rule": "old database file 'mixed' opened by the engine under test (real cryptography backend): operation x "
                   "(every live object of the old file + one new object per type) x version {1.0, 1.2, 1.4, 2.0}, "
                   "well-formed requests by the owner - reads, wrapped Get, Locate, Encrypt / Decrypt / MAC / Sign / "
                   "SignatureVerify, DeriveKey, Modify / Set / DeleteAttribute in the version's request form, then "
                   "Destroy of every object on its own copy of the file, then Activate all / use / Revoke all / read / "
                   "restart / Destroy all / read on the working file: no answer is General Failure, the engine raised "
                   "nothing"}
    return cov


# ======================================================================================================== hook
def hook(ctx, part):
    """one-line call for a property module: run the part, put its coverage under ctx.coverage["legacy_db"], add its
    evaluations / histories to the module's totals"""
    cov = {"c07": run_c07, "c05": run_c05, "c13": run_c13}[part](ctx)
    ctx.coverage["legacy_db"] = {k: v for k, v in cov.items() if k != "rule"}
    ctx.coverage["legacy_db_rule"] = cov["rule"]
    ctx.coverage["evaluations"] = (ctx.coverage.get("evaluations") or 0) + (cov.get("evaluations") or 0)
    ctx.coverage["traces_validated_against_impl"] = (ctx.coverage.get("traces_validated_against_impl") or 0) + \
        (cov.get("histories") or cov.get("new_object_cases") or 0)
    return cov


def is_mine(rep):
    return ((rep.get("replay") if isinstance(rep.get("replay"), dict) else rep) or {}).get("kind") == "legacy-db"


# ======================================================================================================== replay
def replay(ctx, rep):
    """re-run one recorded history (`rep` = the replay file or its "replay" member); True iff the property holds on it"""
    r = rep.get("replay", rep)
    L = _legacy()
    part, fixture, steps = r.get("part"), r["fixture"], r["steps"]
    if part == "c07":
        E = L.LegacyEngine(fixture, scripted_crypto=True, workdir=_workdir())
        try:
            outs = [run_line(E, j) for j in steps]
        finally:
            E.close()
        fails = mon_c07(L.describe(fixture), steps, outs)
        for kind, what, i in fails:
            print("  monitor: c07:legacy:%s:%s - step %d: %s" % (fixture, kind, i, what[:300]))
        return not fails
    if part == "c13":
        E = L.LegacyEngine(fixture, scripted_crypto=False, workdir=_workdir())
        bad = []
        try:
            for j in steps:
                o = run_line(E, j)
                if j.get("cmd") == "req":
                    bad += [(j, b) for b in mon_c13(j, o)]
        finally:
            E.close()
        for j, (op, what) in bad:
            print("  monitor: c13:legacy:general-failure:%s - KMIP %s: %s" % (op, j["req"]["version"], what[:300]))
        return not bad

    class _Collect(object):
        def __init__(self):
            self.got = []

        def report(self, sig, what, rp, no_input=False):
            self.got.append((sig, what))
    col = _Collect()
    stats = {"objects_compared": 0, "new_cases": 0, "new_outcomes": collections.Counter()}
    E = L.LegacyEngine(fixture, scripted_crypto=False, workdir=_workdir())
    try:
        objs = {o["uid"]: o for o in L.describe(fixture)["objects"]}
        for st in steps:
            if st["do"] == "restart":
                E.restart()
            elif st["do"] == "stored":
                c05_stored(E, fixture, objs[st["uid"]], st["version"], col, stats)
            elif st["do"] == "new":
                outcome, _ = c05_new(E, fixture, st["spec"], st["version"], st["user"], col, stats)
                print("  register: %s" % outcome)
            elif st["do"] == "new-objects":
                rng = random.Random("legacy-c05-%s-%s" % (rep.get("seed", 0), fixture))
                for k, spec in enumerate(new_object_specs(rng, rep.get("tier", "quick"))):
                    c05_new(E, fixture, spec, VERS6[(k + rng.randrange(6)) % 6], USERS[k % 2], _Collect(), stats)
    finally:
        E.close()
    for sig, what in col.got:
        print("  monitor: %s - %s" % (sig, what[:300]))
    return not col.got


if __name__ == "__main__":
    import json
    import vcheck

    class _Ctx(vcheck.Ctx):
        def report(self, sig, what, rp, no_input=False):
            self.reports = getattr(self, "reports", [])
            self.reports.append((sig, what, rp))
            if len([1 for s, _, _ in self.reports if s == sig]) == 1 and \
                    len(set(s for s, _, _ in self.reports)) <= int(os.environ.get("LEGACY_SHOW", "12")):
                print("REPORT", sig, "-", what[:600])
            return True
    which = [a for a in sys.argv[1:] if a in ("c07", "c05", "c13")] or ["c07", "c05", "c13"]
    tier = "thorough" if "thorough" in sys.argv[1:] else "quick"
    seed = int(os.environ.get("VERIF_SEED", "0") or 0)
    rc = 0
    for w in which:
        c = _Ctx(w.upper(), tier, seed, None)
        cov = {"c07": run_c07, "c05": run_c05, "c13": run_c13}[w](c)
        print("== %s tier=%s seed=%d" % (w, tier, seed))
        for k in sorted(cov):
            if k not in ("rule", "sample", "samples"):
                print("  %s: %s" % (k, json.dumps(cov[k], sort_keys=True, default=str)))
        reps = getattr(c, "reports", [])
        print("  reports: %d  signatures: %s" % (len(reps), dict(collections.Counter(r[0] for r in reps))))
        if os.environ.get("LEGACY_SAVE") and reps:
            seen = {}
            for s, what, rp in reps:
                seen.setdefault(s, {"signature": s, "what": what, "seed": seed, "tier": tier, "replay": rp})
            with open(os.environ["LEGACY_SAVE"] + "." + w + ".json", "w") as f:
                json.dump(list(seen.values()), f, indent=1, default=str)
        if os.environ.get("LEGACY_REPLAY") and reps:
            first = {}
            for s, what, rp in reps:
                first.setdefault(s, rp)
            for s, rp in list(first.items())[:6]:
                print("  replay of %s: %s" % (s, "holds" if replay(c, {"replay": rp, "seed": seed, "tier": tier})
                                               else "FAILS again"))
        rc = rc or (1 if reps else 0)
    sys.exit(rc)
