"""
Driving the real codec of /repo in-process for C01 / C02.

 * primitives: boundary pools, construction / write / read of every primitive class, byte mutation;
 * structures: every Struct subclass that can be default-constructed is exercised GENERICALLY:
   seed instances are obtained by decoding (a) the byte vectors the repo's own unit tests hold in setUp,
   (b) every nested item of those vectors, (c) real request / response messages produced by driving a real
   KmipEngine; every nested object of a decoded instance is an example for its own class.  New instances are
   derived by re-building through the constructor (kwargs read back with getattr), by replacing primitive
   leaves with boundary values of the same class, and by dropping / duplicating optional and repeated fields;
 * real server output: a real KmipSession behind a fake TLS connection (successes, every error class, parse
   failures, authentication failures, oversize replacement).

Nothing here looks at the Lean model; the property modules compare.
"""
import copy
import datetime
import enum
import importlib
import inspect
import logging
import os
import pkgutil
import random
import shutil
import struct
import sys
import tempfile
import unittest
import warnings

warnings.filterwarnings("ignore")
logging.disable(logging.CRITICAL)

from kmip.core import enums, exceptions, primitives, utils  # noqa: E402
from kmip.core import objects as core_objects  # noqa: E402
from kmip.core.messages import contents, messages, payloads  # noqa: E402
import kmip.core  # noqa: E402

VERSIONS = [enums.KMIPVersion.KMIP_1_0, enums.KMIPVersion.KMIP_1_1, enums.KMIPVersion.KMIP_1_2,
            enums.KMIPVersion.KMIP_1_3, enums.KMIPVersion.KMIP_1_4, enums.KMIPVersion.KMIP_2_0]
VNUM = {enums.KMIPVersion.KMIP_1_0: (1, 0), enums.KMIPVersion.KMIP_1_1: (1, 1), enums.KMIPVersion.KMIP_1_2: (1, 2),
        enums.KMIPVersion.KMIP_1_3: (1, 3), enums.KMIPVersion.KMIP_1_4: (1, 4), enums.KMIPVersion.KMIP_2_0: (2, 0)}


def vname(v):
    return "%d.%d" % VNUM[v]


def vof(name):
    for v, (a, b) in VNUM.items():
        if "%d.%d" % (a, b) == name:
            return v
    raise KeyError(name)


def quiet():
    warnings.filterwarnings("ignore")
    logging.disable(logging.CRITICAL)


def enc(o, v=enums.KMIPVersion.KMIP_1_0):
    s = utils.BytearrayStream()
    o.write(s, kmip_version=v)
    return bytes(s.buffer)


def dec(factory, b, v=enums.KMIPVersion.KMIP_1_0):
    """decode with a fresh instance; returns (object, number of bytes left in the stream)"""
    o = factory()
    s = utils.BytearrayStream(b)
    o.read(s, kmip_version=v)
    return o, len(s.buffer)


EMITTED = []          # every byte string any write() of /repo produced through enc_logged in this process


def enc_logged(o, v, what):
    b = enc(o, v)
    EMITTED.append((what, b))
    return b


# ---------------------------------------------------------------------------------------------------------
# primitives
# ---------------------------------------------------------------------------------------------------------

class BoundaryEnum(enum.Enum):
    """an enumeration class of the caller's own with values at the edges of Enumeration.MIN/MAX"""
    ZERO = 0
    ONE = 1
    MAX31 = 2 ** 31
    MAX32M1 = 2 ** 32 - 1
    MAX32 = 2 ** 32
    MAX32P1 = 2 ** 32 + 1
    NEG = -1


PRIM = {
    "Integer": 2, "LongInteger": 3, "BigInteger": 4, "Enumeration": 5, "Boolean": 6, "TextString": 7,
    "ByteString": 8, "DateTime": 9, "Interval": 10,
}
TAG_POOL = [enums.Tags.ACTIVATION_DATE, enums.Tags.BATCH_COUNT, enums.Tags.UNIQUE_IDENTIFIER, enums.Tags.Y,
            enums.Tags.ATTRIBUTE_VALUE, enums.Tags.SENSITIVE, enums.Tags.PROTECTION_STORAGE_MASKS]


def make_prim(kind, value, tag, enum_cls=None):
    if kind == "Integer":
        return primitives.Integer(value, tag)
    if kind == "LongInteger":
        return primitives.LongInteger(value, tag)
    if kind == "BigInteger":
        return primitives.BigInteger(value, tag)
    if kind == "Enumeration":
        return primitives.Enumeration(enum_cls, value, tag)
    if kind == "Boolean":
        return primitives.Boolean(value, tag)
    if kind == "TextString":
        return primitives.TextString(value, tag)
    if kind == "ByteString":
        return primitives.ByteString(value, tag)
    if kind == "DateTime":
        return primitives.DateTime(value, tag)
    if kind == "Interval":
        return primitives.Interval(value, tag)
    raise KeyError(kind)


def fresh_prim(kind, tag, enum_cls=None):
    if kind == "Enumeration":
        return primitives.Enumeration(enum_cls, None, tag)
    cls = getattr(primitives, kind)
    if kind == "DateTime":
        return cls(0, tag)
    return cls(tag=tag)


def prim_json_value(kind, value):
    """the value in the driver's JSON form"""
    if kind in ("Integer", "LongInteger", "BigInteger", "DateTime", "Interval"):
        return str(value)
    if kind == "Enumeration":
        return str(value.value)
    if kind == "Boolean":
        return bool(value)
    if kind == "TextString":
        return [ord(c) for c in value]
    if kind == "ByteString":
        return bytes(value).hex()
    raise KeyError(kind)


def prim_py_value(kind, o):
    """observation of a decoded primitive object, comparable with the driver's "v" """
    if kind in ("Integer", "LongInteger", "BigInteger", "DateTime", "Interval"):
        return str(o.value)
    if kind == "Enumeration":
        return str(o.value.value)
    if kind == "Boolean":
        return bool(o.value)
    if kind == "TextString":
        return o.value.encode("utf-8", "surrogatepass").hex()
    if kind == "ByteString":
        return bytes(o.value).hex()
    raise KeyError(kind)


def int_pool(rng, extra):
    base = [0, 1, -1, 2, 127, 128, 255, 256, 65535, 65536]
    for e in (7, 8, 15, 16, 31, 32, 63, 64):
        for d in (-2, -1, 0, 1, 2):
            base += [2 ** e + d, -(2 ** e) + d]
    base += [rng.randrange(-2 ** 33, 2 ** 33) for _ in range(extra)]
    base += [rng.randrange(-2 ** 65, 2 ** 65) for _ in range(extra)]
    return base


def big_pool(rng, extra):
    vals = [0, 1, -1, 255, -255, 256, -256]
    for k in (1, 2, 3, 4):
        for e in (64 * k, 64 * k - 1, 64 * k - 8, 64 * k + 1):
            for d in (-2, -1, 0, 1, 2):
                vals += [2 ** e + d, -(2 ** e) + d]
    for _ in range(extra):
        bits = rng.choice([1, 7, 8, 31, 63, 64, 65, 127, 128, 129, 255, 256, 257, 511, 512, 1000])
        vals.append(rng.randrange(-2 ** bits, 2 ** bits))
    return vals


TEXT_ALPHABET = "abcXYZ019 _-/.:@"
NON_ASCII = ["é", "héllo", "üüü", "日本", "\x7f", "\x80", "a€b", "\U0001f511",
             "naïve-key", "ÿ" * 8, "\u07ff", "\u0800", "\ud7ff", "\ue000", "\uffff", "\U00010000", "\U0010ffff",
             "é" * 4, "日" * 8, "\ud800", "a\udfffb",
             # characters that some codec, normaliser or "tolerant" reader treats specially: a byte order mark first,
             # in the middle, twice; other zero-width / format characters; NUL; line separators; decomposed letters;
             # non-characters; the replacement character
             "\ufeffabc", "\ufeff", "a\ufeffb", "\ufeff\ufeffx", "\ufffeabc", "\u200babc", "abc\u200d", "\u2060x", "\u00adsoft",
             "\x00abc", "abc\x00", "line\u2028sep", "para\u2029sep", "a\r\nb", "\r", "\n", "\t tab", " lead", "trail ",
             "e\u0301", "\u212b", "\ufb01", "\uff11", "\ufdd0", "\ufffd", "\u0130stanbul", "\u00df", "\U0001f468\u200d\U0001f469"]


def text_pool(rng, extra):
    vals = [""]
    for n in range(1, 18):
        vals.append("".join(rng.choice(TEXT_ALPHABET) for _ in range(n)))
    vals += ["\x00", "a\x00b", "\x7f" * 3, " " * 8, "x" * 255, "y" * 256, "z" * 1025]
    vals += NON_ASCII
    for _ in range(extra):
        n = rng.randrange(0, 40)
        vals.append("".join(chr(rng.randrange(0, 128)) for _ in range(n)))
    for _ in range(extra // 4):
        n = rng.randrange(1, 12)
        vals.append("".join(chr(rng.choice([rng.randrange(32, 127), rng.randrange(128, 0x800),
                                             rng.randrange(0x800, 0xD000)])) for _ in range(n)))
    return vals


def bytes_pool(rng, extra):
    vals = [b""]
    for n in range(1, 18):
        vals.append(bytes(rng.randrange(256) for _ in range(n)))
    vals += [b"\x00", b"\x00" * 8, b"\xff" * 9, b"\x80", bytes(range(256)), b"k" * 255, b"q" * 1025]
    for _ in range(extra):
        vals.append(bytes(rng.randrange(256) for _ in range(rng.randrange(0, 70))))
    return vals


def prim_pool(kind, rng, extra):
    """boundary pool of candidate constructor arguments (some of them outside what the constructor accepts)"""
    if kind == "Integer":
        return int_pool(rng, extra)
    if kind in ("LongInteger", "DateTime"):
        return int_pool(rng, extra)
    if kind == "BigInteger":
        return big_pool(rng, extra)
    if kind == "Interval":
        return [0, 1, 59, 2 ** 31 - 1, 2 ** 31, 2 ** 32 - 2, 2 ** 32 - 1, 2 ** 32, 2 ** 32 + 1, -1] + \
               [rng.randrange(0, 2 ** 32) for _ in range(extra)]
    if kind == "Boolean":
        return [True, False]
    if kind == "TextString":
        return text_pool(rng, extra)
    if kind == "ByteString":
        return bytes_pool(rng, extra)
    if kind == "Enumeration":
        vals = [(BoundaryEnum, m) for m in BoundaryEnum]
        for ec in (enums.Operation, enums.ResultStatus, enums.ResultReason, enums.ObjectType, enums.Tags,
                   enums.CryptographicAlgorithm, enums.OpaqueDataType, enums.KeyFormatType, enums.State):
            ms = list(ec)
            picks = [ms[0], ms[-1]] + [rng.choice(ms) for _ in range(max(2, extra // 8))]
            vals += [(ec, m) for m in picks]
        return vals
    raise KeyError(kind)


def mutate_bytes(b, rng, n):
    """byte-level neighbours of an encoding: header fields, length field, padding, truncation, extension"""
    out = []
    L = len(b)
    fixed = []
    for pos in (0, 1, 2, 3, 4, 5, 6, 7, 8, 11, 12, 15, L - 1, L - 8 if L >= 8 else 0):
        if 0 <= pos < L:
            fixed.append(pos)
    for pos in fixed:
        for val in (0x00, 0x01, 0x80, 0xff, (b[pos] + 1) % 256, b[pos] ^ 0x08):
            if val != b[pos]:
                out.append(b[:pos] + bytes([val]) + b[pos + 1:])
    for cut in (0, 1, 3, 4, 7, 8, 9, L - 1, L - 4, L - 8):
        if 0 <= cut < L:
            out.append(b[:cut])
    out.append(b + b"\x00")
    out.append(b + b"\x00" * 8)
    out.append(b + b)
    if L >= 8:
        ln = int.from_bytes(b[4:8], "big")
        for d in (-8, -1, 1, 4, 8, 16):
            if 0 <= ln + d < 2 ** 32:
                out.append(b[:4] + (ln + d).to_bytes(4, "big") + b[8:])
        for d in (-8, 8):
            # length field and body changed together
            if ln + d >= 0:
                body = b[8:]
                nb = body[:d] if d < 0 else body + b"\x00" * d
                out.append(b[:4] + (ln + d).to_bytes(4, "big") + nb)
    for _ in range(n):
        pos = rng.randrange(L) if L else 0
        if L:
            out.append(b[:pos] + bytes([rng.randrange(256)]) + b[pos + 1:])
    seen = set()
    res = []
    for m in out:
        if m != b and m not in seen:
            seen.add(m)
            res.append(m)
    return res


# ---------------------------------------------------------------------------------------------------------
# structures: discovery, seeds, comparison, derivation
# ---------------------------------------------------------------------------------------------------------

def core_modules():
    mods = []
    for m in pkgutil.walk_packages(kmip.core.__path__, "kmip.core."):
        try:
            mods.append(importlib.import_module(m.name))
        except Exception:
            pass
    return mods


def struct_classes():
    """every Struct subclass defined in kmip.core.*, with the flag 'has its own read and write'"""
    res = {}
    for mod in core_modules():
        for n, c in inspect.getmembers(mod, inspect.isclass):
            if c.__module__ != mod.__name__:
                continue
            if issubclass(c, primitives.Struct) and c is not primitives.Struct:
                own = "read" in c.__dict__ and "write" in c.__dict__
                res[c.__module__ + "." + c.__name__] = (c, own)
    return res


def short(c):
    return c.__name__


def walk_ttlv(b, off=0, end=None, depth=0):
    """(offset, total length) of every item nested in b — a plain walker used only to cut seeds out of vectors"""
    end = len(b) if end is None else end
    while off + 8 <= end and depth < 30:
        ty = b[off + 3]
        ln = int.from_bytes(b[off + 4:off + 8], "big")
        tot = 8 + ln + ((8 - ln % 8) % 8)
        if off + tot > end:
            return
        yield off, tot
        if ty == 1:
            for x in walk_ttlv(b, off + 8, off + 8 + ln, depth + 1):
                yield x
        off += tot


def harvest_test_vectors():
    """byte vectors held by the repo's unit-test fixtures after setUp (no test is run)"""
    vecs = set()
    try:
        import kmip.tests.unit.core as tpk
    except Exception:
        return []
    for m in pkgutil.walk_packages(tpk.__path__, "kmip.tests.unit.core."):
        try:
            mod = importlib.import_module(m.name)
        except Exception:
            continue
        for n, c in inspect.getmembers(mod, inspect.isclass):
            if not issubclass(c, unittest.TestCase) or c.__module__ != mod.__name__:
                continue
            meths = [x for x in dir(c) if x.startswith("test")]
            if not meths:
                continue
            try:
                tc = c(meths[0])
                tc.setUp()
            except Exception:
                continue
            for k, v in vars(tc).items():
                if isinstance(v, utils.BytearrayStream):
                    vecs.add(bytes(v.buffer))
                elif isinstance(v, (bytes, bytearray)) and len(v) >= 8 and v[0] == 0x42:
                    vecs.add(bytes(v))
            try:
                tc.tearDown()
            except Exception:
                pass
    return sorted(vecs)


IGNORED_ATTRS = {"length", "padding_length", "logger", "pack_string"}
LEAF_TYPES = (type(None), bool, int, str, bytes, enum.Enum)


def state_items(o):
    """the observable state of a Base instance: name -> value, for values the comparison understands"""
    out = []
    for k in sorted(vars(o)):
        if k in IGNORED_ATTRS:
            continue
        v = vars(o)[k]
        if isinstance(v, LEAF_TYPES) or isinstance(v, (list, tuple, dict, primitives.Base)):
            out.append((k, v))
    return out


def diff(x, y, path="", out=None, limit=40):
    """paths at which two values differ (structural comparison that does not rely on __eq__)"""
    out = [] if out is None else out
    if len(out) >= limit:
        return out
    if isinstance(x, primitives.Base) or isinstance(y, primitives.Base):
        if isinstance(x, primitives.Base) and isinstance(y, primitives.Base) \
                and not isinstance(x, primitives.Struct) and not isinstance(y, primitives.Struct):
            # primitive leaves: kind, tag, value (readers and setters may pick different subclasses)
            if prim_kind(x) != prim_kind(y):
                out.append(path + ":" + str(prim_kind(x)) + "/" + str(prim_kind(y)))
            elif x.tag != y.tag:
                out.append(path + ".tag")
            elif x.value != y.value or type(x.value) is not type(y.value) and not isinstance(x.value, (int, bytes)):
                out.append(path)
            return out
        if type(x) is not type(y):
            out.append(path + ":" + type(x).__name__ + "/" + type(y).__name__)
            return out
        if x.tag != y.tag:
            out.append(path + ".tag")
        if x.type != y.type:
            out.append(path + ".type")
        dx, dy = dict(state_items(x)), dict(state_items(y))
        for k in sorted(set(dx) | set(dy)):
            if k in ("tag", "type"):
                continue
            if k not in dx or k not in dy:
                if (dx.get(k) is None) and (dy.get(k) is None):
                    continue
                out.append(path + "." + k.lstrip("_"))
                continue
            diff(dx[k], dy[k], path + "." + k.lstrip("_"), out, limit)
        return out
    if isinstance(x, (list, tuple)) and isinstance(y, (list, tuple)):
        if len(x) != len(y):
            out.append(path + "[len %d/%d]" % (len(x), len(y)))
            return out
        for i, (a, b) in enumerate(zip(x, y)):
            diff(a, b, path + "[%d]" % i, out, limit)
        return out
    if isinstance(x, dict) and isinstance(y, dict):
        for k in sorted(set(x) | set(y), key=str):
            diff(x.get(k), y.get(k), path + "{%s}" % k, out, limit)
        return out
    if x is None and isinstance(y, (list, tuple)) and len(y) == 0:
        return out
    if y is None and isinstance(x, (list, tuple)) and len(x) == 0:
        return out
    if type(x) is not type(y) and not (isinstance(x, (int, bool)) and isinstance(y, (int, bool))):
        out.append(path + ":" + type(x).__name__ + "/" + type(y).__name__)
        return out
    if x != y:
        out.append(path)
    return out


def repair_text_padding(o):
    """TextString.read_value leaves padding_length = 8 when the length is a multiple of 8 (ByteString resets it
    to 0); such an object writes 8 extra zero bytes.  Reported separately (c01:reencode-differs:TextString-…);
    repaired here so that everything else can still be exercised.  Returns the number of repaired objects."""
    n = 0
    for z in nested_bases(o):
        if isinstance(z, primitives.TextString) and z.value is not None and z.padding_length == 8:
            z.padding_length = 0
            n += 1
    return n


def nested_bases(o, seen=None, depth=0):
    """every Base instance reachable from o (o included)"""
    seen = set() if seen is None else seen
    if id(o) in seen or depth > 40:
        return
    seen.add(id(o))
    if isinstance(o, primitives.Base):
        yield o
        for k, v in state_items(o):
            for z in nested_bases(v, seen, depth + 1):
                yield z
    elif isinstance(o, (list, tuple)):
        for v in o:
            for z in nested_bases(v, seen, depth + 1):
                yield z
    elif isinstance(o, dict):
        for v in o.values():
            for z in nested_bases(v, seen, depth + 1):
                yield z


def factory_for(o):
    """a factory producing a fresh, empty instance able to read what `o` writes"""
    c = type(o)
    if not isinstance(o, primitives.Struct):
        kind = prim_kind(o)
        if kind == "Enumeration":
            ec = o.enum
            try:
                c(); return c
            except Exception:
                return lambda: primitives.Enumeration(ec, None, o.tag)
        try:
            t = c()
            if t.tag == o.tag:
                return c
        except Exception:
            pass
        tag = o.tag
        base = getattr(primitives, kind)
        if kind == "DateTime":
            return lambda: base(0, tag)
        return lambda: base(tag=tag)
    try:
        t = c()
        if t.tag == o.tag:
            return c
    except Exception:
        pass
    tag = o.tag
    try:
        c(tag=tag)
        return lambda: c(tag=tag)
    except Exception:
        return None


def factory_for_class(c):
    try:
        c()
        return c
    except Exception:
        return None


def prim_kind(o):
    for k in ("DateTime", "Integer", "LongInteger", "BigInteger", "Enumeration", "Boolean", "TextString",
              "ByteString", "Interval"):
        if isinstance(o, getattr(primitives, k)):
            return k
    return None


def rebuild_prim(o, value):
    """a new primitive of the same class and tag holding `value` (None when the class refuses it)"""
    kind = prim_kind(o)
    c = type(o)
    try:
        if kind == "Enumeration":
            if c is primitives.Enumeration:
                return primitives.Enumeration(o.enum, value, o.tag)
            n = c(value)
        elif c.__module__ == "kmip.core.primitives":
            n = c(value, o.tag)
        else:
            n = c(value)
        if n.tag != o.tag:
            base = getattr(primitives, kind)
            n = base(o.enum, value, o.tag) if kind == "Enumeration" else base(value, o.tag)
        return n
    except Exception:
        return None


def leaf_value_pool(o, rng):
    kind = prim_kind(o)
    if kind == "Integer":
        return [0, 1, -1, 2 ** 31 - 1, -2 ** 31, 255, 256, rng.randrange(-2 ** 31, 2 ** 31)]
    if kind in ("LongInteger", "DateTime"):
        return [0, 1, -1, 2 ** 63 - 1, -2 ** 63, 2 ** 31, 1500000000, rng.randrange(-2 ** 63, 2 ** 63)]
    if kind == "BigInteger":
        return [0, -1, 2 ** 63, -2 ** 63 - 1, 2 ** 64, 2 ** 127 - 1, -2 ** 128, rng.randrange(-2 ** 200, 2 ** 200)]
    if kind == "Interval":
        return [0, 1, 2 ** 32 - 1, 2 ** 31, rng.randrange(0, 2 ** 32)]
    if kind == "Boolean":
        return [True, False]
    if kind == "TextString":
        n = rng.randrange(0, 18)
        return ["", "a", "".join(rng.choice(TEXT_ALPHABET) for _ in range(n)), "x" * 8, "y" * 9, "z" * 15, "é",
                "日本語", "ключ-8b", "\U0001f511k"]
    if kind == "ByteString":
        n = rng.randrange(0, 18)
        return [b"", b"\x00", bytes(rng.randrange(256) for _ in range(n)), b"\xff" * 8, b"\x01" * 9, b"\x80" * 7]
    if kind == "Enumeration":
        ms = list(o.enum)
        return [ms[0], ms[-1], rng.choice(ms), rng.choice(ms)]
    return []


def slots(o, path=(), depth=0):
    """(container, key, value, path) for every place a Base value / list sits in inside the tree of o"""
    if depth > 30:
        return
    if isinstance(o, primitives.Base):
        for k, v in state_items(o):
            if k in ("tag", "type"):
                continue
            if isinstance(v, (primitives.Base, list)):
                yield (vars(o), k, v, path + (k,))
                for z in slots(v, path + (k,), depth + 1):
                    yield z
    elif isinstance(o, list):
        for i, v in enumerate(o):
            if isinstance(v, (primitives.Base, list)):
                yield (o, i, v, path + (i,))
                for z in slots(v, path + (i,), depth + 1):
                    yield z


def derive(x, rng, n):
    """instances derived from x: primitive leaves replaced by pool values, optional parts dropped, list
    elements dropped / duplicated.  Returns (description, instance) pairs; x itself is not modified."""
    out = []
    base_slots = list(slots(x))
    if not base_slots:
        return out
    idxs = list(range(len(base_slots)))
    rng.shuffle(idxs)
    for i in idxs[:n]:
        y = copy.deepcopy(x)
        ys = list(slots(y))
        if i >= len(ys):
            continue
        cont, key, val, path = ys[i]
        p = ".".join(str(q).lstrip("_") for q in path)
        if isinstance(val, list):
            if val and rng.random() < 0.5:
                j = rng.randrange(len(val))
                del val[j]
                out.append(("drop %s[%d]" % (p, j), y))
            elif val:
                j = rng.randrange(len(val))
                val.insert(j, copy.deepcopy(val[j]))
                out.append(("dup %s[%d]" % (p, j), y))
            continue
        if isinstance(val, primitives.Struct):
            if rng.random() < 0.7 and not isinstance(cont, list):
                cont[key] = None
                out.append(("none %s" % p, y))
            continue
        pool = leaf_value_pool(val, rng)
        if not pool or rng.random() < 0.2:
            if not isinstance(cont, list):
                cont[key] = None
                out.append(("none %s" % p, y))
            continue
        nv = rng.choice(pool)
        nprim = rebuild_prim(val, nv)
        if nprim is None:
            continue
        cont[key] = nprim
        out.append(("set %s=%r" % (p, nv if not isinstance(nv, (bytes, str)) or len(nv) < 20 else len(nv)), y))
    return out


def ctor_kwargs(o):
    """constructor keyword arguments read back from an instance (property getters give what setters take)"""
    c = type(o)
    try:
        sig = inspect.signature(c.__init__)
    except (TypeError, ValueError):
        return None
    kw = {}
    for name, p in sig.parameters.items():
        if name == "self" or p.kind in (p.VAR_POSITIONAL, p.VAR_KEYWORD):
            continue
        if name == "tag":
            kw[name] = o.tag
            continue
        if not hasattr(o, name):
            return None
        kw[name] = getattr(o, name)
    return kw


def rebuild_via_ctor(o, drop=()):
    kw = ctor_kwargs(o)
    if kw is None:
        return None
    for d in drop:
        if d in kw:
            kw[d] = None
    return type(o)(**kw)


class Library(object):
    """examples of every encodable class, grown from seeds"""

    def __init__(self):
        self.classes = struct_classes()
        self.examples = {}       # class key -> list of (instance, version it was decoded under, origin)
        self.sources = {}        # class key -> list of (version, bytes) the class decoded completely (ground truth
                                 # that no later decode can have touched)
        self.seen_bytes = set()
        self.stats = {"vectors": 0, "items_tried": 0, "decoded": 0}

    def key(self, c):
        return c.__module__ + "." + c.__name__

    def add_instance(self, o, v, origin):
        for z in nested_bases(o):
            if isinstance(z, primitives.Struct):
                k = self.key(type(z))
                lst = self.examples.setdefault(k, [])
                if len(lst) < 400:
                    lst.append((z, v, origin))

    def by_tag(self):
        m = {}
        for k, (c, own) in self.classes.items():
            try:
                t = c()
                m.setdefault(t.tag.value, []).append((k, c))
            except Exception:
                pass
        return m

    def feed_bytes(self, b, origin, versions=None, tagmap=None):
        """try every nested item of b against every class with that tag, under every version"""
        tagmap = tagmap or self.by_tag()
        self.stats["vectors"] += 1
        for off, tot in walk_ttlv(b):
            item = b[off:off + tot]
            if item[3] != 1:
                continue
            tag = int.from_bytes(item[:3], "big")
            for k, c in tagmap.get(tag, []):
                for v in (versions or VERSIONS):
                    sig = (k, v, item)
                    if sig in self.seen_bytes:
                        continue
                    self.seen_bytes.add(sig)
                    self.stats["items_tried"] += 1
                    try:
                        o, left = dec(c, item, v)
                    except Exception:
                        continue
                    if left:
                        continue
                    self.stats["decoded"] += 1
                    src = self.sources.setdefault(k, [])
                    if len(src) < 200:
                        src.append((v, item))
                    self.stats["stale_text_padding_repaired"] = self.stats.get("stale_text_padding_repaired", 0) \
                        + repair_text_padding(o)
                    self.add_instance(o, v, origin)

    def covered(self):
        return sorted(k for k in self.examples if self.examples[k])

    def uncovered(self):
        return sorted(k for k in self.classes if not self.examples.get(k))


# ---------------------------------------------------------------------------------------------------------
# real messages: engine and session
# ---------------------------------------------------------------------------------------------------------

def engine_traffic(seed, n_requests, real_crypto=False):
    """drive a real KmipEngine with generated requests of all dispatched operations; returns a list of
    dicts {version, request (RequestMessage), request_bytes, response (ResponseMessage) | None, error}"""
    import impl_engine
    import gen_engine
    g = gen_engine.Gen(seed)
    E = impl_engine.ImplEngine(scripted_crypto=not real_crypto)
    out = []
    try:
        fixed = [{"version": v, "ts": None, "async": None, "bopt": None, "maxsize": None,
                  "items": [{"op": "unsupported", "bid": None, "crypto": None, "code": c}]}
                 for (v, c) in ((12, 13), (14, 4), (20, 9), (10, 26))]
        for i in range(n_requests):
            req = fixed[i] if i < len(fixed) else g.request()
            line = {"cmd": "req", "now": 1000 + i, "id": g.ident(req), "req": req}
            v = req["version"]
            try:
                msg = impl_engine.build_request(req)
            except Exception as e:
                out.append({"version": v, "build_error": repr(e)})
                continue
            rec = {"version": v, "request": msg, "json": req}
            E.clock.now = 1000 + i
            E._scripts = [it.get("crypto") for it in req["items"]]
            E._recorded = [None] * len(req["items"])
            E._item = -1
            ident = line["id"]
            cred = (ident["user"], None if ident["groups"] is None else list(ident["groups"]))
            try:
                resp, max_size, ver = E.engine.process_request(copy.deepcopy(msg), cred)
                rec["response"] = resp
                rec["response_version"] = ver
                try:
                    g.observe(line, observation_of(resp))
                except Exception:
                    pass
            except exceptions.KmipError as e:
                rec["kmip_error"] = e
            except Exception as e:
                rec["error"] = repr(e)
            out.append(rec)
    finally:
        E.close()
    return out


def observation_of(resp):
    """what gen_engine.Gen.observe wants to know about a response (so later requests address live objects)"""
    import impl_engine
    out = []
    for bi in resp.batch_items:
        ok = bi.result_status.value == enums.ResultStatus.SUCCESS
        d = None
        if ok and bi.operation is not None:
            try:
                d = impl_engine.data_of(bi.operation.value, bi.response_payload)
            except Exception:
                d = None
        out.append({"status": "ok" if ok else "fail", "op": bi.operation.value.value if bi.operation else None,
                    "data": d})
    return {"results": out}


_CERT = {}


def make_cert(cns=("alice",), eku="client"):
    from cryptography import x509
    from cryptography.x509.oid import NameOID, ExtendedKeyUsageOID
    from cryptography.hazmat.primitives import hashes, serialization
    from cryptography.hazmat.primitives.asymmetric import rsa
    key = _CERT.get("key")
    if key is None:
        key = _CERT["key"] = rsa.generate_private_key(65537, 2048)
    sig = (tuple(cns), eku)
    if sig in _CERT:
        return _CERT[sig]
    name = x509.Name([x509.NameAttribute(NameOID.COMMON_NAME, c) for c in cns])
    b = x509.CertificateBuilder().subject_name(name).issuer_name(name).public_key(key.public_key()) \
        .serial_number(1).not_valid_before(datetime.datetime(2020, 1, 1)) \
        .not_valid_after(datetime.datetime(2040, 1, 1))
    if eku == "client":
        b = b.add_extension(x509.ExtendedKeyUsage([ExtendedKeyUsageOID.CLIENT_AUTH]), False)
    elif eku == "server":
        b = b.add_extension(x509.ExtendedKeyUsage([ExtendedKeyUsageOID.SERVER_AUTH]), False)
    der = b.sign(key, hashes.SHA256()).public_bytes(serialization.Encoding.DER)
    _CERT[sig] = der
    return der


class FakeConn(object):
    """what KmipSession needs from an ssl socket"""

    def __init__(self, data, der, chunk=None):
        self.buf = data
        self.der = der
        self.out = []
        self.chunk = chunk

    def do_handshake(self):
        pass

    def getpeercert(self, binary_form=False):
        return self.der

    def shared_ciphers(self):
        return None

    def cipher(self):
        return ("x", "y", 1)

    def recv(self, n):
        if self.chunk:
            n = min(n, self.chunk)
        d = self.buf[:n]
        self.buf = self.buf[n:]
        return d

    def sendall(self, b):
        self.out.append(bytes(b))

    def shutdown(self, how):
        pass

    def close(self):
        pass


class SessionRig(object):
    """a real KmipEngine + KmipSession per connection; deterministic clock"""

    def __init__(self):
        from kmip.services.server import engine as eng
        from kmip.core import policy as oppolicy
        import keygen_cap
        keygen_cap.install()
        self.dir = tempfile.mkdtemp(prefix="vcodec")
        self.engine = eng.KmipEngine(policies=copy.deepcopy(oppolicy.policies),
                                     database_path=os.path.join(self.dir, "db.sqlite"))

    def close(self):
        try:
            self.engine._data_store.dispose()
        except Exception:
            pass
        shutil.rmtree(self.dir, ignore_errors=True)

    def run(self, data, der, chunk=None, tls=True, auth=None):
        from kmip.services.server import session as sess
        c = FakeConn(data, der, chunk)
        s = sess.KmipSession(self.engine, c, ("127.0.0.1", 5), name="codec", enable_tls_client_auth=tls,
                             auth_settings=auth)
        s.run()
        return c.out
