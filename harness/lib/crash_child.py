"""
Child process of the C09 crash enumeration: opens a KmipEngine on the given database file,
runs ONE request, and kills itself (os._exit, no cleanup, no atexit) at a chosen point:
  --kill-at K    : immediately before the K-th SQL statement of the operation (1-based),
  --kill-at cB   : immediately before the DBAPI COMMIT, --kill-at cA : immediately after it,
  --kill-at cB:n / cA:n : the same around the n-th COMMIT of the request (a batch commits once per item),
  --kill-at none : run to completion.
Prints one JSON line per event on stdout (flushed): {"ev":"stmt","n":i,"sql":verb table} /
{"ev":"commit-begin"} / {"ev":"commit-done"} / {"ev":"ack", "out": response}.
"""
import json
import os
import sys

HERE = os.path.dirname(os.path.abspath(__file__))
sys.path.insert(0, HERE)


def main():
    import argparse
    ap = argparse.ArgumentParser()
    ap.add_argument("--db")
    ap.add_argument("--line")
    ap.add_argument("--kill-at", default="none")
    ap.add_argument("--startup-kill", default=None,
                    help="die immediately BEFORE the K-th schema statement (CREATE ...) of the server's start on the file; "
                         "'count' = start completely and report how many there were")
    a = ap.parse_args()
    import impl_engine
    from sqlalchemy import event
    if a.startup_kill is not None:
        from sqlalchemy.engine import Engine as _SAEngine
        seen = {"n": 0}

        def on_stmt(conn, cursor, statement, parameters, context, executemany):
            if statement.strip().split()[0].upper() != "CREATE":
                return
            seen["n"] += 1
            if a.startup_kill != "count" and seen["n"] == int(a.startup_kill):
                os._exit(99)
        event.listen(_SAEngine, "before_cursor_execute", on_stmt)
        from kmip.services.server import engine as engine_mod
        impl_engine.quiet()
        engine_mod.KmipEngine(database_path=a.db)
        sys.stdout.write(json.dumps({"ev": "started", "schema_statements": seen["n"]}) + "\n")
        sys.stdout.flush()
        os._exit(0)
    line = json.loads(a.line)
    E = impl_engine.ImplEngine.__new__(impl_engine.ImplEngine)
    # open on an existing file (do not create a temp dir)
    impl_engine.quiet()
    E.dir = os.path.dirname(a.db)
    E.db = a.db
    E.scripted = True
    E.clock = impl_engine.CLOCK
    impl_engine.engine_mod.time = impl_engine.CLOCK
    import copy
    E.policies = copy.deepcopy(impl_engine.core_policy.policies)
    E.engine = None
    E._scripts = []
    E._item = -1
    E.internal_errors = []
    E._open()
    state = {"n": 0, "armed": False, "commits": 0}

    def emit(o):
        sys.stdout.write(json.dumps(o) + "\n")
        sys.stdout.flush()

    def before(conn, cursor, statement, parameters, context, executemany):
        if not state["armed"]:
            return
        verb = statement.strip().split()[0].upper()
        if verb in ("SELECT", "PRAGMA"):
            return
        state["n"] += 1
        words = statement.split()
        table = ""
        for i, w in enumerate(words):
            if w.upper() in ("INTO", "UPDATE", "FROM") and i + 1 < len(words):
                table = words[i + 1].strip('"')
                break
        if a.kill_at == str(state["n"]):
            os._exit(99)
        emit({"ev": "stmt", "n": state["n"], "sql": "%s %s" % (verb, table), "item": E._item})
    event.listen(E.engine._data_store, "before_cursor_execute", before)
    dialect = E.engine._data_store.dialect
    orig_commit = dialect.do_commit

    def do_commit(dbapi_connection):
        if state["armed"]:
            state["commits"] += 1
            if a.kill_at == "cB" or a.kill_at == "cB:%d" % state["commits"]:
                os._exit(99)
            emit({"ev": "commit-begin", "item": E._item})
        orig_commit(dbapi_connection)
        if state["armed"]:
            emit({"ev": "commit-done", "item": E._item})
            if a.kill_at == "cA" or a.kill_at == "cA:%d" % state["commits"]:
                os._exit(99)
    dialect.do_commit = do_commit
    state["armed"] = True
    out = E.handle(line)
    state["armed"] = False
    emit({"ev": "ack", "out": out})
    # the store as the living server sees it once the answer is out (what a restart must find again)
    try:
        emit({"ev": "live-dump", "objs": E.dump()["objs"]})
    except Exception as e:
        emit({"ev": "live-dump", "error": "%s: %s" % (type(e).__name__, e)})
    if a.kill_at == "ack":
        os._exit(99)
    os._exit(0)


if __name__ == "__main__":
    main()
